import MiniVecProof.Model.Vec
/-
  Hand-written model of the four iterators: the cursor fields are those of the Rust structs
  (as element indices relative to the data pointer cached at creation), and `Drop`, the `DropGuard`s
  and `mem::forget` follow the source statement by statement (DESIGN.md §3.4).
  While a borrowing iterator is alive the borrowed vector is the focus of the `VM` computation.
-/
namespace MV
open VM

/-- run `cleanup` only if `body` unwinds (a guard that is `mem::forget`-ed on the normal path) -/
def VM.onUnwind {α} (body : VM α) (cleanup : VM Unit) : VM α := fun s =>
  match body s with
  | (.ok a, s1) => (.ok a, s1)
  | (.error p, s1) =>
    if unwinds p then
      (match cleanup s1 with
       | (.ok _, s2) => (.error p, s2)
       | (.error q, s2) => (.error (if unwinds q then .doublePanic else q), s2))
    else (.error p, s1)

/-- `Drain` / the draining half of `Splice` -/
structure DrainSt where
  ptr : DPtr          -- `data` at creation (null => dangling cursors)
  pos : Nat           -- drain_pos_
  stop : Nat          -- drain_end_
  tailPos : Nat       -- remaining_pos_
  tail : Nat          -- remaining_
  deriving Repr, Inhabited

namespace Drain

def create (X : Ctx) (b1 b2 : Bound) : VM DrainSt := do
  let r ← lift X (Gen.drain_pre X.env b1 b2)
  match r with
  | .ret _ => throw .ub
  | .cont env =>
    if env.v_data.isNull then
      pure { ptr := .null, pos := 0, stop := 0, tailPos := 0, tail := env.v_len - env.v_end_idx }
    else do
      inb env.v_data env.v_end_idx
      pure { ptr := env.v_data, pos := env.v_start_idx, stop := env.v_end_idx,
             tailPos := env.v_end_idx, tail := env.v_len - env.v_end_idx }

def next (d : DrainSt) : VM (Option Elem × DrainSt) :=
  if d.pos ≥ d.stop then pure (none, d) else do
    let e ← rd d.ptr d.pos
    pure (some e, { d with pos := d.pos + 1 })

def next_back (d : DrainSt) : VM (Option Elem × DrainSt) :=
  if d.pos ≥ d.stop then pure (none, d) else do
    let e ← rd d.ptr (d.stop - 1)
    pure (some e, { d with stop := d.stop - 1 })

def size_hint (d : DrainSt) : Nat := d.stop - d.pos

/-- `for x in &mut drain { drop(x) }` -/
def dropRest (X : Ctx) : Nat → DrainSt → VM DrainSt
  | 0, d => pure d
  | fuel + 1, d => do
    let (o, d') ← next d
    match o with
    | none => pure d'
    | some e => do
      dropElem X e
      dropRest X fuel d'

/-- the tail is moved back behind the vector's current length -/
def moveTail (X : Ctx) (d : DrainSt) : VM Unit :=
  if d.tail > 0 then do
    let vlen ← lift X (Gen.len X.env)
    let q ← lift X (Gen.as_mut_ptr X.env)
    inb q (vlen + d.tail)
    cp q d.tailPos vlen d.tail
    lift X (Gen.set_len X.env (vlen + d.tail))
  else pure ()

/-- `DropGuard::drop` -/
def guardBody (X : Ctx) (d : DrainSt) : VM Unit := do
  let d' ← dropRest X (d.stop - d.pos + 1) d
  moveTail X d'

/-- `Drop for Drain`: each element is destroyed under an armed guard -/
def dropLoop (X : Ctx) : Nat → DrainSt → VM DrainSt
  | 0, d => pure d
  | fuel + 1, d => do
    let (o, d') ← next d
    match o with
    | none => pure d'
    | some e => do
      onUnwind (dropElem X e) (guardBody X d')
      dropLoop X fuel d'

def drop (X : Ctx) (d : DrainSt) : VM Unit := do
  let d' ← dropLoop X (d.stop - d.pos + 1) d
  guardBody X d'

end Drain

structure SpliceSt where
  d : DrainSt
  fill : Vec.IterScript
  deriving Repr, Inhabited

namespace Splice

def create (X : Ctx) (b1 b2 : Bound) (fill : Vec.IterScript) : VM SpliceSt := do
  let r ← lift X (Gen.splice_pre X.env b1 b2)
  match r with
  | .ret _ => throw .ub
  | .cont env =>
    if env.v_data.isNull then
      pure { d := { ptr := .null, pos := 0, stop := 0, tailPos := 0, tail := 0 }, fill := fill }
    else do
      inb env.v_data env.v_end_idx
      pure { d := { ptr := env.v_data, pos := env.v_start_idx, stop := env.v_end_idx,
                    tailPos := env.v_end_idx, tail := env.v_len - env.v_end_idx }, fill := fill }

/-- `fill_.next()` -/
def fillNext (X : Ctx) (fill : Vec.IterScript) : VM (Option Elem × Vec.IterScript) := do
  callback X
  match fill with
  | [] => pure (none, [])
  | none :: rest => pure (none, rest)
  | some v :: rest => do
    let e ← mkElem v
    pure (some e, rest)

/-- the fill loop over the drained positions: stops at the first `None` -/
def fillHole (X : Ctx) (q : DPtr) (base : Nat) : Nat → Nat → Vec.IterScript → VM (Bool × Vec.IterScript)
  | 0, _, fill => pure (true, fill)
  | n + 1, idx, fill => do
    let (o, fill') ← fillNext X fill
    match o with
    | some e => do
      wr q (base + idx) e
      Vec.hdrLenAdd X 1
      fillHole X q base n (idx + 1) fill'
    | none => pure (false, fill')

/-- the replacement ended inside the hole: the tail is moved down behind what was filled in -/
def closeGap (X : Ctx) (d : DrainSt) : VM Unit := do
  let l ← lift X (Gen.len X.env)
  if l = d.tailPos then
    lift X (Gen.set_len X.env (l + d.tail))
  else do
    let q ← lift X (Gen.as_mut_ptr X.env)
    inb q (l + d.tail)
    cp q d.tailPos l d.tail
    lift X (Gen.set_len X.env (l + d.tail))

/-- the hole is full and `tmp` holds the rest of the replacement: make room for it.
    Returns the vector's length and `tmp`'s length. -/
def makeRoom (X : Ctx) (d : DrainSt) (tmp : VSt) : VM (Nat × Nat) := do
  let cap ← lift X (Gen.capacity X.env)
  let l ← lift X (Gen.len X.env)
  let (tl, _) ← onVec tmp (lift X (Gen.len X.env))
  let t1 ← lift X (GM.liftE (uadd X.m l d.tail))
  let total ← lift X (GM.liftE (uadd X.m t1 tl))
  if total > cap then do
    let a ← lift X (Gen.alignment X.env)
    lift X (Gen.grow X.env total a)
  else pure ()
  pure (l, tl)

/-- move the tail up behind the room for `tl` more elements -/
def tailUp (X : Ctx) (d : DrainSt) (l tl : Nat) : VM Unit :=
  if d.tail > 0 then do
    let q ← lift X (Gen.as_mut_ptr X.env)
    inb q (l + tl + d.tail)
    cp q d.tailPos (l + tl) d.tail
  else pure ()

/-- move `tmp`'s `tl` elements into the slots behind `l` -/
def moveIn (X : Ctx) (tmp : VSt) (l tl : Nat) : VM Unit := do
  let (es, _) ← onVec tmp (if tl = 0 then pure [] else do
    let p ← lift X (Gen.as_ptr X.env)
    rdRange p 0 tl)
  if tl ≠ 0 then do
    let q ← lift X (Gen.as_mut_ptr X.env)
    inb q (l + tl)
    forN tl (fun i => wr q (l + i) (es.getD i default))
  else pure ()

/-- move the tail up, move `tmp`'s elements in, publish the new length -/
def placeRest (X : Ctx) (d : DrainSt) (tmp : VSt) (l tl : Nat) : VM Unit := do
  tailUp X d l tl
  moveIn X tmp l tl
  lift X (Gen.set_len X.env (l + d.tail + tl))

def insertBody (X : Ctx) (d : DrainSt) (tmp : VSt) : VM Unit := do
  let (l, tl) ← makeRoom X d tmp
  placeRest X d tmp l tl

/-- `let mut tmp: MiniVec<_> = (&mut fill_).collect();` and what follows.
    `tmp` is a local: destroyed with its elements if the body unwinds; on the normal path its
    length is zeroed first (the elements now belong to the vector) -/
def insertRest (X : Ctx) (d : DrainSt) (fill : Vec.IterScript) : VM Unit := do
  let (tmp, _) ← Vec.collect X fill
  onUnwind (insertBody X d tmp) (do let _ ← onVec tmp (Vec.dropVec X); pure ())
  let (tl, tmp) ← onVec tmp (lift X (Gen.len X.env))
  let (_, tmp) ← onVec tmp (if tl ≠ 0 then lift X (Gen.set_len X.env 0) else pure ())
  let _ ← onVec tmp (Vec.dropVec X)
  pure ()

/-- the part of `DropGuard::drop` that runs on a vector with storage -/
def refill (X : Ctx) (d : DrainSt) (fill : Vec.IterScript) : VM Unit := do
  let q ← lift X (Gen.as_mut_ptr X.env)
  let l0 ← lift X (Gen.len X.env)
  inb q l0
  let numDrained := d.tailPos - l0
  let (needsMore, fill) ← fillHole X q l0 numDrained 0 fill
  if !needsMore then closeGap X d else insertRest X d fill

/-- `DropGuard::drop` of Splice -/
def guardBody (X : Ctx) (s : SpliceSt) : VM Unit := do
  let d ← Drain.dropRest X (s.d.stop - s.d.pos + 1) s.d
  let dflt ← lift X GM.isDefault
  if dflt then do
    let _ ← Vec.forIter X (Vec.push X) (s.fill.length + 1) s.fill
    pure ()
  else refill X d s.fill

def dropLoop (X : Ctx) : Nat → SpliceSt → VM SpliceSt
  | 0, s => pure s
  | fuel + 1, s => do
    let (o, d') ← Drain.next s.d
    match o with
    | none => pure { s with d := d' }
    | some e => do
      onUnwind (dropElem X e) (guardBody X { s with d := d' })
      dropLoop X fuel { s with d := d' }

def drop (X : Ctx) (s : SpliceSt) : VM Unit := do
  let s' ← dropLoop X (s.d.stop - s.d.pos + 1) s
  guardBody X s'

end Splice

structure DFSt where
  oldLen : Nat
  newLen : Nat
  pos : Nat
  panicked : Bool
  pred : Vec.Pred1
  calls : Nat          -- how many times the predicate has been called

namespace DrainFilter

def create (X : Ctx) (pred : Vec.Pred1) : VM DFSt := do
  let oldLen ← lift X (Gen.len X.env)
  if oldLen > 0 then lift X (Gen.set_len X.env 0) else pure ()
  pure { oldLen := oldLen, newLen := 0, pos := 0, panicked := false, pred := pred, calls := 0 }

/-- one call of user code whose panic is caught: `true` = it panicked -/
def callbackCaught (X : Ctx) : VM Bool := fun s =>
  match callback X s with
  | (.ok _, s') => (.ok false, s')
  | (.error _, s') => (.ok true, s')

inductive Step
  | item (e : Elem)
  | done
  | predPanicked
  deriving Repr

/-- `DrainFilter::next`. A predicate panic unwinds out of `next` with `panicked = true` left in the
    iterator; since the iterator outlives the call, the step is reported as a value and the caller
    re-raises the panic. -/
def next (X : Ctx) : Nat → DFSt → VM (Step × DFSt)
  | 0, f => pure (.done, f)
  | fuel + 1, f =>
    if f.pos < f.oldLen then do
      let data ← lift X (Gen.data X.env)
      let e ← rd data f.pos
      let p ← callbackCaught X
      if p then pure (.predPanicked, { f with panicked := true }) else do
      let r := f.pred f.calls e
      let f := { f with calls := f.calls + 1, panicked := false }
      if r then pure (.item e, { f with pos := f.pos + 1 })
      else do
        if f.pos > f.newLen then cp data f.pos f.newLen 1 else pure ()
        next X fuel { f with pos := f.pos + 1, newLen := f.newLen + 1 }
    else pure (.done, f)

def guardBody (X : Ctx) (f : DFSt) : VM Unit := do
  let numRemaining := f.oldLen - f.pos
  let numDrained := f.pos - f.newLen
  if numRemaining > 0 ∧ numDrained > 0 then do
    let q ← lift X (Gen.as_mut_ptr X.env)
    inb q f.oldLen
    cp q f.pos f.newLen numRemaining
  else pure ()
  if f.oldLen = 0 then pure ()
  else lift X (Gen.set_len X.env (f.newLen + numRemaining))

/-- `self.for_each(drop)` under the guard -/
def dropLoop (X : Ctx) : Nat → DFSt → VM Unit
  | 0, f => guardBody X f
  | fuel + 1, f => do
    let (st, f') ← next X (f.oldLen - f.pos + 1) f
    match st with
    | .done => guardBody X f'
    | .predPanicked => do
      -- unwinding out of `for_each`: the guard runs, then the panic continues
      (fun s => match guardBody X f' s with
        | (.ok _, s') => (.error .explicit, s')
        | (.error q, s') => (.error (if unwinds q then .doublePanic else q), s'))
    | .item e => do
      onUnwind (dropElem X e) (guardBody X f')
      dropLoop X fuel f'

/-- `Drop for DrainFilter` -/
def drop (X : Ctx) (f : DFSt) : VM Unit :=
  if f.panicked then guardBody X f else dropLoop X (f.oldLen - f.pos + 1) f

end DrainFilter

structure IntoIterSt where
  ptr : DPtr          -- `pos` at creation (null for a never-allocated vector)
  pos : Nat           -- how far `pos` has advanced, in elements
  deriving Repr, Inhabited

namespace IntoIter

def create (X : Ctx) : VM IntoIterSt := do
  let d ← lift X GM.isDefault
  if d then pure { ptr := .null, pos := 0 } else do
    let p ← lift X (Gen.data X.env)
    pure { ptr := p, pos := 0 }

def next (X : Ctx) (it : IntoIterSt) : VM (Option Elem × IntoIterSt) := do
  let d ← lift X GM.isDefault
  if d then pure (none, it) else do
    let count ← lift X GM.hdrLen
    inb it.ptr (it.pos + count)
    if count = 0 then pure (none, it) else do
      Vec.hdrLenSub X 1
      let e ← rd it.ptr it.pos
      pure (some e, { it with pos := it.pos + 1 })

def next_back (X : Ctx) (it : IntoIterSt) : VM (Option Elem × IntoIterSt) := do
  let d ← lift X GM.isDefault
  if d then pure (none, it) else do
    let count ← lift X GM.hdrLen
    inb it.ptr (it.pos + count)
    if count = 0 then pure (none, it) else do
      Vec.hdrLenSub X 1
      let e ← rd it.ptr (it.pos + count - 1)
      pure (some e, it)

def as_slice (X : Ctx) (it : IntoIterSt) : VM (List Elem) := do
  let d ← lift X GM.isDefault
  if d then pure [] else do
    let n ← lift X (Gen.len X.env)
    rdRange it.ptr it.pos n

def len (X : Ctx) : VM Nat := lift X (Gen.len X.env)

/-- `Drop for IntoIter`: the remaining window is destroyed in place with the embedded length
    already zeroed, then the embedded vector is dropped (also when a destructor unwinds). -/
def drop (X : Ctx) (it : IntoIterSt) : VM Unit :=
  guarded (do
    let d ← lift X GM.isDefault
    if d then pure () else do
      let n ← lift X (Gen.len X.env)
      if n > 0 then do
        let es ← rdRange it.ptr it.pos n
        lift X (Gen.set_len X.env 0)
        dropAll X es
      else pure ())
    (Vec.dropVec X)

/-- `Clone for IntoIter`: a fresh vector made from the remaining slice, and a fresh cursor -/
def clone (X : Ctx) (it : IntoIterSt) : VM (VSt × IntoIterSt) := do
  let es ← as_slice X it
  let o ← Vec.from_slice X es
  let (it', o) ← onVec o (create X)
  pure (o, it')

end IntoIter
end MV

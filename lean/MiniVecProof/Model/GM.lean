import MiniVecProof.Model.Basic
/-
  The "header machine": the state against which the generated decision programs run.
  It holds what the code can learn from `is_default()` and the three header words, records every
  allocator request and header update as an `Action`, and keeps the state reached at a panic
  (the monad is exception-over-state, so a panic does not roll anything back).
  Hand-written and trusted; the memory model replays the actions on blocks (`Model/Mem.lean`).
-/
namespace MV

/-- The value of a `Header { len, cap, alignment }` expression. -/
structure HeaderV where
  len : Nat
  cap : Nat
  alignment : Nat
  deriving DecidableEq, Repr, Inhabited

inductive Action
  | alloc (size align : Nat)
  | allocFail (size align : Nat)
  | realloc (oldSize oldAlign newSize : Nat)
  | reallocFail (oldSize oldAlign newSize : Nat)
  | install (h : HeaderV)        -- header written into the block just obtained, and `buf` now points to it
  | setLen (n : Nat)
  | reset                        -- `buf` repointed at the sentinel (the block is handed to someone else)
  deriving DecidableEq, Repr, Inhabited

/-- Result of an `alloc`/`realloc` call as the code sees it. -/
inductive Tok | null | blk
  deriving DecidableEq, Repr, Inhabited

def Tok.isNull : Tok → Bool
  | .null => true
  | .blk => false

/-- What `as_ptr()`/`as_mut_ptr()`/`data()` evaluate to: null, or the block base plus a byte offset. -/
inductive DPtr | null | at (byteOff : Nat)
  deriving DecidableEq, Repr, Inhabited

def DPtr.isNull : DPtr → Bool
  | .null => true
  | .at _ => false

/-- How far a partially translated method got: it returned (at its `k`-th `return`, counted in
    source order, the fall-through end being the last), or it reached its first pointer statement
    with the listed locals. -/
inductive Flow (ε : Type)
  | ret (k : Nat)
  | cont (env : ε)
  deriving Repr

structure GS where
  isDefault : Bool
  len : Nat
  cap : Nat
  align : Nat
  /-- header bytes of a block obtained from the allocator and not yet installed:
      `none` = no such block; `some none` = uninitialised (fresh `alloc`);
      `some (some h)` = holds header `h` (moved by `realloc`, or written by the code). -/
  fresh : Option (Option HeaderV) := none
  acts : List Action := []
  allocIdx : Nat := 0
  /-- the word in front of the elements of the block just obtained holds the block's alignment
      (`from_raw_part(s)` finds the header through it) -/
  mirrored : Bool := false
  deriving Repr, Inhabited

/-- Everything a generated function is parameterised by. -/
structure Env where
  c : Cfg
  m : Mode
  /-- allocator-failure oracle: does the k-th request (0-based, counted across the run) fail? -/
  fail : Nat → Bool := fun _ => false

/-- Requests larger than this are refused by the model allocator (and by the harness allocator). -/
def allocLimit : Nat := 1073741824

def GM (α : Type) : Type := GS → Except Panic α × GS

namespace GM
@[inline] def pure' {α} (a : α) : GM α := fun s => (.ok a, s)
@[inline] def bind' {α β} (x : GM α) (f : α → GM β) : GM β := fun s =>
  match x s with
  | (.ok a, s') => f a s'
  | (.error e, s') => (.error e, s')
instance : Monad GM where
  pure := pure'
  bind := bind'

def throw {α} (p : Panic) : GM α := fun s => (.error p, s)
def liftE {α} (x : Except Panic α) : GM α := fun s => (x, s)
def get : GM GS := fun s => (.ok s, s)
def modify (f : GS → GS) : GM Unit := fun s => (.ok (), f s)
def emit (a : Action) : GM Unit := modify fun s => { s with acts := s.acts ++ [a] }

/-- `self.is_default()` -/
def isDefault : GM Bool := fun s => (.ok s.isDefault, s)
/-- `self.header().len` — reading a header through the sentinel is never legal. -/
def hdrLen : GM Nat := fun s => if s.isDefault then (.error .ub, s) else (.ok s.len, s)
def hdrCap : GM Nat := fun s => if s.isDefault then (.error .ub, s) else (.ok s.cap, s)
def hdrAlign : GM Nat := fun s => if s.isDefault then (.error .ub, s) else (.ok s.align, s)
/-- `self.header_mut().len = n` — the sentinel is read-only memory. -/
def setHdrLen (n : Nat) : GM Unit := fun s =>
  if s.isDefault then (.error .ub, s)
  else (.ok (), { s with len := n, acts := s.acts ++ [.setLen n] })

/-- `assert!(cond)` -/
def assert (b : Bool) : GM Unit := if b then pure () else throw .explicit
/-- `debug_assert!(cond)`: flagged in both profiles (the theorems show it cannot fire). -/
def debugAssert (b : Bool) : GM Unit := if b then pure () else throw .debugAssert

/-- `alloc::alloc::alloc(layout)` -/
def alloc (E : Env) (l : Layout) : GM Tok := fun s =>
  if E.fail s.allocIdx || decide (allocLimit < l.size) then
    (.ok .null, { s with acts := s.acts ++ [.allocFail l.size l.align], allocIdx := s.allocIdx + 1 })
  else
    (.ok .blk, { s with acts := s.acts ++ [.alloc l.size l.align], allocIdx := s.allocIdx + 1,
                        fresh := some none, mirrored := false })

/-- `alloc::alloc::realloc(self.buf.as_ptr(), old_layout, new_size)`; on success the old block is
    gone and its bytes (in particular its header) have moved to the new one. -/
def realloc (E : Env) (old : Layout) (newSize : Nat) : GM Tok := fun s =>
  if s.isDefault then (.error .ub, s) else
  if E.fail s.allocIdx || decide (allocLimit < newSize) then
    (.ok .null, { s with acts := s.acts ++ [.reallocFail old.size old.align newSize],
                         allocIdx := s.allocIdx + 1 })
  else
    (.ok .blk, { s with acts := s.acts ++ [.realloc old.size old.align newSize],
                        allocIdx := s.allocIdx + 1,
                        fresh := some (some ⟨s.len, s.cap, s.align⟩), mirrored := false })

/-- `alloc::alloc::handle_alloc_error(layout)` -/
def handleAllocError {α} (_l : Layout) : GM α := throw .allocError

/-- `core::ptr::write(new_buf.cast::<Header>(), header)` -/
def writeHeader (t : Tok) (h : HeaderV) : GM Unit := fun s =>
  match t, s.fresh with
  | .blk, some _ => (.ok (), { s with fresh := some (some h) })
  | _, _ => (.error .ub, s)

/-- `ptr::write(new_buf.add(off).cast::<usize>(), val)`: legal only as the write of the header's
    alignment into the word right in front of the elements of the block just obtained -/
def writeMirror (t : Tok) (off val : Nat) : GM Unit := fun s =>
  match t, s.fresh with
  | .blk, some (some h) =>
      if val = h.alignment ∧ off + wordSize = alignUp hdrSize h.alignment then (.ok (), { s with mirrored := true })
      else (.error .ub, s)
  | _, _ => (.error .ub, s)

/-- `ptr::read(p.sub(back).cast::<usize>())`: legal only as the read of the word right in front of the elements
    (`p` must be the data pointer of the installed block, `back` one word); every installed block had it
    written with its alignment (`writeMirror`, `setBuf`) and nothing else ever writes it -/
def readMirror (p : DPtr) (back : Nat) : GM Nat := fun s =>
  match p with
  | .at o =>
      if s.isDefault = false ∧ back = wordSize ∧ o = alignUp hdrSize s.align then (.ok s.align, s)
      else (.error .ub, s)
  | .null => (.error .ub, s)

/-- `self.buf = NonNull::new_unchecked(new_buf)`. A block whose word in front of the elements was not
    written is never installed in the model: `from_raw_part(s)` would read an uninitialised word. -/
def setBuf (t : Tok) : GM Unit := fun s =>
  match t, s.fresh with
  | .blk, some (some h) =>
      if s.mirrored then
        (.ok (), { s with isDefault := false, len := h.len, cap := h.cap, align := h.alignment,
                          fresh := none, mirrored := false, acts := s.acts ++ [.install h] })
      else (.error .ub, s)
  | _, _ => (.error .ub, s)

/-- `self.buf = <sentinel>` (the block now belongs to another handle). -/
def resetBuf : GM Unit := fun s =>
  (.ok (), { s with isDefault := true, len := 0, cap := 0, align := 0, acts := s.acts ++ [.reset] })

end GM

/-- The state of a never-allocated vector. -/
def GS.sentinel (allocIdx : Nat := 0) : GS :=
  { isDefault := true, len := 0, cap := 0, align := 0, allocIdx := allocIdx }

end MV

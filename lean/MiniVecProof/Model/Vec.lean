import MiniVecProof.Model.Mem
import MiniVecProof.Gen.Kernel
/-
  Hand-written model of the pointer-manipulating part of every `MiniVec` method
  (DESIGN.md §3.4). Each method first runs its *generated* decision program (`Gen.<name>` or
  `Gen.<name>_pre`, regenerated from /repo/src on every run) through `VM.lift`, then performs the
  element moves the source performs, in the same order, on the abstract block.
  Tied to the code by the trace correspondence check, not by translation.
-/
namespace MV
open VM

/-- `x` owns the argument values `args` until it returns; if it unwinds they are destroyed. -/
def VM.ownArgs {α} (X : Ctx) (args : List Elem) (x : VM α) : VM α := fun s =>
  match x s with
  | (.ok a, s1) => (.ok a, s1)
  | (.error p, s1) =>
    if unwinds p then
      (match dropAll X args s1 with
       | (.ok _, s2) => (.error p, s2)
       | (.error q, s2) => (.error (if unwinds q then .doublePanic else q), s2))
    else (.error p, s1)

/-- iterate `f` over `0, 1, …, n-1` -/
def VM.forN (n : Nat) (f : Nat → VM Unit) : VM Unit :=
  let rec go (k : Nat) (i : Nat) : VM Unit :=
    match k with
    | 0 => pure ()
    | k + 1 => do f i; go k (i + 1)
  go n 0

namespace Vec

def hdrLenAdd (X : Ctx) (n : Nat) : VM Unit :=
  lift X (do let l ← GM.hdrLen; let l' ← GM.liftE (uadd X.m l n); GM.setHdrLen l')
def hdrLenSub (X : Ctx) (n : Nat) : VM Unit :=
  lift X (do let l ← GM.hdrLen; let l' ← GM.liftE (usub X.m l n); GM.setHdrLen l')

/-- `MiniVec::push` -/
def push (X : Ctx) (e : Elem) : VM Unit := do
  let r ← ownArgs X [e] (lift X (Gen.push_pre X.env))
  match r with
  | .ret _ => pure ()
  | .cont env =>
    wr env.v_data env.v_len e
    hdrLenAdd X 1

/-- `MiniVec::pop` -/
def pop (X : Ctx) : VM (Option Elem) := do
  let r ← lift X (Gen.pop_pre X.env)
  match r with
  | .ret _ => pure none
  | .cont env =>
    let p ← lift X (Gen.as_ptr X.env)
    let e ← rd p (env.v_len - 1)
    lift X (Gen.set_len X.env (env.v_len - 1))
    pure (some e)

/-- `MiniVec::insert` -/
def insert (X : Ctx) (index : Nat) (e : Elem) : VM Unit := do
  let r ← ownArgs X [e] (lift X (Gen.insert_pre X.env index))
  match r with
  | .ret _ => pure ()
  | .cont env =>
    let p ← lift X (Gen.as_mut_ptr X.env)
    inb p (env.v_index + 1)
    cp p env.v_index (env.v_index + 1) (env.v_len - env.v_index)
    wr p env.v_index e
    lift X (Gen.set_len X.env (env.v_len + 1))

/-- `MiniVec::remove` -/
def remove (X : Ctx) (index : Nat) : VM Elem := do
  let r ← lift X (Gen.remove_pre X.env index)
  match r with
  | .ret _ => throw .ub
  | .cont env =>
    let p ← lift X (Gen.as_mut_ptr X.env)
    let x ← rd p env.v_index
    cp p (env.v_index + 1) env.v_index (env.v_len - env.v_index - 1)
    lift X (Gen.set_len X.env (env.v_len - 1))
    pure x

/-- `MiniVec::swap_remove` -/
def swap_remove (X : Ctx) (index : Nat) : VM Elem := do
  let r ← lift X (Gen.swap_remove_pre X.env index)
  match r with
  | .ret _ => throw .ub
  | .cont env =>
    let p0 ← lift X (Gen.as_ptr X.env)
    let src ← rd p0 (env.v_len - 1)
    hdrLenSub X 1
    let p ← lift X (Gen.as_mut_ptr X.env)
    let old ← rd p env.v_index
    wr p env.v_index src
    pure old

/-- `MiniVec::truncate` -/
def truncate (X : Ctx) (n : Nat) : VM Unit := do
  let r ← lift X (Gen.truncate_pre X.env n)
  match r with
  | .ret _ => pure ()
  | .cont env =>
    let d ← lift X (Gen.data X.env)
    let es ← rdRange d env.v_len (env.v_self_len - env.v_len)
    dropAll X es

def clear (X : Ctx) : VM Unit := truncate X 0

def reserve (X : Ctx) (n : Nat) : VM Unit := lift X (Gen.reserve X.env n)
def reserve_exact (X : Ctx) (n : Nat) : VM Unit := lift X (Gen.reserve_exact X.env n)
def shrink_to (X : Ctx) (n : Nat) : VM Unit := lift X (Gen.shrink_to X.env n)
def shrink_to_fit (X : Ctx) : VM Unit := lift X (Gen.shrink_to_fit X.env)

/-- `Drop for MiniVec` (the focused vector is gone afterwards: it becomes the sentinel state) -/
def dropVec (X : Ctx) : VM Unit := do
  let r ← lift X (Gen.drop_impl_pre X.env)
  match r with
  | .ret _ => pure ()
  | .cont env =>
    let d ← lift X (Gen.data X.env)
    let es ← rdRange d 0 env.v_len
    dropAll X es
    let l ← lift X (GM.liftE (Gen.make_layout X.env env.v_cap env.v_alignment))
    let v ← getV
    match v.blk with
    | none => ub "dealloc without a block"
    | some b =>
      emit (.dealloc l.size l.align)
      if b.lay = l then setV {} else ub "dealloc quotes a layout the block was not allocated with"

/-- a local vector that is dropped if `x` unwinds -/
def withLocal {α} (X : Ctx) (o : VSt) (x : VM α) : VM (α × VSt) := fun s =>
  match x { s with v := o } with
  | (.ok a, s') => (.ok (a, s'.v), { s' with v := s.v })
  | (.error p, s') =>
    if unwinds p then
      (match dropVec X s' with
       | (.ok _, s2) => (.error p, { s2 with v := s.v })
       | (.error q, s2) => (.error (if unwinds q then .doublePanic else q), { s2 with v := s.v }))
    else (.error p, { s' with v := s.v })

/-- read element `i` of another (borrowed) vector through `Index`/`Deref` -/
def readOf (X : Ctx) (src : VSt) (i : Nat) : VM Elem := do
  let (e, _) ← onVec src (do
    let l ← lift X (Gen.len X.env)
    if i < l then do
      let p ← lift X (Gen.as_ptr X.env)
      rd p i
    else throw .explicit)
  pure e

/-- `MiniVec::append`; returns the other vector -/
def append (X : Ctx) (other : VSt) : VM VSt := do
  let (empty, other) ← onVec other (lift X (Gen.is_empty X.env))
  if empty then pure other else do
  let ((n, es), other) ← onVec other (do
    let n ← lift X (Gen.len X.env)
    let p ← lift X (Gen.as_ptr X.env)
    let es ← rdRange p 0 n
    pure (n, es))
  reserve X n
  let p ← lift X (Gen.as_mut_ptr X.env)
  let l ← lift X (Gen.len X.env)
  inb p (l + n)
  forN n (fun i => wr p (l + i) (es.getD i default))
  let (_, other) ← onVec other (lift X (GM.setHdrLen 0))
  hdrLenAdd X n
  pure other

/-- `MiniVec::split_off`; returns the new vector -/
def split_off (X : Ctx) (at_ : Nat) : VM VSt := do
  let r ← lift X (Gen.split_off_pre X.env at_)
  match r with
  | .ret _ => throw .ub
  | .cont env =>
    let len := env.v_len
    let cap ← lift X (Gen.capacity X.env)
    if len = 0 then do
      let (_, o) ← onVec {} (if cap > 0 then lift X (Gen.with_capacity X.env cap) else lift X (Gen.new X.env))
      pure o
    else if at_ = 0 then do
      let me ← getV
      lift X GM.resetBuf
      reserve_exact X cap
      pure me
    else do
      let (_, o) ← onVec {} (lift X (Gen.with_capacity X.env cap))
      lift X (Gen.set_len X.env at_)
      let (_, o) ← onVec o (lift X (Gen.set_len X.env (len - at_)))
      let p ← lift X (Gen.as_ptr X.env)
      let es ← rdRange p at_ (len - at_)
      let (_, o) ← onVec o (do
        let q ← lift X (Gen.as_mut_ptr X.env)
        forN (len - at_) (fun i => wr q i (es.getD i default)))
      pure o

/-- `MiniVec::drain_vec` -/
def drain_vec (X : Ctx) : VM VSt := do
  let (_, fresh) ← onVec {} (lift X (Gen.new X.env))
  let me ← getV
  setV fresh
  pure me

/-- `Clone for MiniVec` (the focus is the source) -/
def clone (X : Ctx) : VM VSt := do
  let src ← getV
  let d ← lift X GM.isDefault
  if d then do
    let (_, o) ← onVec {} (lift X (Gen.new X.env))
    pure o
  else do
    let n ← lift X (Gen.len X.env)
    let (_, o) ← withLocal X {} (do
      lift X (Gen.new X.env)
      reserve X n
      forN n (fun i => do
        let e ← readOf X src i
        let e' ← cloneElem X e
        push X e'))
    pure o

/-- the default `Clone::clone_from`: `*self = source.clone()` — clone first, then the old value is dropped;
    an assignment stores the new value also when dropping the old one unwinds -/
def clone_from (X : Ctx) (src : VSt) : VM Unit := do
  let (c, _) ← onVec src (clone X)
  guarded (dropVec X) (setV c)

/-- the body of `MiniVec::resize`, while `value` is still owned by the call -/
def resizeBody (X : Ctx) (newLen : Nat) (value : Elem) : VM Unit := do
  let r ← lift X (Gen.resize_pre X.env newLen)
  match r with
  | .ret _ => pure ()
  | .cont env =>
    if env.v_new_len = env.v_len then pure ()
    else if env.v_new_len > env.v_len then do
      let n := env.v_new_len - env.v_len
      reserve X n
      forN n (fun _ => do
        let e ← cloneElem X value
        push X e)
    else truncate X env.v_new_len

/-- `MiniVec::resize` -/
def resize (X : Ctx) (newLen : Nat) (value : Elem) : VM Unit :=
  guarded (resizeBody X newLen value) (dropElem X value)

/-- `MiniVec::resize_with`; `g k` is the value produced by the k-th call of the generator -/
def resize_with (X : Ctx) (newLen : Nat) (g : Nat → Int) : VM Unit := do
  let r ← lift X (Gen.resize_with_pre X.env newLen)
  match r with
  | .ret _ => pure ()
  | .cont env =>
    if env.v_new_len = env.v_len then pure ()
    else if env.v_new_len > env.v_len then do
      let n := env.v_new_len - env.v_len
      reserve X n
      forN n (fun k => do
        callback X
        let e ← mkElem (g k)
        push X e)
    else truncate X env.v_new_len

/-- `MiniVec::extend_from_slice` (the slice elements stay with the caller) -/
def extend_from_slice (X : Ctx) (elems : List Elem) : VM Unit := do
  reserve X elems.length
  forN elems.length (fun i => do
    let e ← cloneElem X (elems.getD i default)
    push X e)

/-- a scripted iterator: the answers `next()` will give, in order; afterwards `None` -/
abbrev IterScript := List (Option Int)

/-- `for x in iter { body x }`: polls until the first `None`; returns the unconsumed script -/
def forIter (X : Ctx) (body : Elem → VM Unit) : Nat → IterScript → VM IterScript
  | 0, s => pure s
  | fuel + 1, s => do
    callback X
    match s with
    | [] => pure []
    | none :: rest => pure rest
    | some v :: rest => do
      let e ← mkElem v
      body e
      forIter X body fuel rest

/-- `Extend<T> for MiniVec` -/
def extend (X : Ctx) (it : IterScript) : VM Unit := do
  let _ ← forIter X (push X) (it.length + 1) it

/-- `FromIterator for MiniVec` -/
def collect (X : Ctx) (it : IterScript) : VM (VSt × IterScript) := do
  let (rest, o) ← withLocal X {} (do
    lift X (Gen.new X.env)
    forIter X (push X) (it.length + 1) it)
  pure (o, rest)

/-- `From<&[T]>` / `From<&mut [T]>` -/
def from_slice (X : Ctx) (elems : List Elem) : VM VSt := do
  let (_, o) ← withLocal X {} (do
    lift X (Gen.with_capacity X.env elems.length)
    forN elems.length (fun i => do
      let e ← cloneElem X (elems.getD i default)
      push X e))
  pure o

/-- `mini_vec![a, b, c]` -/
def macro_list (X : Ctx) (vals : List Int) : VM VSt := do
  let (_, o) ← withLocal X {} (do
    lift X (Gen.new X.env)
    forN vals.length (fun i => do
      let e ← mkElem (vals.getD i 0)
      push X e))
  pure o

/-- `mini_vec![elem; n]` (element expression evaluated once, then cloned `n` times) -/
def macro_repeat (X : Ctx) (val : Int) (n : Nat) : VM VSt := do
  let elem ← mkElem val
  guarded (do
    let (_, o) ← withLocal X {} (do
      lift X (Gen.with_capacity X.env n)
      forN n (fun i => do
        let e ← cloneElem X elem
        let d ← lift X (Gen.data X.env)
        wr d i e)
      if n > 0 then lift X (Gen.set_len X.env n) else pure ())
    pure o)
    (dropElem X elem)

/-- a scripted predicate: answer to the k-th call, given the element(s) it is shown -/
abbrev Pred1 := Nat → Elem → Bool
abbrev Pred2 := Nat → Elem → Elem → Bool

/-- `MiniVec::retain` -/
def retain (X : Ctx) (f : Pred1) : VM Unit := do
  let r ← lift X (Gen.retain_pre X.env)
  match r with
  | .ret _ => pure ()
  | .cont env =>
    let len := env.v_len
    let p := env.v_data
    let rec go (fuel read write k : Nat) : VM Nat :=
      match fuel with
      | 0 => pure write
      | fuel + 1 => do
        let e ← rd p read
        callback X
        if f k e then do
          if read ≠ write then sw p read write else pure ()
          go fuel (read + 1) (write + 1) (k + 1)
        else go fuel (read + 1) write (k + 1)
    let w ← if len = 0 then pure 0 else do
      inb p len
      go len 0 0 0
    truncate X w

/-- `MiniVec::dedup_by`; `same k cur prev` -/
def dedup_by (X : Ctx) (same : Nat → Elem → Elem → VM Bool) : VM Unit := do
  let r ← lift X (Gen.dedup_by_pre X.env)
  match r with
  | .ret _ => pure ()
  | .cont env =>
    let len := env.v_len
    let p := env.v_data
    inb p len
    let rec go (fuel read write k : Nat) : VM Nat :=
      match fuel with
      | 0 => pure write
      | fuel + 1 => do
        let a ← rd p read
        let b ← rd p (write - 1)
        let m ← same k a b
        if !m then do
          if read ≠ write then sw p read write else pure ()
          go fuel (read + 1) (write + 1) (k + 1)
        else go fuel (read + 1) write (k + 1)
    let w ← go (len - 1) 1 1 0
    truncate X w

/-- `PartialEq::eq` on two elements: one callback; scripted or by value -/
def eqElem (X : Ctx) (a b : Elem) : VM Bool := fun s =>
  let k := s.sys.eqIdx
  match callback X s with
  | (.ok _, s') => (.ok ((X.o.eqScript k).getD (a.val == b.val)),
                    { s' with sys := { s'.sys with eqIdx := k + 1 } })
  | (.error e, s') => (.error e, s')

def dedup (X : Ctx) : VM Unit := dedup_by X (fun _ a b => eqElem X a b)

/-- `dedup_by` with a scripted two-argument predicate (one callback per call) -/
def dedup_by_pred (X : Ctx) (f : Pred2) : VM Unit :=
  dedup_by X (fun k a b => do callback X; pure (f k a b))

/-- `dedup_by_key`: `key(a) == key(b)`, two key callbacks per comparison -/
def dedup_by_key (X : Ctx) (key : Nat → Elem → Int) : VM Unit :=
  dedup_by X (fun k a b => do
    callback X
    let ka := key (2 * k) a
    callback X
    let kb := key (2 * k + 1) b
    pure (ka == kb))

/-- `MiniVec::remove_item` (the probe stays with the caller) -/
def remove_item (X : Ctx) (probe : Elem) : VM (Option Elem) := do
  let r ← lift X (Gen.remove_item_pre X.env)
  match r with
  | .ret _ => pure none
  | .cont env =>
    let rec go (fuel i : Nat) : VM (Option Elem) :=
      match fuel with
      | 0 => pure none
      | fuel + 1 => do
        let me ← getV
        let e ← readOf X me i
        let eq ← eqElem X e probe
        if eq then do
          let x ← remove X i
          pure (some x)
        else go fuel (i + 1)
    go env.v_len 0

/-- the cloning loop of `extend_from_within` under its `PanicGuard { count }`, which publishes the clones
    that completed also when unwinding -/
def efwGo (X : Ctx) (len cap : Nat) (p : DPtr) : Nat → Nat → Nat → VM Nat
  | 0, _, count => fun s => (.ok count, s)
  | fuel + 1, i, count => fun s =>
    match (do
        let e ← rd p i
        let e' ← cloneElem X e
        if len + count < cap then wr p (len + count) e' else dropElem X e'
        pure () : VM Unit) s with
    | (.ok _, s1) => efwGo X len cap p fuel (i + 1) (if len + count < cap then count + 1 else count) s1
    | (.error q, s1) =>
      -- the guard's destructor runs with the count reached so far
      if unwinds q then
        (match lift X (Gen.set_len X.env (len + count)) s1 with
         | (.ok _, s2) => (.error q, s2)
         | (.error q2, s2) => (.error q2, s2))
      else (.error q, s1)

/-- `MiniVec::extend_from_within` -/
def extend_from_within (X : Ctx) (b1 b2 : Bound) : VM Unit := do
  let r ← lift X (Gen.extend_from_within_pre X.env b1 b2)
  match r with
  | .ret _ => pure ()
  | .cont env =>
    let start := env.v_start_idx
    let stop := env.v_end_idx
    let len := env.v_len
    let cap ← lift X (Gen.capacity X.env)
    let p ← lift X (Gen.as_mut_ptr X.env)
    let count ← efwGo X len cap p (stop - start) start 0
    lift X (Gen.set_len X.env (len + count))

def spare (X : Ctx) : VM Nat := do
  let r ← lift X (Gen.spare_capacity_mut_pre X.env)
  match r with
  | .ret _ => pure 0
  | .cont env => pure (env.v_capacity - env.v_len)

def split_spare (X : Ctx) : VM (Nat × Nat) := do
  let r ← lift X (Gen.split_at_spare_mut_pre X.env)
  match r with
  | .ret _ => pure (0, 0)
  | .cont env => pure (env.v_len, env.v_capacity - env.v_len)

/-- what `spare_capacity_mut()` (`viaSplit = false`) / the second half of `split_at_spare_mut()` cover: (first slot,
    number of slots); nothing for a vector without capacity -/
def spareRoom (X : Ctx) (viaSplit : Bool) : VM (Nat × Nat) :=
  if viaSplit then do
    let r ← lift X (Gen.split_at_spare_mut_pre X.env)
    match r with
    | .ret _ => pure (0, 0)
    | .cont env => pure (env.v_len, env.v_capacity - env.v_len)
  else do
    let r ← lift X (Gen.spare_capacity_mut_pre X.env)
    match r with
    | .ret _ => pure (0, 0)
    | .cont env => pure (env.v_len, env.v_capacity - env.v_len)

/-- write `xs` into the slots from `base` on and publish them -/
def fillTail (X : Ctx) (base : Nat) (xs : List Elem) : VM Nat := do
  let p ← lift X (Gen.as_mut_ptr X.env)
  forN xs.length (fun i => wr p (base + i) (xs.getD i default))
  lift X (Gen.set_len X.env (base + xs.length))
  pure xs.length

/-- the documented use of the spare capacity: write `k` new elements (at most what is spare) through the slice
    the API hands out, then `set_len`. Returns how many were written. -/
def fill_spare (X : Ctx) (viaSplit : Bool) (k : Nat) (val : Int) : VM Nat := do
  let room ← spareRoom X viaSplit
  let n := min k room.2
  if n = 0 then pure 0 else do
    let es ← ((List.range n).map (fun (i : Nat) => val + (i : Int))).mapM mkElem
    fillTail X room.1 es

/-- `[T]::eq`: lengths first, then element-wise until the first mismatch (one `eq` callback each) -/
def eqSlices (X : Ctx) : List Elem → List Elem → VM Bool
  | [], [] => pure true
  | a :: as, b :: bs => do
    let r ← eqElem X a b
    if r then eqSlices X as bs else pure false
  | _, _ => pure false

/-- lexicographic comparison of two slices: element-wise `cmp` (one callback each) up to the first
    difference, then the lengths -/
def cmpSlices (X : Ctx) : List Elem → List Elem → VM Ordering
  | [], [] => pure .eq
  | [], _ :: _ => pure .lt
  | _ :: _, [] => pure .gt
  | a :: as, b :: bs => do
    callback X
    if a.val < b.val then pure .lt else if a.val > b.val then pure .gt else cmpSlices X as bs

/-- `==`, `partial_cmp`, `cmp` and the two hashes of `compare`, in that order -/
def compareSlices (X : Ctx) (a b : List Elem) : VM (Bool × Ordering × Ordering × Bool) := do
  let eq ← if a.length = b.length then eqSlices X a b else pure false
  let pc ← cmpSlices X a b
  let c ← cmpSlices X a b
  forN a.length (fun _ => callback X)
  forN b.length (fun _ => callback X)
  pure (eq, pc, c, a.map (·.val) == b.map (·.val))

/-- the elements the vector exposes (through `Deref`) -/
def contents (X : Ctx) : VM (List Elem) := do
  let d ← lift X GM.isDefault
  if d then pure [] else do
    let l ← lift X GM.hdrLen
    let p ← lift X (Gen.data X.env)
    rdRange p 0 l

/-- `into_raw_parts` followed by `from_raw_parts` (or `as_mut_ptr`, `forget`, `from_raw_part`):
    `back` is the regenerated function up to `let buf = p.sub(aligned)`, run on the data pointer: it reads the
    alignment from the word in front of element 0 (`GM.readMirror`: that word holds the block's alignment
    because `grow` writes it before it installs a block — `GM.writeMirror`, `GM.setBuf` — and nothing else
    writes it) and computes the distance `aligned` it is about to walk back (the REGENERATED `next_aligned`).
    The rebuilt handle must denote the same block, i.e. that distance must be the true data offset.
    `none` for a vector without storage. -/
def raw_roundtrip (X : Ctx) (back : DPtr → GM Nat) : VM (Option (Nat × Nat)) := do
  let p ← lift X (Gen.as_mut_ptr X.env)
  match p with
  | .null => pure none
  | .at off => do
    let l ← lift X (Gen.len X.env)
    let c ← lift X (Gen.capacity X.env)
    let aligned ← lift X (back (.at off))
    if aligned = off then pure (some (l, c)) else ub "from_raw_part(s) walks back to a different address"

/-- the distance `from_raw_part` walks back from the data pointer (regenerated code) -/
def backPart (X : Ctx) (p : DPtr) : GM Nat := do
  let f ← Gen.from_raw_part_pre X.env p
  match f with
  | .cont env => pure env.v_aligned
  | .ret _ => GM.throw .ub

/-- the distance `from_raw_parts` walks back from the data pointer (regenerated code) -/
def backParts (X : Ctx) (l c : Nat) (p : DPtr) : GM Nat := do
  let f ← Gen.from_raw_parts_pre X.env p l c
  match f with
  | .cont env => pure env.v_aligned
  | .ret _ => GM.throw .ub

end Vec
end MV

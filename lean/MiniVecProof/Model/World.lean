import MiniVecProof.Model.Iter
import MiniVecProof.Model.Serde
/-
  Registers, operations and the step function (DESIGN.md §3.4). Executable; the driver is a thin
  parser/printer around `step`.
-/
namespace MV

inductive Obj
  | vec (v : VSt)
  | lent                                                 -- a vector borrowed by a live iterator
  | drain (src : String) (v : VSt) (d : DrainSt)
  | splice (src : String) (v : VSt) (s : SpliceSt)
  | drainFilter (src : String) (v : VSt) (f : DFSt)
  | intoIter (v : VSt) (it : IntoIterSt)
  | gone

structure World where
  regs : List (String × Obj) := []
  sys : Sys := {}

def World.get (w : World) (r : String) : Option Obj := (w.regs.find? (·.1 == r)).map (·.2)

def World.set (w : World) (r : String) (o : Obj) : World :=
  if w.regs.any (·.1 == r) then
    { w with regs := w.regs.map (fun p => if p.1 == r then (r, o) else p) }
  else { w with regs := w.regs ++ [(r, o)] }

def World.fresh (w : World) (r : String) : Bool := !(w.regs.any (·.1 == r))

inductive PredTok
  | mod (m : Nat) (r : Nat)
  | seq (answers : List Bool)
  deriving Repr, Inhabited

inductive KeyTok
  | kmod (m : Nat)
  | kseq (keys : List Int)
  deriving Repr, Inhabited

def imod (v : Int) (m : Nat) : Int := v % (m : Int)

def PredTok.pred1 : PredTok → Vec.Pred1
  | .mod m r => fun _ e => imod e.val m == (r : Int)
  | .seq a => fun k _ => a.getD k false

def PredTok.pred2 : PredTok → Vec.Pred2
  | .mod m _ => fun _ a b => imod a.val m == imod b.val m
  | .seq a => fun k _ _ => a.getD k false

def KeyTok.key : KeyTok → Nat → Elem → Int
  | .kmod m => fun _ e => imod e.val m
  | .kseq ks => fun k _ => ks.getD k 0

inductive Op
  | new (r : String) | default (r : String)
  | with_capacity (r : String) (n : Nat)
  | with_alignment (r : String) (n a : Nat)
  | from_slice (r : String) (vals : List Int)
  | collect (r : String) (it : Vec.IterScript)
  | macro_empty (r : String)
  | macro_list (r : String) (vals : List Int)
  | macro_repeat (r : String) (val : Int) (n : Nat)
  | push (r : String) (val : Int)
  | pop (r : String)
  | insert (r : String) (i : Nat) (val : Int)
  | remove (r : String) (i : Nat)
  | swap_remove (r : String) (i : Nat)
  | truncate (r : String) (n : Nat)
  | clear (r : String)
  | resize (r : String) (n : Nat) (val : Int)
  | resize_with (r : String) (n : Nat) (g : List Int)
  | extend (r : String) (it : Vec.IterScript)
  | extend_from_slice (r : String) (vals : List Int)
  | extend_from_within (r : String) (b1 b2 : Bound)
  | append (r r2 : String)
  | split_off (r : String) (at_ : Nat) (rnew : String)
  | drain_vec (r rnew : String)
  | dedup (r : String)
  | dedup_by (r : String) (p : PredTok)
  | dedup_by_key (r : String) (k : KeyTok)
  | retain (r : String) (p : PredTok)
  | remove_item (r : String) (val : Int)
  | reserve (r : String) (n : Nat)
  | reserve_exact (r : String) (n : Nat)
  | shrink_to (r : String) (n : Nat)
  | shrink_to_fit (r : String)
  | clone (r rnew : String)
  | compare (r r2 : String)
  | spare (r : String) | split_spare (r : String)
  | raw_parts (r : String) | raw_part (r : String)
  | leak (r : String)
  | drop (r : String)
  | forget (r : String)
  | drain (r : String) (b1 b2 : Bound) (it : String)
  | splice (r : String) (b1 b2 : Bound) (fill : Vec.IterScript) (it : String)
  | drain_filter (r : String) (p : PredTok) (it : String)
  | into_iter (r : String) (it : String)
  | next (it : String) | next_back (it : String)
  | nth (it : String) (k : Nat) | nth_back (it : String) (k : Nat) | count (it : String) | last (it : String)
  | views (r : String) | iter_views (it : String)
  | clone_from_iter (it src : String)
  | fill_spare (r : String) (viaSplit : Bool) (k : Nat) (val : Int)
  | size_hint (it : String) | len (it : String) | as_slice (it : String)
  | clone_iter (it itnew : String)
  | serialize (r : String)
  | clone_from (r rsrc : String)
  | from_str (n : Nat)
  | extend_ref (pre : Nat) (it : Vec.IterScript)
  | deserialize (rnew : String) (hint : Option Nat) (sc : List SeqItem)
  | deserialize_in_place (r : String) (hint : Option Nat) (sc : List SeqItem)
  deriving Repr, Inhabited

inductive Out
  | ok
  | none
  | some (e : Elem)
  | nums (ns : List Nat)
  | hint (lo : Nat) (hi : Option Nat)
  | elems (es : List Elem)
  | errName (s : String)
  | err
  | fromStr (n : Nat)
  | cmp (eq : Bool) (pc : Option Ordering) (c : Ordering) (heq : Bool)
  | stopped (p : Panic)
  | badOp
  deriving Repr, Inhabited

/-- run a computation focused on vector `v` -/
def runOn {α} (w : World) (v : VSt) (x : VM α) : Except Panic α × VSt × World :=
  let (r, s) := x { sys := w.sys, v := v }
  (r, s.v, { w with sys := s.sys })

def cmpVals : List Int → List Int → Ordering
  | [], [] => .eq
  | [], _ :: _ => .lt
  | _ :: _, [] => .gt
  | a :: as, b :: bs => if a < b then .lt else if a > b then .gt else cmpVals as bs

/-- the values a vector exposes (`none` for an unreadable slot) -/
def VSt.vals (v : VSt) : List Int := v.view.map (fun s => match s with | some e => e.val | none => 0)

section
variable (X : Ctx)

/-- a constructor-like operation producing a new vector register -/
def World.mkReg (w : World) (r : String) (x : VM VSt) : World × Out :=
  if !w.fresh r then (w, .badOp) else
  let (res, _, w') := runOn w {} x
  match res with
  | .ok v => (w'.set r (.vec v), .ok)
  | .error p => (w', .stopped p)

/-- an operation on a live vector register -/
def World.onVecReg (w : World) (r : String) (x : VM Out) : World × Out :=
  match w.get r with
  | some (.vec v) =>
    let (res, v', w') := runOn w v x
    match res with
    | .ok o => (w'.set r (.vec v'), o)
    | .error p => (w'.set r (.vec v'), .stopped p)
  | _ => (w, .badOp)

/-- `MiniVec::<u8>::from(&str)` of `n` bytes, checked and dropped inside the operation -/
def fromStrFill (Xb : Ctx) (n : Nat) : VM Unit := do
  let p ← VM.lift Xb (Gen.as_mut_ptr Xb.env)
  VM.forN n (fun i => VM.wr p (0 + i) ((List.replicate n (⟨0, 97⟩ : Elem)).getD i default))
  VM.lift Xb (Gen.set_len Xb.env n)

def fromStrProg (Xb : Ctx) (n : Nat) : VM Nat := do
  VM.lift Xb (Gen.with_capacity Xb.env n)
  (if n > 0 then fromStrFill Xb n else pure ())
  let l ← VM.lift Xb (Gen.len Xb.env)
  Vec.dropVec Xb
  pure l

/-- `Extend<&T>` for a Copy element type, checked and dropped inside the operation -/
def extendRefProg (Xb : Ctx) (pre : Nat) (vals : List Int) : VM Nat := do
  VM.lift Xb (Gen.with_capacity Xb.env pre)
  VM.forN pre (fun i => Vec.push Xb ⟨0, i⟩)
  VM.forN vals.length (fun i => Vec.push Xb ⟨0, vals.getD i 0⟩)
  let l ← VM.lift Xb (Gen.len Xb.env)
  Vec.dropVec Xb
  pure l

def optOut : Option Elem → Out
  | .none => .none
  | .some e => .some e

open Vec in
def step (w : World) : Op → World × Out
  | .new r | .default r | .macro_empty r =>
    w.mkReg r (do VM.lift X (Gen.new X.env); VM.getV)
  | .with_capacity r n => w.mkReg r (do VM.lift X (Gen.with_capacity X.env n); VM.getV)
  | .with_alignment r n a =>
    if !w.fresh r then (w, .badOp) else
    let (res, v, w') := runOn w {} (VM.lift X (Gen.with_alignment X.env n a))
    (match res with
     | .ok (.ok _) => (w'.set r (.vec v), .ok)
     | .ok (.error e) => (w', .errName (match e with
        | .AlignmentTooSmall => "AlignmentTooSmall"
        | .AlignmentNotDivisibleByTwo => "AlignmentNotDivisibleByTwo"))
     | .error p => (w', .stopped p))
  | .from_slice r vals =>
    w.mkReg r (do
      let es ← vals.mapM VM.mkElem
      from_slice X es)
  | .collect r it => w.mkReg r (do let (v, _) ← collect X it; pure v)
  | .macro_list r vals => w.mkReg r (macro_list X vals)
  | .macro_repeat r val n => w.mkReg r (macro_repeat X val n)
  | .push r val => w.onVecReg r (do let e ← VM.mkElem val; push X e; pure .ok)
  | .pop r => w.onVecReg r (do let o ← pop X; pure (optOut o))
  | .insert r i val => w.onVecReg r (do let e ← VM.mkElem val; insert X i e; pure .ok)
  | .remove r i => w.onVecReg r (do let e ← remove X i; pure (.some e))
  | .swap_remove r i => w.onVecReg r (do let e ← swap_remove X i; pure (.some e))
  | .truncate r n => w.onVecReg r (do truncate X n; pure .ok)
  | .clear r => w.onVecReg r (do clear X; pure .ok)
  | .resize r n val => w.onVecReg r (do let e ← VM.mkElem val; resize X n e; pure .ok)
  | .resize_with r n g => w.onVecReg r (do resize_with X n (fun k => g.getD k 0); pure .ok)
  | .extend r it => w.onVecReg r (do extend X it; pure .ok)
  | .extend_from_slice r vals => w.onVecReg r (do
      let es ← vals.mapM VM.mkElem
      extend_from_slice X es; pure .ok)
  | .extend_from_within r b1 b2 => w.onVecReg r (do extend_from_within X b1 b2; pure .ok)
  | .append r r2 =>
    if r == r2 then (w, .badOp) else
    (match w.get r, w.get r2 with
     | some (.vec v), some (.vec o) =>
       -- the other vector is updated through its own register even if the call unwinds
       let (res, s) := (do
          let o' ← append X o
          pure o') { sys := w.sys, v := v }
       let w' := { w with sys := s.sys }
       (match res with
        | .ok o' => ((w'.set r (.vec s.v)).set r2 (.vec o'), .ok)
        | .error p => (w'.set r (.vec s.v), .stopped p))
     | _, _ => (w, .badOp))
  | .split_off r at_ rnew =>
    if !w.fresh rnew then (w, .badOp) else
    (match w.get r with
     | some (.vec v) =>
       let (res, v', w') := runOn w v (split_off X at_)
       (match res with
        | .ok o => ((w'.set r (.vec v')).set rnew (.vec o), .ok)
        | .error p => (w'.set r (.vec v'), .stopped p))
     | _ => (w, .badOp))
  | .drain_vec r rnew =>
    if !w.fresh rnew then (w, .badOp) else
    (match w.get r with
     | some (.vec v) =>
       let (res, v', w') := runOn w v (drain_vec X)
       (match res with
        | .ok o => ((w'.set r (.vec v')).set rnew (.vec o), .ok)
        | .error p => (w'.set r (.vec v'), .stopped p))
     | _ => (w, .badOp))
  | .dedup r => w.onVecReg r (do dedup X; pure .ok)
  | .dedup_by r p => w.onVecReg r (do dedup_by_pred X p.pred2; pure .ok)
  | .dedup_by_key r k => w.onVecReg r (do dedup_by_key X k.key; pure .ok)
  | .retain r p => w.onVecReg r (do retain X p.pred1; pure .ok)
  | .remove_item r val => w.onVecReg r (do
      let probe ← VM.mkElem val
      let o ← remove_item X probe
      pure (optOut o))
  | .reserve r n => w.onVecReg r (do reserve X n; pure .ok)
  | .reserve_exact r n => w.onVecReg r (do reserve_exact X n; pure .ok)
  | .shrink_to r n => w.onVecReg r (do shrink_to X n; pure .ok)
  | .shrink_to_fit r => w.onVecReg r (do shrink_to_fit X; pure .ok)
  | .clone r rnew =>
    if !w.fresh rnew then (w, .badOp) else
    (match w.get r with
     | some (.vec v) =>
       let (res, v', w') := runOn w v (clone X)
       (match res with
        | .ok o => ((w'.set r (.vec v')).set rnew (.vec o), .ok)
        | .error p => (w'.set r (.vec v'), .stopped p))
     | _ => (w, .badOp))
  | .compare r r2 =>
    (match w.get r, w.get r2 with
     | some (.vec a), some (.vec b) =>
       let (res, _, w') := runOn w a (do
         let ea ← contents X
         let (eb, _) ← VM.onVec b (contents X)
         compareSlices X ea eb)
       (match res with
        | .ok (eq, pc, c, heq) => (w', .cmp eq (some pc) c heq)
        | .error p => (w', .stopped p))
     | _, _ => (w, .badOp))
  | .spare r => w.onVecReg r (do let n ← spare X; pure (.nums [n]))
  | .split_spare r => w.onVecReg r (do let (a, b) ← split_spare X; pure (.nums [a, b]))
  | .raw_parts r => w.onVecReg r (do
      let l ← VM.lift X (Gen.len X.env)
      let c ← VM.lift X (Gen.capacity X.env)
      let o ← raw_roundtrip X (backParts X l c)
      match o with
      | none => pure .none
      | some (l, c) => pure (.nums [l, c]))
  | .raw_part r => w.onVecReg r (do
      let o ← raw_roundtrip X (backPart X)
      match o with
      | none => pure .none
      | some _ => pure .ok)
  | .leak r =>
    (match w.get r with
     | some (.vec v) =>
       let (res, _, w') := runOn w v (contents X)
       (match res with
        | .ok es => (w'.set r .gone, .elems es)
        | .error p => (w'.set r .gone, .stopped p))
     | _ => (w, .badOp))
  | .forget r =>
    (match w.get r with
     | some (.vec _) => (w.set r .gone, .ok)
     | some (.drain src v _) => ((w.set r .gone).set src (.vec v), .ok)
     | some (.splice src v _) => ((w.set r .gone).set src (.vec v), .ok)
     | some (.drainFilter src v _) => ((w.set r .gone).set src (.vec v), .ok)
     | some (.intoIter _ _) => (w.set r .gone, .ok)
     | _ => (w, .badOp))
  | .drop r =>
    (match w.get r with
     | some (.vec v) =>
       let (res, _, w') := runOn w v (dropVec X)
       (w'.set r .gone, match res with | .ok _ => .ok | .error p => .stopped p)
     | some (.drain src v d) =>
       let (res, v', w') := runOn w v (Drain.drop X d)
       ((w'.set r .gone).set src (.vec v'), match res with | .ok _ => .ok | .error p => .stopped p)
     | some (.splice src v s) =>
       let (res, v', w') := runOn w v (Splice.drop X s)
       ((w'.set r .gone).set src (.vec v'), match res with | .ok _ => .ok | .error p => .stopped p)
     | some (.drainFilter src v f) =>
       let (res, v', w') := runOn w v (DrainFilter.drop X f)
       ((w'.set r .gone).set src (.vec v'), match res with | .ok _ => .ok | .error p => .stopped p)
     | some (.intoIter v it) =>
       let (res, _, w') := runOn w v (IntoIter.drop X it)
       (w'.set r .gone, match res with | .ok _ => .ok | .error p => .stopped p)
     | _ => (w, .badOp))
  | .drain r b1 b2 it =>
    if !w.fresh it then (w, .badOp) else
    (match w.get r with
     | some (.vec v) =>
       let (res, v', w') := runOn w v (Drain.create X b1 b2)
       (match res with
        | .ok d => ((w'.set r .lent).set it (.drain r v' d), .ok)
        | .error p => (w'.set r (.vec v'), .stopped p))
     | _ => (w, .badOp))
  | .splice r b1 b2 fill it =>
    if !w.fresh it then (w, .badOp) else
    (match w.get r with
     | some (.vec v) =>
       let (res, v', w') := runOn w v (Splice.create X b1 b2 fill)
       (match res with
        | .ok s => ((w'.set r .lent).set it (.splice r v' s), .ok)
        | .error p => (w'.set r (.vec v'), .stopped p))
     | _ => (w, .badOp))
  | .drain_filter r p it =>
    if !w.fresh it then (w, .badOp) else
    (match w.get r with
     | some (.vec v) =>
       let (res, v', w') := runOn w v (DrainFilter.create X p.pred1)
       (match res with
        | .ok f => ((w'.set r .lent).set it (.drainFilter r v' f), .ok)
        | .error p => (w'.set r (.vec v'), .stopped p))
     | _ => (w, .badOp))
  | .into_iter r it =>
    if !w.fresh it then (w, .badOp) else
    (match w.get r with
     | some (.vec v) =>
       let (res, v', w') := runOn w v (IntoIter.create X)
       (match res with
        | .ok i => ((w'.set r .gone).set it (.intoIter v' i), .ok)
        | .error p => (w'.set r .gone, .stopped p))
     | _ => (w, .badOp))
  | .next it =>
    (match w.get it with
     | some (.drain src v d) =>
       let (res, v', w') := runOn w v (Drain.next d)
       (match res with
        | .ok (o, d') => (w'.set it (.drain src v' d'), optOut o)
        | .error p => (w'.set it (.drain src v' d), .stopped p))
     | some (.splice src v s) =>
       let (res, v', w') := runOn w v (Drain.next s.d)
       (match res with
        | .ok (o, d') => (w'.set it (.splice src v' { s with d := d' }), optOut o)
        | .error p => (w'.set it (.splice src v' s), .stopped p))
     | some (.drainFilter src v f) =>
       let (res, v', w') := runOn w v (DrainFilter.next X (f.oldLen - f.pos + 1) f)
       (match res with
        | .ok (.item e, f') => (w'.set it (.drainFilter src v' f'), .some e)
        | .ok (.done, f') => (w'.set it (.drainFilter src v' f'), .none)
        | .ok (.predPanicked, f') => (w'.set it (.drainFilter src v' f'), .stopped .explicit)
        | .error p => (w'.set it (.drainFilter src v' f), .stopped p))
     | some (.intoIter v i) =>
       let (res, v', w') := runOn w v (IntoIter.next X i)
       (match res with
        | .ok (o, i') => (w'.set it (.intoIter v' i'), optOut o)
        | .error p => (w'.set it (.intoIter v' i), .stopped p))
     | _ => (w, .badOp))
  | .next_back it =>
    (match w.get it with
     | some (.drain src v d) =>
       let (res, v', w') := runOn w v (Drain.next_back d)
       (match res with
        | .ok (o, d') => (w'.set it (.drain src v' d'), optOut o)
        | .error p => (w'.set it (.drain src v' d), .stopped p))
     | some (.splice src v s) =>
       let (res, v', w') := runOn w v (Drain.next_back s.d)
       (match res with
        | .ok (o, d') => (w'.set it (.splice src v' { s with d := d' }), optOut o)
        | .error p => (w'.set it (.splice src v' s), .stopped p))
     | some (.intoIter v i) =>
       let (res, v', w') := runOn w v (IntoIter.next_back X i)
       (match res with
        | .ok (o, i') => (w'.set it (.intoIter v' i'), optOut o)
        | .error p => (w'.set it (.intoIter v' i), .stopped p))
     | _ => (w, .badOp))
  | .size_hint it =>
    (match w.get it with
     | some (.drain _ _ d) => (w, .hint (Drain.size_hint d) (some (Drain.size_hint d)))
     | some (.splice _ _ s) => (w, .hint (Drain.size_hint s.d) (some (Drain.size_hint s.d)))
     | some (.drainFilter _ _ f) => (w, .hint 0 (some (f.oldLen - f.pos)))
     | some (.intoIter v _) => (w, .hint (if v.isDefault then 0 else v.len) (some (if v.isDefault then 0 else v.len)))
     | _ => (w, .badOp))
  | .len it =>
    (match w.get it with
     | some (.drain _ _ d) => (w, .nums [Drain.size_hint d])
     | some (.splice _ _ s) => (w, .nums [Drain.size_hint s.d])
     | some (.intoIter v _) => (w, .nums [if v.isDefault then 0 else v.len])
     | _ => (w, .badOp))
  | .as_slice it =>
    (match w.get it with
     | some (.intoIter v i) =>
       let (res, _, w') := runOn w v (IntoIter.as_slice X i)
       (match res with
        | .ok es => (w', .elems es)
        | .error p => (w', .stopped p))
     | _ => (w, .badOp))
  | .clone_from r rsrc =>
    if r == rsrc then (w, .badOp) else
    (match w.get r, w.get rsrc with
     | some (.vec v), some (.vec src) =>
       let (res, s) := clone_from X src { sys := w.sys, v := v }
       let w' := { w with sys := s.sys }
       (match res with
        | .ok _ => (w'.set r (.vec s.v), .ok)
        | .error p => (w'.set r (.vec s.v), .stopped p))
     | _, _ => (w, .badOp))
  | .from_str n =>
    if n > 1048576 then (w, .badOp) else
    -- `MiniVec::<u8>::from(&str)`: with_capacity(len); nothing else for the empty string; otherwise the
    -- bytes are copied and the length set; the temporary is dropped inside the operation
    let Xb : Ctx := { X with c := ⟨1, 1, false⟩ }
    let (res, _, w') := runOn w {} (fromStrProg Xb n)
    (match res with
     | .ok l => (w', .fromStr l)
     | .error p => (w', .stopped p))
  | .extend_ref pre it =>
    if pre > 4096 || it.length > 4096 then (w, .badOp) else
    -- `Extend<&'a T>` for a Copy element type (u32): with_capacity(pre), `pre` pushes, then one push per item the
    -- iterator yields before its first `None` (its size_hint is never consulted); checked and dropped inside
    let Xb : Ctx := { X with c := ⟨4, 4, false⟩ }
    let vals : List Int := (it.takeWhile Option.isSome).filterMap id
    let (res, _, w') := runOn w {} (extendRefProg Xb pre vals)
    (match res with
     | .ok l => (w', .fromStr l)
     | .error p => (w', .stopped p))
  | .serialize r => w.onVecReg r (do let es ← contents X; pure (.elems es))
  | .deserialize rnew hint sc =>
    if !w.fresh rnew then (w, .badOp) else
    let (res, _, w') := runOn w {} (Serde.deserialize X hint sc)
    (match res with
     | .ok (some v) => (w'.set rnew (.vec v), .ok)
     | .ok none => (w', .err)
     | .error p => (w', .stopped p))
  | .deserialize_in_place r hint sc =>
    w.onVecReg r (do let ok ← Serde.deserialize_in_place X hint sc; pure (if ok then .ok else .err))
  | .clone_iter it itnew =>
    if !w.fresh itnew then (w, .badOp) else
    (match w.get it with
     | some (.intoIter v i) =>
       let (res, v', w') := runOn w v (IntoIter.clone X i)
       (match res with
        | .ok (o, i') => ((w'.set it (.intoIter v' i)).set itnew (.intoIter o i'), .ok)
        | .error p => (w'.set it (.intoIter v' i), .stopped p))
     | _ => (w, .badOp))
  | .nth .. | .nth_back .. | .count .. | .last .. | .clone_from_iter .. => (w, .badOp)   -- handled by `stepAll`
  -- every borrowed view of the vector (`Deref`, `AsRef`, `Borrow`, `Index`, `as_slice`, `&v` / `&mut v` iteration, `Cow`)
  -- is the slice `[as_ptr(), len())`: the harness compares them; the model has nothing to do
  | .views r => w.onVecReg r (pure .ok)
  | .fill_spare r viaSplit k val =>
    if k > 4096 then (w, .badOp) else
    w.onVecReg r (do let n ← fill_spare X viaSplit k val; pure (.nums [n]))
  | .iter_views it =>
    (match w.get it with
     | some (.intoIter ..) => (w, .ok)
     | _ => (w, .badOp))

/-- destroy a value inside the operation (a callback) -/
def dropIn (w : World) (e : Elem) : World × Option Panic :=
  let (res, _, w') := runOn w {} (VM.dropElem X e)
  (w', match res with | .ok _ => none | .error p => some p)

/-- the provided `Iterator::nth` / `DoubleEndedIterator::nth_back`: `k` steps whose results are destroyed at once
    (stopping at the first `None`), then one more step whose result is returned -/
def nthLoop (nx : Op) : Nat → World → World × Out
  | 0, w => step X w nx
  | k + 1, w =>
    match step X w nx with
    | (w', .some e) =>
      (match dropIn X w' e with
       | (w'', none) => nthLoop nx k w''
       | (w'', some p) => (w'', .stopped p))
    | r => r

/-- the provided `Iterator::count` (`fold`): the iterator is consumed; every element it yields is destroyed at once,
    then the iterator itself is dropped — also when a step or a destructor unwinds (a second panic is the abort) -/
def countLoop (it : String) : Nat → Nat → World → World × Out
  | 0, _, w => (w, .stopped .fuel)
  | fuel + 1, acc, w =>
    let unwind (w1 : World) (p : Panic) : World × Out :=
      if VM.unwinds p then
        (match step X w1 (.drop it) with
         | (w2, .stopped q) => (w2, .stopped (if VM.unwinds q then .doublePanic else q))
         | (w2, _) => (w2, .stopped p))
      else (w1, .stopped p)
    match step X w (.next it) with
    | (w', .some e) =>
      (match dropIn X w' e with
       | (w'', none) => countLoop it fuel (acc + 1) w''
       | (w'', some p) => unwind w'' p)
    | (w', .none) =>
      (match step X w' (.drop it) with
       | (w2, .ok) => (w2, .nums [acc])
       | r => r)
    | (w', .stopped p) => unwind w' p
    | r => r

/-- the provided `Iterator::last` (`fold(None, |_, x| Some(x))`): the iterator is consumed; each element it yields
    replaces the accumulator, whose previous value is destroyed at that moment; the last one is handed to the caller
    after the iterator itself has been dropped. When a step (`next()`) unwinds, the accumulator is destroyed, then the
    iterator is dropped (a second panic is the abort); when the destructor of a replaced accumulator unwinds, the new
    accumulator — already a return value — is leaked, and the iterator is dropped. -/
def lastLoop (it : String) : Nat → Option Elem → World → World × Out
  | 0, _, w => (w, .stopped .fuel)
  | fuel + 1, prev, w =>
    let unwind (w1 : World) (acc : Option Elem) (p : Panic) : World × Out :=
      if VM.unwinds p then
        (match (match acc with | none => (w1, none) | some a => dropIn X w1 a) with
         | (w2, some _) => (w2, .stopped .doublePanic)
         | (w2, none) =>
           (match step X w2 (.drop it) with
            | (w3, .stopped q) => (w3, .stopped (if VM.unwinds q then .doublePanic else q))
            | (w3, _) => (w3, .stopped p)))
      else (w1, .stopped p)
    match step X w (.next it) with
    | (w', .some e) =>
      (match prev with
       | none => lastLoop it fuel (some e) w'
       | some pv =>
         (match dropIn X w' pv with
          | (w'', none) => lastLoop it fuel (some e) w''
          | (w'', some p) => unwind w'' none p))   -- (the new accumulator is leaked: return values are not dropped on unwind)
    | (w', .none) =>
      (match step X w' (.drop it) with
       | (w2, .ok) => (w2, optOut prev)
       | r => r)   -- (if the iterator's own drop unwinds, the value about to be returned is leaked)
    | (w', .stopped p) => unwind w' prev p
    | r => r

/-- a register name no case can use -/
def tmpReg : String := "\u0001tmp"

def World.unset (w : World) (r : String) : World := { w with regs := w.regs.filter (fun p => p.1 != r) }

/-- the provided `Clone::clone_from` on an `IntoIter`: `*self = source.clone()` — the clone is made first (if that
    unwinds, `self` is untouched), then the old value is dropped and the new one stored (also when that drop unwinds) -/
def cloneFromIter (w : World) (it src : String) : World × Out :=
  if it == src then (w, .badOp) else
  match w.get it, w.get src with
  | some (.intoIter ..), some (.intoIter ..) =>
    (match step X w (.clone_iter src tmpReg) with
     | (w1, .ok) =>
       let (w2, o2) := step X w1 (.drop it)
       let w3 := (match w2.get tmpReg with
         | some o => w2.set it o
         | none => w2)
       (w3.unset tmpReg, o2)
     | (w1, o) => (w1.unset tmpReg, o))
  | _, _ => (w, .badOp)

/-- `step` plus the provided iterator methods, which are defined from `next` / `next_back` / `drop` -/
def stepAll (w : World) : Op → World × Out
  | .nth it k => if k > 64 then (w, .badOp) else nthLoop X (.next it) k w
  | .nth_back it k =>
    if k > 64 then (w, .badOp) else
    (match w.get it with
     | some (.drainFilter ..) => (w, .badOp)
     | _ => nthLoop X (.next_back it) k w)
  | .count it =>
    (match step X w (.size_hint it) with
     | (_, .hint _ (some hi)) => countLoop X it (hi + 2) 0 w
     | _ => (w, .badOp))
  | .last it =>
    (match step X w (.size_hint it) with
     | (_, .hint _ (some hi)) => lastLoop X it (hi + 2) none w
     | _ => (w, .badOp))
  | .clone_from_iter it src => cloneFromIter X w it src
  | op => step X w op

end
end MV

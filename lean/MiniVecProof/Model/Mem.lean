import MiniVecProof.Model.GM
/-
  Abstract memory for the hand-written part of the model (DESIGN.md §3.3).

  A vector handle denotes a `VSt`: the four things the code can read (`is_default`, and the three
  header words) plus, when allocated, the block: its identity, the layout the allocator was told
  (ghost truth, compared against what the code quotes on realloc/dealloc), and the physical element
  slots starting at the block's TRUE data offset. Element accesses are made through the data pointer
  the code computes (`Gen.data`); if that differs from the true offset, or an index leaves the
  physical slots, or an unwritten slot is read as a value, the step stops with `Panic.ub`.
-/
namespace MV

structure Elem where
  id : Nat
  val : Int
  deriving DecidableEq, Repr, Inhabited

abbrev Slot := Option Elem

structure Blk where
  bid : Nat
  lay : Layout
  slots : List Slot
  deriving Repr, Inhabited

inductive Ev
  | alloc (size align : Nat)
  | realloc (oldSize oldAlign newSize : Nat)
  | dealloc (size align : Nat)
  | allocFail
  | clone (src new : Nat)
  | drop (id : Nat)
  | ub (what : String)
  deriving DecidableEq, Repr, Inhabited

/-- The byte offset of element 0 in a block allocated with alignment `a`. -/
def dataOff (a : Nat) : Nat := alignUp hdrSize a

/-- How many whole elements fit in a block of layout `l` behind the data offset. -/
def physSlots (c : Cfg) (l : Layout) : Nat := (l.size - dataOff l.align) / c.elemSize

structure VSt where
  isDefault : Bool := true
  len : Nat := 0
  cap : Nat := 0
  align : Nat := 0
  blk : Option Blk := none
  deriving Repr, Inhabited

/-- Process-wide counters and the event trace (newest event last). -/
structure Sys where
  tr : List Ev := []
  nextBid : Nat := 0
  nextId : Nat := 1
  allocIdx : Nat := 0
  cbIdx : Nat := 0
  eqIdx : Nat := 0
  deriving Repr, Inhabited

structure St where
  sys : Sys
  v : VSt
  deriving Repr, Inhabited

/-- Oracles the whole run is parameterised by. -/
structure Orc where
  /-- the k-th allocator request (0-based) fails -/
  failAt : Nat → Bool := fun _ => false
  /-- the k-th callback invocation (0-based) panics -/
  panicAt : Nat → Bool := fun _ => false
  /-- scripted answers of `PartialEq::eq`, by number of the eq call; `none` = compare values -/
  eqScript : Nat → Option Bool := fun _ => none

structure Ctx where
  c : Cfg
  m : Mode
  o : Orc := {}

def Ctx.env (X : Ctx) : Env := { c := X.c, m := X.m, fail := X.o.failAt }

def VM (α : Type) : Type := St → Except Panic α × St

namespace VM
@[inline] def pure' {α} (a : α) : VM α := fun s => (.ok a, s)
@[inline] def bind' {α β} (x : VM α) (f : α → VM β) : VM β := fun s =>
  match x s with
  | (.ok a, s') => f a s'
  | (.error e, s') => (.error e, s')
instance : Monad VM where
  pure := pure'
  bind := bind'

def throw {α} (p : Panic) : VM α := fun s => (.error p, s)
def get : VM St := fun s => (.ok s, s)
def getV : VM VSt := fun s => (.ok s.v, s)
def setV (v : VSt) : VM Unit := fun s => (.ok (), { s with v := v })
def modifyV (f : VSt → VSt) : VM Unit := fun s => (.ok (), { s with v := f s.v })
def emit (e : Ev) : VM Unit := fun s => (.ok (), { s with sys := { s.sys with tr := s.sys.tr ++ [e] } })

/-- An access the code has no right to make: record it and stop. -/
def ub {α} (what : String) : VM α := fun s =>
  (.error .ub, { s with sys := { s.sys with tr := s.sys.tr ++ [.ub what] } })

/-- Does this stop unwind (so that drop guards and destructors of locals run)? -/
def unwinds : Panic → Bool
  | .overflow | .divZero | .explicit => true
  | _ => false

/-- Run `body`; then run `cleanup` whether `body` returned or unwound (not after an abort, an
    illegal access or a hang). A panic inside `cleanup` while unwinding aborts the process. -/
def guarded {α} (body : VM α) (cleanup : VM Unit) : VM α := fun s =>
  match body s with
  | (.ok a, s1) =>
    (match cleanup s1 with
     | (.ok _, s2) => (.ok a, s2)
     | (.error e, s2) => (.error e, s2))
  | (.error p, s1) =>
    if unwinds p then
      (match cleanup s1 with
       | (.ok _, s2) => (.error p, s2)
       | (.error q, s2) => (.error (if unwinds q then .doublePanic else q), s2))
    else (.error p, s1)

/-- Run `x` on another vector (the focus is swapped for the duration). -/
def onVec {α} (o : VSt) (x : VM α) : VM (α × VSt) := fun s =>
  match x { s with v := o } with
  | (.ok a, s') => (.ok (a, s'.v), { s' with v := s.v })
  | (.error e, s') => (.error e, { s' with v := s.v })

/-- fresh element identity -/
def freshId : VM Nat := fun s =>
  (.ok s.sys.nextId, { s with sys := { s.sys with nextId := s.sys.nextId + 1 } })

def mkElem (val : Int) : VM Elem := do
  let i ← freshId
  pure ⟨i, val⟩

/-- One invocation of user code: panics if the oracle says so. -/
def callback (X : Ctx) : VM Unit := fun s =>
  let k := s.sys.cbIdx
  let s' := { s with sys := { s.sys with cbIdx := k + 1 } }
  if X.o.panicAt k then (.error .explicit, s') else (.ok (), s')

end VM

/-! ### Replaying the actions of a generated decision program on the block -/

def resizeSlots (xs : List Slot) (n : Nat) : List Slot :=
  xs.take n ++ List.replicate (n - xs.length) none

structure Replay where
  sys : Sys
  blk : Option Blk          -- the block the handle points to
  fresh : Option Blk        -- obtained from the allocator, not yet installed
  bad : Bool := false

def replay1 (c : Cfg) (r : Replay) : Action → Replay
  | .alloc size align =>
    let b : Blk := { bid := r.sys.nextBid, lay := ⟨size, align⟩,
                     slots := List.replicate (physSlots c ⟨size, align⟩) none }
    { r with sys := { r.sys with tr := r.sys.tr ++ [.alloc size align], nextBid := r.sys.nextBid + 1,
                                  allocIdx := r.sys.allocIdx + 1 },
             fresh := some b }
  | .allocFail size align =>
    { r with sys := { r.sys with tr := r.sys.tr ++ [.alloc size align, .allocFail], allocIdx := r.sys.allocIdx + 1 } }
  | .realloc os oa ns =>
    match r.blk with
    | none => { r with bad := true, sys := { r.sys with tr := r.sys.tr ++ [.ub "realloc without a block"] } }
    | some b =>
      let sys1 := { r.sys with tr := r.sys.tr ++ [.realloc os oa ns], nextBid := r.sys.nextBid + 1,
                               allocIdx := r.sys.allocIdx + 1 }
      if b.lay.size = os ∧ b.lay.align = oa then
        let nb : Blk := { bid := r.sys.nextBid, lay := ⟨ns, oa⟩,
                          slots := resizeSlots b.slots (physSlots c ⟨ns, oa⟩) }
        { r with sys := sys1, blk := none, fresh := some nb }
      else
        { r with sys := { sys1 with tr := sys1.tr ++ [.ub "realloc quotes a layout the block was not allocated with"] },
                 bad := true }
  | .reallocFail os oa ns =>
    { r with sys := { r.sys with tr := r.sys.tr ++ [.realloc os oa ns, .allocFail], allocIdx := r.sys.allocIdx + 1 } }
  | .install _ =>
    match r.fresh with
    | some b => { r with blk := some b, fresh := none }
    | none => { r with bad := true }
  | .setLen _ => r
  | .reset => { r with blk := none }

def replay (c : Cfg) (r : Replay) (acts : List Action) : Replay := acts.foldl (replay1 c) r

namespace VM

/-- Run a generated decision program against the focused vector: its header view comes from the
    `VSt`, its allocator/header actions are replayed on the block. -/
def lift {α} (X : Ctx) (g : GM α) : VM α := fun s =>
  let gs : GS := { isDefault := s.v.isDefault, len := s.v.len, cap := s.v.cap, align := s.v.align,
                   allocIdx := s.sys.allocIdx }
  let (res, gs') := g gs
  let r := replay X.c { sys := s.sys, blk := s.v.blk, fresh := none } gs'.acts
  let v' : VSt := { isDefault := gs'.isDefault, len := gs'.len, cap := gs'.cap, align := gs'.align,
                    blk := r.blk }
  let s' : St := { sys := r.sys, v := v' }
  if r.bad then (.error .ub, s') else (res, s')

/-! ### Element access through the data pointer the code computed -/

/-- The block, provided `p` is the true data pointer of the focused vector. -/
def blockAt (p : DPtr) : VM Blk := do
  let v ← getV
  match p, v.blk with
  | .at off, some b =>
    if off = dataOff b.lay.align then pure b else ub "data pointer computed with the wrong alignment"
  | .null, _ => ub "null data pointer dereferenced"
  | _, none => ub "element access without a block"

def putBlock (b : Blk) : VM Unit := modifyV fun v => { v with blk := some b }

/-- `ptr::read(p.add(i))` -/
def rd (p : DPtr) (i : Nat) : VM Elem := do
  let b ← blockAt p
  match b.slots[i]? with
  | some (some e) => pure e
  | some none => ub "read of a slot that was never written"
  | none => ub "read outside the block"

/-- `ptr::write(p.add(i), e)` -/
def wr (p : DPtr) (i : Nat) (e : Elem) : VM Unit := do
  let b ← blockAt p
  if i < b.slots.length then putBlock { b with slots := b.slots.set i (some e) }
  else ub "write outside the block"

/-- the slots `[src, src+n)` placed at `dst` (memmove semantics) -/
def copySlots (xs : List Slot) (src dst n : Nat) : List Slot :=
  xs.take dst ++ (xs.drop src).take n ++ xs.drop (dst + n)

/-- `ptr::copy(p.add(src), p.add(dst), n)` -/
def cp (p : DPtr) (src dst n : Nat) : VM Unit := do
  let b ← blockAt p
  if src + n ≤ b.slots.length ∧ dst + n ≤ b.slots.length then
    putBlock { b with slots := copySlots b.slots src dst n }
  else ub "copy outside the block"

/-- `mem::swap(&mut *p.add(i), &mut *p.add(j))` -/
def sw (p : DPtr) (i j : Nat) : VM Unit := do
  let b ← blockAt p
  match b.slots[i]?, b.slots[j]? with
  | some x, some y => putBlock { b with slots := (b.slots.set i y).set j x }
  | _, _ => ub "swap outside the block"

/-- `p.add(i)` must stay inside the block or one past its end -/
def inb (p : DPtr) (i : Nat) : VM Unit := do
  let b ← blockAt p
  if i ≤ b.slots.length then pure () else ub "pointer arithmetic leaves the block"

/-- the destructor of one element (a callback when the class has one) -/
def dropElem (X : Ctx) (e : Elem) : VM Unit :=
  if X.c.needsDrop then do
    emit (.drop e.id)
    callback X
  else pure ()

/-- `drop_in_place` of a list of values: every destructor runs even if one panics (a second panic
    aborts); the first panic is then re-raised. -/
def dropAll (X : Ctx) : List Elem → VM Unit
  | [] => pure ()
  | e :: es => guarded (dropElem X e) (dropAll X es)

/-- `Clone::clone` of one element -/
def cloneElem (X : Ctx) (e : Elem) : VM Elem := do
  callback X
  let i ← freshId
  emit (.clone e.id i)
  pure ⟨i, e.val⟩

/-- the elements in slots `[i, i+n)`; stops if one of them was never written -/
def rdRange (p : DPtr) (i n : Nat) : VM (List Elem) :=
  match n with
  | 0 => pure []
  | n + 1 => do
    let e ← rd p i
    let es ← rdRange p (i + 1) n
    pure (e :: es)

end VM

/-- What the vector exposes: the elements in slots `[0, len)`; `none` if a slot there is not
    initialised (an ill-formed state). -/
def VSt.view (v : VSt) : List Slot :=
  match v.blk with
  | none => []
  | some b => b.slots.take v.len

end MV

import MiniVecProof.Model.GM
namespace MV.Gen
open MV MV.GM

def next_aligned (E : Env) (n : Nat) (alignment : Nat) : Except Panic Nat := do
  let t1 ← urem n alignment
  let remaining := t1
  if remaining == 0 then
    pure n
  else do
    let t2 ← usub E.m alignment remaining
    let t3 ← uadd E.m n t2
    pure t3

def next_capacity (E : Env) (capacity : Nat) : Except Panic Nat := do
  let elem_size := E.c.elemSize
  if capacity == 0 then
    (if elem_size == 1 then pure 8
     else if 2 ≤ elem_size && elem_size ≤ 1024 then pure 4
     else pure 1)
  else do
    let t1 ← umul E.m 2 capacity
    pure t1

def max_align (E : Env) : Except Panic Nat := do
  let align_t := E.c.elemAlign
  let header_align := hdrAlign
  pure (max align_t header_align)

def make_layout (E : Env) (capacity : Nat) (alignment : Nat) : Except Panic Layout := do
  let header_size := hdrSize
  let num_bytes ← (if capacity == 0 then do
      let t1 ← next_aligned E header_size alignment
      pure t1
    else do
      let t1 ← next_aligned E header_size alignment
      let t2 ← umul E.m capacity E.c.elemSize
      let t3 ← next_aligned E t2 alignment
      let t4 ← uadd E.m t1 t3
      pure t4)
  let t5 ← expectSome (layoutFromSizeAlign num_bytes alignment)
  pure t5

def len (E : Env) : GM Nat := do
  let t1 ← GM.isDefault
  if t1 then pure 0 else do
    let t2 ← GM.hdrLen
    pure t2

def capacity (E : Env) : GM Nat := do
  let t1 ← GM.isDefault
  if t1 then pure 0 else do
    let t2 ← GM.hdrCap
    pure t2

def alignment (E : Env) : GM Nat := do
  let t1 ← GM.isDefault
  if t1 then do
    let t2 ← liftE (max_align E)
    pure t2
  else do
    let t2 ← GM.hdrAlign
    pure t2

def grow (E : Env) (capacity_ : Nat) (alignment_ : Nat) : GM Unit := do
  let t1 ← len E
  GM.debugAssert (decide (capacity_ ≥ t1))
  let old_capacity ← capacity E
  let new_capacity := capacity_
  if new_capacity == old_capacity then
    pure ()
  else do
    let new_layout ← liftE (make_layout E new_capacity alignment_)
    let len_ ← len E
    let t2 ← GM.isDefault
    let new_buf ← (if t2 then do
        let t3 ← GM.alloc E new_layout
        pure t3
      else do
        let old_layout ← liftE (make_layout E old_capacity alignment_)
        let t3 ← GM.realloc E old_layout new_layout.size
        pure t3)
    if new_buf.isNull then
      GM.handleAllocError new_layout
    else do
      let header : HeaderV := { len := len_, cap := new_capacity, alignment := alignment_ }
      GM.writeHeader new_buf header
      GM.setBuf new_buf

end MV.Gen

import MiniVecProof.Proofs.MemOps
/-
  T-MEM: reading ranges, destroying elements, `truncate`, `clear`, `Drop for MiniVec`.
-/
namespace MV
open MV.Gen MV.GM VM

/-- reading a written slot of the handle's block through the true data pointer -/
theorem rd_blk (s : St) (b : Blk) (i : Nat) (e : Elem) (hb : s.v.blk = some b)
    (hs : b.slots[i]? = some (some e)) :
    VM.rd (.at (dataOff b.lay.align)) i s = (.ok e, s) := by
  unfold VM.rd VM.blockAt
  simp [hb, hs]

theorem rdRange_blk (s : St) (b : Blk) (hb : s.v.blk = some b) (xs : List Elem) (i : Nat)
    (h : ∀ j, j < xs.length → b.slots[i + j]? = some xs[j]?) :
    VM.rdRange (.at (dataOff b.lay.align)) i xs.length s = (.ok xs, s) := by
  induction xs generalizing i with
  | nil => simp [VM.rdRange]
  | cons x xs ih =>
    have h0 := h 0 (by simp)
    simp only [Nat.add_zero, List.getElem?_cons_zero] at h0
    have h1 := rd_blk s b i x hb h0
    have h2 := ih (i + 1) (by
      intro j hj
      have := h (j + 1) (by simp; omega)
      simp only [List.getElem?_cons_succ] at this
      rw [← this]; congr 1; omega)
    simp only [List.length_cons]
    unfold VM.rdRange
    simp only [VM.bind_run, h1, h2, VM.pure_run]

theorem rdRange_abs (X : Ctx) (s : St) (es : List Elem) (h : Abs X s.v es) (hd : s.v.isDefault = false)
    (n i : Nat) (hi : i + n ≤ es.length) :
    VM.rdRange (.at (dataOff s.v.align)) i n s = (.ok ((es.drop i).take n), s) := by
  obtain ⟨b, hb, hl, hs, hlc, hel, hinit⟩ := h.alloc hd
  have hal : b.lay.align = s.v.align := (make_layout_honest _ _ _ _ hl).2.1
  have hlen : ((es.drop i).take n).length = n := by simp; omega
  have := rdRange_blk s b hb ((es.drop i).take n) i (by
    intro j hj
    rw [hlen] at hj
    rw [hinit (i + j) (by omega)]
    simp [List.getElem?_take, hj, List.getElem?_drop])
  rw [hlen, hal] at this
  exact this

/-- the destructor events of a list of elements (none for a class without destructor) -/
def dropEvents (X : Ctx) (es : List Elem) : List Ev :=
  if X.c.needsDrop then es.map (fun e => Ev.drop e.id) else []

/-- the state after destroying `es` with no destructor panicking -/
def afterDrops (X : Ctx) (s : St) (es : List Elem) : St :=
  { s with sys := { s.sys with tr := s.sys.tr ++ dropEvents X es,
                                cbIdx := s.sys.cbIdx + (if X.c.needsDrop then es.length else 0) } }

theorem dropAll_quiet (X : Ctx) (hq : ∀ k, X.o.panicAt k = false) (es : List Elem) (s : St) :
    VM.dropAll X es s = (.ok (), afterDrops X s es) := by
  induction es generalizing s with
  | nil => simp [VM.dropAll, afterDrops, dropEvents]
  | cons e es ih =>
    unfold VM.dropAll VM.guarded VM.dropElem
    cases hn : X.c.needsDrop with
    | false =>
      simp only [Bool.false_eq_true, if_false, VM.pure_run]
      rw [ih]
      simp [afterDrops, dropEvents, hn]
    | true =>
      simp only [if_true, VM.bind_run, VM.emit, VM.callback, hq, Bool.false_eq_true, if_false]
      rw [ih]
      simp [afterDrops, dropEvents, hn, Nat.add_assoc, Nat.add_comm 1]

/-- `Drop for MiniVec` on a well-formed handle when no destructor panics: every exposed element is
    destroyed exactly once, in order; then the block is released quoting exactly the layout it was
    obtained with; the handle is gone. A never-allocated handle does nothing at all. -/
theorem dropVec_spec (X : Ctx) (hq : ∀ k, X.o.panicAt k = false) (s : St) (es : List Elem)
    (h : Abs X s.v es) :
    (s.v.isDefault = true → Vec.dropVec X s = (.ok (), s)) ∧
    (s.v.isDefault = false → ∃ b, s.v.blk = some b ∧
      Vec.dropVec X s = (.ok (), { sys := { (afterDrops X s es).sys with
          tr := (afterDrops X s es).sys.tr ++ [.dealloc b.lay.size b.lay.align] }, v := {} })) := by
  constructor
  · intro hd
    have h1 : VM.lift X (drop_impl_pre X.env) s = (.ok (.ret 0), s) :=
      lift_read X _ s _ (by simp [drop_impl_pre, hsOf, hd])
    unfold Vec.dropVec
    simp only [VM.bind_run, h1, VM.pure_run]
  · intro hd
    obtain ⟨b, hb, hl, hs, hlc, hel, hinit⟩ := h.alloc hd
    refine ⟨b, hb, ?_⟩
    have h1 : VM.lift X (drop_impl_pre X.env) s = (.ok (.cont ⟨s.v.len, s.v.cap, s.v.align⟩), s) :=
      lift_read X _ s _ (by simp [drop_impl_pre, hsOf, hd, GM.hdrLen, GM.hdrCap, GM.hdrAlign])
    have h2 : VM.lift X (data X.env) s = (.ok (.at (dataOff s.v.align)), s) :=
      lift_read X _ s _ (data_run X.env _ hd b.lay s.v.cap hl)
    have h3 := rdRange_abs X s es h hd s.v.len 0 (by omega)
    have h3' : (es.drop 0).take s.v.len = es := by simp [← hel]
    rw [h3'] at h3
    have h4 := dropAll_quiet X hq es s
    have h5 : VM.lift X (GM.liftE (make_layout X.env s.v.cap s.v.align)) (afterDrops X s es) =
        (.ok b.lay, afterDrops X s es) :=
      lift_read X _ _ _ (by simp [hl])
    unfold Vec.dropVec
    simp only [VM.bind_run, h1, h2, h3, h4, h5, VM.getV_run]
    have hb' : (afterDrops X s es).v.blk = some b := hb
    simp only [hb', if_true]
    rfl

/-- a program that ends with one length write -/
theorem lift_len_write' {α} (X : Ctx) (g : GM α) (s : St) (n : Nat) (res : Except Panic α)
    (hg : g (hsOf s.v s.sys.allocIdx) =
      (res, { (hsOf s.v s.sys.allocIdx) with len := n, acts := [.setLen n] })) :
    VM.lift X g s = (res, { s with v := { s.v with len := n } }) := by
  rw [lift_run, hg]
  simp [replay, replay1, withHdr, hsOf]

/-- what the regenerated prefix of `truncate` does. Stated so that it holds for both ways of writing the tail of the
    function: `if !needs_drop::<T>() { return; } <drop the tail>` (the prefix then answers `ret 1` for element types
    without drop glue) and `if needs_drop::<T>() { <drop the tail> }` (the prefix always hands over to the pointer code,
    which destroys nothing for such types) -/
theorem truncate_pre_run (E : Env) (n : Nat) (g : GS) :
    (n ≥ g.L → truncate_pre E n g = (.ok (.ret 0), g)) ∧
    (¬ n ≥ g.L → g.isDefault = false →
      (truncate_pre E n g = (.ok (.cont ⟨n, g.L⟩), { g with len := n, acts := g.acts ++ [.setLen n] }) ∨
       (E.c.needsDrop = false ∧
        truncate_pre E n g = (.ok (.ret 1), { g with len := n, acts := g.acts ++ [.setLen n] })))) := by
  unfold truncate_pre
  simp only [len_run, GM.bind_run, GM.ite_run, decide_eq_true_eq, GM.pure_run]
  refine ⟨fun hge => by rw [if_pos hge], fun hge hd => ?_⟩
  rw [if_neg hge]
  cases hn : E.c.needsDrop <;> simp [GM.setHdrLen, hd, hn]

/-- `truncate(n)` when no destructor panics: the vector keeps the first `n` elements; the others
    are destroyed exactly once, in order; capacity, block and allocator untouched. -/
theorem truncate_spec (X : Ctx) (hq : ∀ k, X.o.panicAt k = false) (s : St) (es : List Elem) (n : Nat)
    (h : Abs X s.v es) :
    ∃ v', Vec.truncate X n s = (.ok (), { afterDrops X s (es.drop n) with v := v' }) ∧
      Abs X v' (es.take n) ∧ v'.blk = s.v.blk ∧ v'.cap = s.v.cap ∧ v'.isDefault = s.v.isDefault := by
  have hL : (hsOf s.v s.sys.allocIdx).L = es.length := h.len_eq
  obtain ⟨hrun0, hrun1⟩ := truncate_pre_run X.env n (hsOf s.v s.sys.allocIdx)
  rw [hL] at hrun0 hrun1
  by_cases hge : n ≥ es.length
  · have hrun := hrun0 hge
    have h1 : VM.lift X (truncate_pre X.env n) s = (.ok (.ret 0), s) := lift_read X _ s _ hrun
    refine ⟨s.v, ?_, by rw [List.take_of_length_le hge]; exact h, rfl, rfl, rfl⟩
    unfold Vec.truncate
    simp only [VM.bind_run, h1, VM.pure_run]
    have : es.drop n = [] := List.drop_eq_nil_of_le hge
    simp [afterDrops, dropEvents, this]
  · have hlt : n < es.length := by omega
    have hd : s.v.isDefault = false := by
      cases hd : s.v.isDefault
      · rfl
      · have := (h.sentinel hd).2; subst this; simp at hlt
    obtain ⟨b, hb, hl, hs, hlc, hel, hinit⟩ := h.alloc hd
    have hal : b.lay.align = s.v.align := (make_layout_honest _ _ _ _ hl).2.1
    have habs' := h.shorten n (by omega) hd
    have hgd : (hsOf s.v s.sys.allocIdx).isDefault = false := hd
    have hacts : (hsOf s.v s.sys.allocIdx).acts ++ [Action.setLen n] = [.setLen n] := rfl
    rcases hrun1 hge hgd with hrun | ⟨hnd', hrun⟩
    case inr =>
      have hnd : X.c.needsDrop = false := hnd'
      rw [hacts] at hrun
      have h1 := lift_len_write' X (truncate_pre X.env n) s n _ hrun
      refine ⟨{ s.v with len := n }, ?_, habs', rfl, rfl, rfl⟩
      unfold Vec.truncate
      simp only [VM.bind_run, h1, VM.pure_run]
      simp [afterDrops, dropEvents, hnd]
    case inl =>
      rw [hacts] at hrun
      have h1 := lift_len_write' X (truncate_pre X.env n) s n _ hrun
      -- the tail is read from the same block (the length cut does not touch the slots)
      have h2 : VM.lift X (data X.env) { s with v := { s.v with len := n } } =
          (.ok (.at (dataOff s.v.align)), { s with v := { s.v with len := n } }) :=
        lift_read X _ _ _ (data_run X.env _ hd b.lay s.v.cap hl)
      have hdl : (es.drop n).length = es.length - n := by simp
      have h3 := rdRange_blk { s with v := { s.v with len := n } } b hb (es.drop n) n (by
        intro j hj
        rw [hdl] at hj
        rw [hinit (n + j) (by omega)]
        simp [List.getElem?_drop])
      rw [hdl, hal] at h3
      have h4 := dropAll_quiet X hq (es.drop n) { s with v := { s.v with len := n } }
      refine ⟨{ s.v with len := n }, ?_, habs', rfl, rfl, rfl⟩
      unfold Vec.truncate
      simp only [VM.bind_run, h1, h2, h3, h4]
      rfl

theorem clear_spec (X : Ctx) (hq : ∀ k, X.o.panicAt k = false) (s : St) (es : List Elem) (h : Abs X s.v es) :
    ∃ v', Vec.clear X s = (.ok (), { afterDrops X s es with v := v' }) ∧ Abs X v' [] ∧
      v'.blk = s.v.blk ∧ v'.cap = s.v.cap ∧ v'.isDefault = s.v.isDefault := by
  have := truncate_spec X hq s es 0 h
  simpa [Vec.clear] using this

theorem lift_isDefault (X : Ctx) (s : St) : VM.lift X GM.isDefault s = (.ok s.v.isDefault, s) :=
  lift_read X _ s _ (by simp [GM.isDefault, hsOf])

theorem lift_hdrLen (X : Ctx) (s : St) (hd : s.v.isDefault = false) : VM.lift X GM.hdrLen s = (.ok s.v.len, s) :=
  lift_read X _ s _ (by simp [GM.hdrLen, hsOf, hd])

end MV

#print axioms MV.dropVec_spec
#print axioms MV.truncate_spec
#print axioms MV.clear_spec
#print axioms MV.push_spec
#print axioms MV.pop_spec

import MiniVecProof.Proofs.GenVec
/-
  T-GEN: the capacity-changing methods (`reserve`, `reserve_exact`, `shrink_to_fit`, `shrink_to`,
  `with_capacity`, `with_alignment`) as equations over `grow`.
-/
namespace MV.Gen
open MV MV.GM

/-- the doubling loop of `reserve`, as a pure function -/
def capLoop (E : Env) (tot : Nat) : Nat → Nat → Except Panic Nat
  | 0, _ => .error .fuel
  | fuel + 1, nc => if nc < tot then (next_capacity E nc) >>= capLoop E tot fuel else .ok nc

theorem reserve_loop1_eq (E : Env) (fuel add cap tot nc : Nat) (s : GS) :
    reserve_loop1 E fuel add cap tot nc s = (capLoop E tot fuel nc, s) := by
  induction fuel generalizing nc with
  | zero => simp [reserve_loop1, capLoop]
  | succ f ih =>
    unfold reserve_loop1 capLoop
    by_cases h : nc < tot
    · simp [h]
      cases hn : next_capacity E nc with
      | error p => simp
      | ok v => simp [ih]
    · simp [h]

theorem capLoop_ok (E : Env) (tot fuel nc r : Nat) (h : capLoop E tot fuel nc = .ok r) :
    tot ≤ r ∧ nc ≤ r := by
  induction fuel generalizing nc with
  | zero => simp [capLoop] at h
  | succ f ih =>
    unfold capLoop at h
    by_cases hlt : nc < tot
    · simp only [hlt, if_true, Except.bind_eq_ok] at h
      obtain ⟨v, hv, hrest⟩ := h
      have := ih v hrest
      rw [next_capacity_eq] at hv
      split at hv <;> simp at hv
      have := growFig_gt E.c nc
      omega
    · simp [hlt] at h; omega

/-- the loop never runs out of fuel: the candidate at least doubles each round and overflow is
    refused, so 64 rounds are more than any input needs -/
theorem capLoop_no_fuel (E : Env) (tot fuel nc : Nat) (h1 : 1 ≤ nc) (h2 : nc < W)
    (h3 : W ≤ nc * 2 ^ fuel) : capLoop E tot fuel nc ≠ .error .fuel := by
  induction fuel generalizing nc with
  | zero => simp at h3; omega
  | succ f ih =>
    unfold capLoop
    by_cases hlt : nc < tot
    · simp only [hlt, if_true]
      rw [next_capacity_eq]
      have hg : growFig E.c nc = 2 * nc := by unfold growFig; simp [show nc ≠ 0 by omega]
      rw [hg]
      by_cases hw : 2 * nc < W
      · simp only [hw, if_true, Except.bind_ok]
        apply ih (2 * nc) (by omega) hw
        rw [Nat.pow_succ] at h3
        have : nc * (2 ^ f * 2) = 2 * nc * 2 ^ f := by
          rw [Nat.mul_comm (2 ^ f) 2, ← Nat.mul_assoc, Nat.mul_comm nc 2]
        omega
      · simp [hw]
    · simp [hlt]

theorem capLoop_error_kind (E : Env) (tot fuel nc : Nat) (p : Panic) (h1 : 1 ≤ nc) (h2 : nc < W)
    (h3 : W ≤ nc * 2 ^ fuel) (h : capLoop E tot fuel nc = .error p) : p = .explicit := by
  induction fuel generalizing nc with
  | zero => simp at h3; omega
  | succ f ih =>
    unfold capLoop at h
    by_cases hlt : nc < tot
    · simp only [hlt, if_true] at h
      rw [next_capacity_eq] at h
      have hg : growFig E.c nc = 2 * nc := by unfold growFig; simp [show nc ≠ 0 by omega]
      rw [hg] at h
      by_cases hw : 2 * nc < W
      · simp only [hw, if_true, Except.bind_ok] at h
        apply ih (2 * nc) (by omega) hw _ h
        rw [Nat.pow_succ] at h3
        have : nc * (2 ^ f * 2) = 2 * nc * 2 ^ f := by
          rw [Nat.mul_comm (2 ^ f) 2, ← Nat.mul_assoc, Nat.mul_comm nc 2]
        omega
      · simp [hw] at h; exact h.symm
    · simp [hlt] at h

/-- the capacity `reserve` asks `grow` for -/
def reserveTarget (E : Env) (tot cap : Nat) : Except Panic Nat :=
  (next_capacity E cap) >>= capLoop E tot loopFuel

theorem reserve_spec (E : Env) (n : Nat) (s : GS) :
    reserve E n s =
      match checkedAdd s.L n with
      | none => (.error .explicit, s)
      | some tot =>
        if tot ≤ s.C then (.ok (), s)
        else match reserveTarget E tot s.C with
          | .error p => (.error p, s)
          | .ok nc => grow E nc (s.A E) s := by
  unfold reserve reserveTarget
  cases hc : checkedAdd s.L n with
  | none => simp [expectSome, hc]
  | some tot =>
    simp only [capacity_run, len_run, GM.bind_run, GM.liftE_run, expectSome, hc, GM.ite_run,
      decide_eq_true_eq, GM.pure_run]
    by_cases ht : tot ≤ s.C
    · simp [ht]
    · simp only [ht, if_false]
      cases hn : next_capacity E s.C with
      | error p => simp
      | ok v =>
        simp only [reserve_loop1_eq, Except.bind_ok]
        cases hl : capLoop E tot loopFuel v with
        | error p => simp
        | ok nc =>
          simp only [alignment_run]
          cases grow E nc (s.A E) s with
          | mk r s' => cases r <;> simp

theorem reserveTarget_ok (E : Env) (tot cap nc : Nat) (h : reserveTarget E tot cap = .ok nc) :
    tot ≤ nc ∧ cap < nc := by
  unfold reserveTarget at h
  rw [Except.bind_eq_ok] at h
  obtain ⟨v, hv, hl⟩ := h
  have := capLoop_ok E tot loopFuel v nc hl
  rw [next_capacity_eq] at hv
  split at hv <;> simp at hv
  have := growFig_gt E.c cap
  omega

theorem two_pow_fuel : W ≤ 2 ^ loopFuel := by
  unfold W loopFuel; decide

theorem reserveTarget_error (E : Env) (tot cap : Nat) (p : Panic)
    (h : reserveTarget E tot cap = .error p) : p = .explicit := by
  unfold reserveTarget at h
  cases hn : next_capacity E cap with
  | error q =>
    simp [hn] at h; subst h
    rw [next_capacity_eq] at hn; split at hn <;> simp at hn; exact hn.symm
  | ok v =>
    simp [hn] at h
    rw [next_capacity_eq] at hn
    split at hn <;> simp at hn
    rename_i hw
    have hpos := growFig_gt E.c cap
    apply capLoop_error_kind E tot loopFuel v p (by omega) (by omega) _ h
    have := two_pow_fuel
    calc W ≤ 2 ^ loopFuel := this
      _ = 1 * 2 ^ loopFuel := by omega
      _ ≤ v * 2 ^ loopFuel := Nat.mul_le_mul_right _ (by omega)

theorem reserve_exact_spec (E : Env) (n : Nat) (s : GS) :
    reserve_exact E n s =
      match checkedAdd s.L n with
      | none => (.error .explicit, s)
      | some tot => if tot ≤ s.C then (.ok (), s) else grow E tot (s.A E) s := by
  unfold reserve_exact
  cases hc : checkedAdd s.L n with
  | none => simp [expectSome, hc]
  | some tot =>
    simp only [capacity_run, len_run, GM.bind_run, GM.liftE_run, expectSome, hc, GM.ite_run,
      decide_eq_true_eq, GM.pure_run, alignment_run, ge_iff_le]
    by_cases ht : tot ≤ s.C
    · simp [ht]
    · simp only [ht, if_false]
      cases grow E tot (s.A E) s with
      | mk r s' => cases r <;> simp

theorem shrink_to_fit_spec (E : Env) (s : GS) :
    shrink_to_fit E s = if s.L = s.C then (.ok (), s) else grow E s.L (s.A E) s := by
  unfold shrink_to_fit
  simp only [capacity_run, len_run, GM.bind_run, GM.ite_run, beq_iff_eq, GM.pure_run, alignment_run]
  by_cases h : s.L = s.C
  · simp [h]
  · simp only [h, if_false]
    cases grow E s.L (s.A E) s with
    | mk r s' => cases r <;> simp

theorem shrink_to_spec (E : Env) (m : Nat) (s : GS) :
    shrink_to E m s =
      if m < s.L then shrink_to_fit E s
      else if s.C = m then (.ok (), s)
      else if s.C < m then (.error .explicit, s)
      else grow E m (s.A E) s := by
  unfold shrink_to
  simp only [capacity_run, len_run, GM.bind_run, GM.ite_run, beq_iff_eq, GM.pure_run, alignment_run,
    decide_eq_true_eq, GM.throw_run]
  by_cases h1 : m < s.L
  · simp only [h1, if_true]
    cases shrink_to_fit E s with
    | mk r s' => cases r <;> simp
  · simp only [h1, if_false]
    by_cases h2 : s.C = m
    · simp [h2]
    · simp only [h2, if_false]
      by_cases h3 : s.C < m
      · have h3' : s.C ≤ m := by omega      -- (`<` and `≤` coincide here: the case `s.C = m` has returned)
        simp [h3, h3']
      · have h3' : ¬ s.C ≤ m := by omega
        simp only [h3, h3', if_false]
        cases grow E m (s.A E) s with
        | mk r s' => cases r <;> simp

/-- the handle repointed at the sentinel -/
def _root_.MV.GS.reset (s : GS) : GS :=
  { s with isDefault := true, len := 0, cap := 0, align := 0, acts := s.acts ++ [.reset] }

theorem new_spec (E : Env) (s : GS) :
    new E s = if E.c.elemSize > 0 then (.ok (), s.reset) else (.error .explicit, s) := by
  unfold new
  by_cases hz : E.c.elemSize > 0 <;> simp [GM.assert, hz, GM.resetBuf, GS.reset]

theorem with_capacity_spec (E : Env) (n : Nat) (s : GS) :
    with_capacity E n s =
      if E.c.elemSize > 0 then reserve_exact E n s.reset else (.error .explicit, s) := by
  unfold with_capacity
  simp only [GM.bind_run, new_spec]
  by_cases hz : E.c.elemSize > 0
  · simp only [hz, if_true]
    cases reserve_exact E n s.reset with
    | mk r s' => cases r <;> rfl
  · simp only [hz, if_false]

theorem with_alignment_spec (E : Env) (n a : Nat) (s : GS) :
    with_alignment E n a s =
      if a < max E.c.elemAlign hdrAlign then (.ok (.error .AlignmentTooSmall), s)
      else if isPow2 a = false then (.ok (.error .AlignmentNotDivisibleByTwo), s)
      else if E.c.elemSize > 0 then
        (match grow E n a s.reset with
         | (.ok _, s') => (.ok (.ok ()), s')
         | (.error p, s') => (.error p, s'))
      else (.error .explicit, s) := by
  unfold with_alignment
  simp only [GM.bind_run, GM.liftE_run, max_align_eq, GM.ite_run, decide_eq_true_eq, GM.pure_run, new_spec]
  by_cases h1 : a < max E.c.elemAlign hdrAlign
  · simp [h1]
  · simp only [h1, if_false]
    cases hp : isPow2 a with
    | false => simp
    | true =>
      simp only [Bool.not_true, Bool.false_eq_true, if_false]
      by_cases hz : E.c.elemSize > 0
      · simp only [hz, if_true]
        cases grow E n a s.reset with
        | mk r s' => cases r <;> rfl
      · simp [hz]

end MV.Gen

import MiniVecProof.Proofs.Arith
/-
  T-GEN: what the regenerated decision programs do to the header machine (`GS`).
-/
namespace MV.Gen
open MV MV.GM

@[simp] theorem GM.bind_run {α β} (x : GM α) (f : α → GM β) (s : GS) :
    (x >>= f) s = match x s with | (.ok a, s') => f a s' | (.error e, s') => (.error e, s') := rfl
@[simp] theorem GM.pure_run {α} (a : α) (s : GS) : (pure a : GM α) s = (.ok a, s) := rfl
@[simp] theorem GM.liftE_run {α} (x : Except Panic α) (s : GS) : GM.liftE x s = (x, s) := rfl
@[simp] theorem GM.throw_run {α} (p : Panic) (s : GS) : (GM.throw p : GM α) s = (.error p, s) := rfl
@[simp] theorem GM.ite_run {α} (c : Prop) [Decidable c] (x y : GM α) (s : GS) :
    (if c then x else y) s = if c then x s else y s := by split <;> rfl
@[simp] theorem GM.isDefault_run (s : GS) : GM.isDefault s = (.ok s.isDefault, s) := rfl

/-- what `len()` / `capacity()` report -/
def _root_.MV.GS.L (s : GS) : Nat := if s.isDefault then 0 else s.len
def _root_.MV.GS.C (s : GS) : Nat := if s.isDefault then 0 else s.cap
/-- what `alignment()` reports -/
def _root_.MV.GS.A (E : Env) (s : GS) : Nat := if s.isDefault then max E.c.elemAlign hdrAlign else s.align

@[simp] theorem len_run (E : Env) (s : GS) : len E s = (.ok s.L, s) := by
  unfold len GS.L; cases h : s.isDefault <;> simp [h, GM.hdrLen]

@[simp] theorem capacity_run (E : Env) (s : GS) : capacity E s = (.ok s.C, s) := by
  unfold capacity GS.C; cases h : s.isDefault <;> simp [h, GM.hdrCap]

@[simp] theorem alignment_run (E : Env) (s : GS) : alignment E s = (.ok (s.A E), s) := by
  unfold alignment GS.A; cases h : s.isDefault <;> simp [h, GM.hdrAlign, max_align_eq]

@[simp] theorem is_empty_run (E : Env) (s : GS) : is_empty E s = (.ok (s.L == 0), s) := by
  unfold is_empty; simp

/-- the state after a successful (re)allocation to capacity `c`, alignment `a` -/
def _root_.MV.GS.grown (s : GS) (c a : Nat) (req : Action) : GS :=
  { s with isDefault := false, len := s.L, cap := c, align := a, fresh := none, mirrored := false,
           acts := s.acts ++ [req, .install ⟨s.L, c, a⟩], allocIdx := s.allocIdx + 1 }

/-- the state after a failed request -/
def _root_.MV.GS.refused (s : GS) (req : Action) : GS :=
  { s with acts := s.acts ++ [req], allocIdx := s.allocIdx + 1 }

def allocRefused (E : Env) (s : GS) (size : Nat) : Bool := E.fail s.allocIdx || decide (allocLimit < size)

/-- once the new layout exists, the word in front of the elements is computed and written without incident -/
theorem mirror_ok (E : Env) (c a : Nat) (L : Layout) (hL : make_layout E c a = .ok L) :
    next_aligned E hdrSize a = .ok (alignUp hdrSize a) ∧
    usub E.m (alignUp hdrSize a) wordSize = .ok (alignUp hdrSize a - wordSize) ∧
    alignUp hdrSize a - wordSize + wordSize = alignUp hdrSize a := by
  obtain ⟨_, hp, hs⟩ := make_layout_ok E c a L hL
  have hpos := isPow2_pos _ hp
  have hW : hdrSize < W := by decide
  have hge := alignUp_ge hdrSize a
  have hlt : alignUp hdrSize a < W := by
    have : alignUp hdrSize a ≤ totalSize E.c c a := by unfold totalSize dataOff; omega
    have h2 : ISIZE_MAX + 1 < W := by decide
    omega
  have h24 : wordSize ≤ alignUp hdrSize a := by simp only [hdrSize, wordSize] at *; omega
  refine ⟨by rw [next_aligned_eq _ _ _ hpos hW, if_pos hlt], by unfold usub; rw [if_pos h24], by omega⟩

/-- Complete description of `grow` (every path, every input). -/
theorem grow_spec (E : Env) (s : GS) (c a : Nat) (hf : s.fresh = none) :
    grow E c a s =
      if c < s.L then (.error .debugAssert, s)
      else if c = s.C ∧ a = s.A E then (.ok (), s)
      else match make_layout E c a with
        | .error p => (.error p, s)
        | .ok L =>
          if s.isDefault then
            if allocRefused E s L.size then (.error .allocError, s.refused (.allocFail L.size L.align))
            else (.ok (), s.grown c a (.alloc L.size L.align))
          else match make_layout E s.cap a with
            | .error p => (.error p, s)
            | .ok L0 =>
              if allocRefused E s L.size then
                (.error .allocError, s.refused (.reallocFail L0.size L0.align L.size))
              else (.ok (), s.grown c a (.realloc L0.size L0.align L.size)) := by
  have hrefuse : ∀ n, allocRefused E s n = (E.fail s.allocIdx || decide (allocLimit < n)) := fun _ => rfl
  cases hd : s.isDefault with
  | true =>
    simp only [GS.L, GS.C, GS.A, hd, if_true]
    by_cases h1 : c < 0
    · omega
    · by_cases h2 : c = 0
      · subst h2
        by_cases h3 : a = max E.c.elemAlign hdrAlign
        · subst h3
          simp [grow, GM.debugAssert, GS.L, GS.C, GS.A, hd]
        · cases hL : make_layout E 0 a with
          | error p => simp [grow, GM.debugAssert, GS.L, GS.C, GS.A, hd, h3, hL]
          | ok L =>
            by_cases hr : allocRefused E s L.size = true
            · have hr' := hr; rw [hrefuse] at hr'
              simp [grow, GM.debugAssert, GS.L, GS.C, GS.A, hd, h3, hL, hr, hr', GM.alloc, Tok.isNull,
                GM.handleAllocError, GS.refused]
            · have hr' := hr; rw [hrefuse] at hr'
              obtain ⟨m1, m2, m3⟩ := mirror_ok E _ a L hL
              simp [grow, GM.debugAssert, GS.L, GS.C, GS.A, hd, h3, hL, hr, hr', GM.alloc, Tok.isNull,
                GM.writeHeader, GM.setBuf, GS.grown, GM.writeMirror, m1, m2, m3]
      · cases hL : make_layout E c a with
        | error p => simp [grow, GM.debugAssert, GS.L, GS.C, GS.A, hd, h2, hL]
        | ok L =>
          by_cases hr : allocRefused E s L.size = true
          · have hr' := hr; rw [hrefuse] at hr'
            simp [grow, GM.debugAssert, GS.L, GS.C, GS.A, hd, h2, hL, hr, hr', GM.alloc, Tok.isNull,
              GM.handleAllocError, GS.refused]
          · have hr' := hr; rw [hrefuse] at hr'
            obtain ⟨m1, m2, m3⟩ := mirror_ok E _ a L hL
            simp [grow, GM.debugAssert, GS.L, GS.C, GS.A, hd, h2, hL, hr, hr', GM.alloc, Tok.isNull,
              GM.writeHeader, GM.setBuf, GS.grown, GM.writeMirror, m1, m2, m3]
  | false =>
    simp only [GS.L, GS.C, GS.A, hd, Bool.false_eq_true, if_false]
    by_cases h1 : c < s.len
    · have : ¬ (s.len ≤ c) := by omega
      simp [grow, GM.debugAssert, GS.L, GS.C, GS.A, hd, h1, this]
    · have h1' : s.len ≤ c := by omega
      by_cases hc : c = s.cap
      · subst hc
        by_cases ha : a = s.align
        · subst ha
          simp [grow, GM.debugAssert, GS.L, GS.C, GS.A, hd, h1']
        · cases hL : make_layout E s.cap a with
          | error p => simp [grow, GM.debugAssert, GS.L, GS.C, GS.A, hd, h1, h1', hL, ha]
          | ok L =>
            by_cases hr : allocRefused E s L.size = true
            · have hr' := hr; rw [hrefuse] at hr'
              simp [grow, GM.debugAssert, GS.L, GS.C, GS.A, hd, h1, h1', hL, ha, hr, hr',
                GM.realloc, Tok.isNull, GM.handleAllocError, GS.refused]
            · have hr' := hr; rw [hrefuse] at hr'
              obtain ⟨m1, m2, m3⟩ := mirror_ok E _ a L hL
              simp [grow, GM.debugAssert, GS.L, GS.C, GS.A, hd, h1, h1', hL, ha, hr, hr',
                GM.realloc, Tok.isNull, GM.writeHeader, GM.setBuf, GS.grown, hf, GM.writeMirror, m1, m2, m3]
      · cases hL : make_layout E c a with
        | error p => simp [grow, GM.debugAssert, GS.L, GS.C, GS.A, hd, h1, h1', hL, hc]
        | ok L =>
          cases hL0 : make_layout E s.cap a with
          | error p => simp [grow, GM.debugAssert, GS.L, GS.C, GS.A, hd, h1, h1', hL, hL0, hc]
          | ok L0 =>
            by_cases hr : allocRefused E s L.size = true
            · have hr' := hr; rw [hrefuse] at hr'
              simp [grow, GM.debugAssert, GS.L, GS.C, GS.A, hd, h1, h1', hL, hL0, hc, hr, hr',
                GM.realloc, Tok.isNull, GM.handleAllocError, GS.refused]
            · have hr' := hr; rw [hrefuse] at hr'
              obtain ⟨m1, m2, m3⟩ := mirror_ok E _ a L hL
              simp [grow, GM.debugAssert, GS.L, GS.C, GS.A, hd, h1, h1', hL, hL0, hc, hr, hr',
                GM.realloc, Tok.isNull, GM.writeHeader, GM.setBuf, GS.grown, hf, GM.writeMirror, m1, m2, m3]

/-- header words and pending block unchanged (only the request log and counter may differ) -/
def _root_.MV.GS.sameHdr (s s' : GS) : Prop :=
  s'.isDefault = s.isDefault ∧ s'.len = s.len ∧ s'.cap = s.cap ∧ s'.align = s.align ∧ s'.fresh = s.fresh

theorem GS.sameHdr_refl (s : GS) : s.sameHdr s := ⟨rfl, rfl, rfl, rfl, rfl⟩

/-- does this request ask for at least `n` bytes with alignment `a`? -/
def _root_.MV.Action.asksFor (n a : Nat) : Action → Prop
  | .alloc size al => n ≤ size ∧ al = a
  | .realloc _ oa ns => n ≤ ns ∧ oa = a
  | .allocFail size al => n ≤ size ∧ al = a
  | .reallocFail _ oa ns => n ≤ ns ∧ oa = a
  | _ => False

/-- a request the allocator satisfied / refused -/
def _root_.MV.Action.granted : Action → Bool
  | .alloc .. | .realloc .. => true
  | _ => false
def _root_.MV.Action.refusedReq : Action → Bool
  | .allocFail .. | .reallocFail .. => true
  | _ => false

/-- a stop that unwinds (as opposed to an abort, an illegal access or a hang) -/
def _root_.MV.Panic.unwinding : Panic → Bool
  | .overflow | .divZero | .explicit => true
  | _ => false

theorem make_layout_error_unwinding (E : Env) (c a : Nat) (p : Panic) (h : make_layout E c a = .error p) :
    p.unwinding = true := by
  have hW : hdrSize < W := by decide
  have hna : ∀ n, n < W → ∀ q, next_aligned E n a = .error q → q.unwinding = true := by
    intro n hn q hq
    by_cases ha : a = 0
    · subst ha; rw [next_aligned_zero] at hq; cases hq; rfl
    · rw [next_aligned_eq _ _ _ (Nat.pos_of_ne_zero ha) hn] at hq
      split at hq <;> simp at hq; subst hq; rfl
  have hexp : ∀ {α} (o : Option α) (q : Panic), expectSome o = .error q → q.unwinding = true := by
    intro α o q hq; cases o <;> simp [expectSome] at hq; subst hq; rfl
  unfold make_layout at h
  by_cases hc : c = 0
  · simp only [hc, beq_self_eq_true, if_true] at h
    cases h1 : next_aligned E hdrSize a with
    | error q => simp [h1] at h; subst h; exact hna _ hW _ h1
    | ok v => simp [h1] at h; exact hexp _ _ h
  · simp only [show (c == 0) = false by simp [hc], Bool.false_eq_true, if_false] at h
    cases h2 : expectSome (checkedMul c E.c.elemSize) with
    | error q => simp [h2] at h; subst h; exact hexp _ _ h2
    | ok v2 =>
      have hv2 : v2 < W := by
        rw [expectSome_eq_ok] at h2; unfold checkedMul at h2; split at h2 <;> simp at h2; omega
      simp [h2] at h
      cases h3 : next_aligned E hdrSize a with
      | error q => simp [h3] at h; subst h; exact hna _ hW _ h3
      | ok v3 =>
        simp [h3] at h
        cases h4 : next_aligned E v2 a with
        | error q => simp [h4] at h; subst h; exact hna _ hv2 _ h4
        | ok v4 =>
          simp [h4] at h
          cases h5 : expectSome (checkedAdd v3 v4) with
          | error q => simp [h5] at h; subst h; exact hexp _ _ h5
          | ok v5 => simp [h5] at h; exact hexp _ _ h

inductive GrowOutcome (E : Env) (s : GS) (c a : Nat) : Except Panic Unit × GS → Prop
  | noop : c = s.C → a = s.A E → GrowOutcome E s c a (.ok (), s)
  | rejected (p : Panic) : p ≠ .allocError → p ≠ .fuel → (p = .debugAssert ∧ c < s.L) ∨ p.unwinding = true →
      GrowOutcome E s c a (.error p, s)
  | allocFailed (req : Action) (L : Layout) : make_layout E c a = .ok L →
      req.asksFor L.size a → req.refusedReq = true → GrowOutcome E s c a (.error .allocError, s.refused req)
  | grown (req : Action) (L : Layout) : make_layout E c a = .ok L → s.L ≤ c →
      req.asksFor L.size a → req.granted = true → allocRefused E s L.size = false →
      GrowOutcome E s c a (.ok (), s.grown c a req)

theorem make_layout_error_kind (E : Env) (c a : Nat) (p : Panic) (h : make_layout E c a = .error p) :
    p ≠ .allocError ∧ p ≠ .fuel := by
  have hW : hdrSize < W := by decide
  unfold make_layout at h
  by_cases ha : a = 0
  · subst ha
    by_cases hc : c = 0
    · simp [hc, next_aligned_zero] at h; subst h; simp
    · simp [hc, next_aligned_zero] at h
      cases hm : expectSome (checkedMul c E.c.elemSize) with
      | error q =>
        simp [hm] at h; subst h
        cases hmm : checkedMul c E.c.elemSize <;> simp [expectSome, hmm] at hm
        subst hm; simp
      | ok v => simp [hm] at h; subst h; simp
  · have hpos := Nat.pos_of_ne_zero ha
    have hexp : ∀ {α} (o : Option α) (q : Panic), expectSome o = .error q → q = .explicit := by
      intro α o q hq; cases o <;> simp [expectSome] at hq; exact hq.symm
    have hna : ∀ n, n < W → ∀ q, next_aligned E n a = .error q → q = .explicit := by
      intro n hn q hq
      rw [next_aligned_eq _ _ _ hpos hn] at hq
      split at hq <;> simp at hq; exact hq.symm
    -- every failing step yields `.explicit`
    have : p = .explicit := by
      by_cases hc : c = 0
      · simp only [hc, beq_self_eq_true, if_true] at h
        cases h1 : next_aligned E hdrSize a with
        | error q => simp [h1] at h; subst h; exact hna _ hW _ h1
        | ok v =>
          simp [h1] at h
          exact hexp _ _ h
      · simp only [show (c == 0) = false by simp [hc], Bool.false_eq_true, if_false] at h
        cases h2 : expectSome (checkedMul c E.c.elemSize) with
        | error q => simp [h2] at h; subst h; exact hexp _ _ h2
        | ok v2 =>
          have hv2 : v2 < W := by
            rw [expectSome_eq_ok] at h2; unfold checkedMul at h2; split at h2 <;> simp at h2; omega
          simp [h2] at h
          cases h3 : next_aligned E hdrSize a with
          | error q => simp [h3] at h; subst h; exact hna _ hW _ h3
          | ok v3 =>
            simp [h3] at h
            cases h4 : next_aligned E v2 a with
            | error q => simp [h4] at h; subst h; exact hna _ hv2 _ h4
            | ok v4 =>
              simp [h4] at h
              cases h5 : expectSome (checkedAdd v3 v4) with
              | error q => simp [h5] at h; subst h; exact hexp _ _ h5
              | ok v5 =>
                simp [h5] at h
                exact hexp _ _ h
    subst this; simp

/-- Every run of `grow` is one of four outcomes. -/
theorem grow_cases (E : Env) (s : GS) (c a : Nat) (hf : s.fresh = none) :
    GrowOutcome E s c a (grow E c a s) := by
  rw [grow_spec E s c a hf]
  by_cases h1 : c < s.L
  · simp only [h1, if_true]; exact .rejected _ (by simp) (by simp) (.inl ⟨rfl, h1⟩)
  · simp only [h1, if_false]
    by_cases h2 : c = s.C ∧ a = s.A E
    · rw [if_pos h2]; exact .noop h2.1 h2.2
    · rw [if_neg h2]
      cases hL : make_layout E c a with
      | error p =>
        obtain ⟨hp1, hp2⟩ := make_layout_error_kind E c a p hL
        exact .rejected p hp1 hp2 (.inr (make_layout_error_unwinding E c a p hL))
      | ok L =>
        have hLa := (make_layout_honest E c a L hL).2.1
        cases hd : s.isDefault with
        | true =>
          simp only [if_true]
          cases hr : allocRefused E s L.size with
          | true => simp only [if_true]; exact .allocFailed _ L hL ⟨Nat.le_refl _, hLa⟩ rfl
          | false =>
            simp only [Bool.false_eq_true, if_false]
            exact .grown _ L hL (by omega) ⟨Nat.le_refl _, hLa⟩ rfl hr
        | false =>
          simp only [Bool.false_eq_true, if_false]
          cases hL0 : make_layout E s.cap a with
          | error p =>
            obtain ⟨hp1, hp2⟩ := make_layout_error_kind E _ a p hL0
            exact .rejected p hp1 hp2 (.inr (make_layout_error_unwinding E _ a p hL0))
          | ok L0 =>
            have hL0a := (make_layout_honest E _ a L0 hL0).2.1
            cases hr : allocRefused E s L.size with
            | true => simp only [if_true]; exact .allocFailed _ L hL ⟨Nat.le_refl _, hL0a⟩ rfl
            | false =>
              simp only [Bool.false_eq_true, if_false]
              exact .grown _ L hL (by omega) ⟨Nat.le_refl _, hL0a⟩ rfl hr

end MV.Gen

import MiniVecProof.Proofs.Mem
/-
  T-MEM: refinement lemmas for the element operations (hand-written pointer model on top of the
  regenerated decision programs).
-/
namespace MV
open MV.Gen MV.GM VM

/-! ### generated accessors on the header machine -/

theorem data_run (E : Env) (g : GS) (hd : g.isDefault = false) (L : Layout) (c : Nat)
    (hL : make_layout E c g.align = .ok L) :
    data E g = (.ok (.at (dataOff g.align)), g) := by
  obtain ⟨_, hp, hs⟩ := make_layout_ok E c g.align L hL
  have hpos := isPow2_pos _ hp
  have hW : hdrSize < W := by decide
  have hlt : alignUp hdrSize g.align < W := by
    have : dataOff g.align ≤ totalSize E.c c g.align := by unfold totalSize; omega
    unfold dataOff at this
    have h2 : ISIZE_MAX + 1 < W := by decide
    omega
  unfold data
  simp [hd, GM.debugAssert, GS.A, next_aligned_eq _ _ _ hpos hW, hlt, dataOff]

theorem as_ptr_run (E : Env) (g : GS) (hd : g.isDefault = false) (L : Layout) (c : Nat)
    (hL : make_layout E c g.align = .ok L) :
    as_ptr E g = (.ok (.at (dataOff g.align)), g) := by
  unfold as_ptr
  simp [hd, data_run E g hd L c hL]

theorem as_mut_ptr_run (E : Env) (g : GS) (hd : g.isDefault = false) (L : Layout) (c : Nat)
    (hL : make_layout E c g.align = .ok L) :
    as_mut_ptr E g = (.ok (.at (dataOff g.align)), g) := by
  unfold as_mut_ptr
  simp [hd, data_run E g hd L c hL]

theorem as_ptr_run_default (E : Env) (g : GS) (hd : g.isDefault = true) : as_ptr E g = (.ok .null, g) := by
  unfold as_ptr; simp [hd]
theorem as_mut_ptr_run_default (E : Env) (g : GS) (hd : g.isDefault = true) :
    as_mut_ptr E g = (.ok .null, g) := by
  unfold as_mut_ptr; simp [hd]

theorem pop_pre_run (E : Env) (g : GS) :
    pop_pre E g = if g.L = 0 then (.ok (.ret 0), g) else (.ok (.cont ⟨g.L⟩), g) := by
  unfold pop_pre
  simp only [len_run, GM.bind_run, GM.ite_run, beq_iff_eq, GM.pure_run]

/-! ### `lift` on the state-changing header programs -/

theorem lift_set_len (X : Ctx) (n : Nat) (s : St) (hd : s.v.isDefault = false) :
    VM.lift X (set_len X.env n) s = (.ok (), { s with v := { s.v with len := n } }) := by
  rw [lift_run]
  simp [set_len, GM.setHdrLen, hsOf, hd, replay, replay1, withHdr]

/-- what a `grow` through `lift` can do to a well-formed handle -/
inductive GrowMem (X : Ctx) (s : St) (es : List Elem) (c a : Nat) : Except Panic Unit × St → Prop
  | noop : (hsOf s.v s.sys.allocIdx).C = c → GrowMem X s es c a (.ok (), s)
  | rejected (p : Panic) : unwinds p = true → GrowMem X s es c a (.error p, s)
  | allocFailed (evs : List Ev) : GrowMem X s es c a (.error .allocError, { s with sys := s.sys.req evs false })
  | grown (v' : VSt) (evs : List Ev) : Abs X v' es → v'.isDefault = false → v'.cap = c → v'.align = a →
      v'.len = es.length → GrowMem X s es c a (.ok (), { sys := s.sys.req evs true, v := v' })

theorem make_layout_error_unwinds (E : Env) (c a : Nat) (p : Panic) (h : make_layout E c a = .error p) :
    unwinds p = true := by
  -- every failing step of `make_layout` is a division by zero or an explicit panic
  have hW : hdrSize < W := by decide
  have hna : ∀ n, n < W → ∀ q, next_aligned E n a = .error q → unwinds q = true := by
    intro n hn q hq
    by_cases ha : a = 0
    · subst ha; rw [next_aligned_zero] at hq; cases hq; rfl
    · rw [next_aligned_eq _ _ _ (Nat.pos_of_ne_zero ha) hn] at hq
      split at hq <;> simp at hq; subst hq; rfl
  have hexp : ∀ {α} (o : Option α) (q : Panic), expectSome o = .error q → unwinds q = true := by
    intro α o q hq; cases o <;> simp [expectSome] at hq; subst hq; rfl
  unfold make_layout at h
  by_cases hc : c = 0
  · simp only [hc, beq_self_eq_true, if_true] at h
    cases h1 : next_aligned E hdrSize a with
    | error q => simp [h1] at h; subst h; exact hna _ hW _ h1
    | ok v => simp [h1] at h; exact hexp _ _ h
  · simp only [show (c == 0) = false by simp [hc], Bool.false_eq_true, if_false] at h
    cases h2 : expectSome (checkedMul c E.c.elemSize) with
    | error q => simp [h2] at h; subst h; exact hexp _ _ h2
    | ok v2 =>
      have hv2 : v2 < W := by
        rw [expectSome_eq_ok] at h2; unfold checkedMul at h2; split at h2 <;> simp at h2; omega
      simp [h2] at h
      cases h3 : next_aligned E hdrSize a with
      | error q => simp [h3] at h; subst h; exact hna _ hW _ h3
      | ok v3 =>
        simp [h3] at h
        cases h4 : next_aligned E v2 a with
        | error q => simp [h4] at h; subst h; exact hna _ hv2 _ h4
        | ok v4 =>
          simp [h4] at h
          cases h5 : expectSome (checkedAdd v3 v4) with
          | error q => simp [h5] at h; subst h; exact hexp _ _ h5
          | ok v5 => simp [h5] at h; exact hexp _ _ h

/-- the header-machine states a decision program built around one `grow` can end in -/
inductive GShape (E : Env) (gs : GS) : GS → Prop
  | same : GShape E gs gs
  | refused (req : Action) : GShape E gs (gs.refused req)
  | grownAlloc (c a : Nat) (L : Layout) : gs.isDefault = true → make_layout E c a = .ok L →
      GShape E gs (gs.grown c a (.alloc L.size L.align))
  | grownRealloc (c : Nat) (L L0 : Layout) : gs.isDefault = false → make_layout E c gs.align = .ok L →
      make_layout E gs.cap gs.align = .ok L0 → gs.L ≤ c →
      GShape E gs (gs.grown c gs.align (.realloc L0.size L0.align L.size))

theorem refusedReq_replay (c : Cfg) (sys : Sys) (blk : Option Blk) (req : Action) (h : req.refusedReq = true) :
    ∃ evs, replay c { sys := sys, blk := blk, fresh := none } [req] =
      { sys := sys.req evs false, blk := blk, fresh := none } := by
  cases req <;> simp [Action.refusedReq] at h
  · exact ⟨_, replay_alloc_fail ..⟩
  · exact ⟨_, replay_realloc_fail ..⟩

/-- a program that ends with one refused request: only the log and the counter move -/
theorem lift_refused {α} (X : Ctx) (g : GM α) (s : St) (req : Action) (res : Except Panic α)
    (hg : g (hsOf s.v s.sys.allocIdx) = (res, (hsOf s.v s.sys.allocIdx).refused req))
    (hreq : req.refusedReq = true) :
    ∃ evs, VM.lift X g s = (res, { s with sys := s.sys.req evs false }) := by
  have hsame : withHdr (hsOf s.v s.sys.allocIdx) s.v.blk = s.v := rfl
  have hacts : (hsOf s.v s.sys.allocIdx).acts = [] := rfl
  obtain ⟨evs, hev⟩ := refusedReq_replay X.c s.sys s.v.blk req hreq
  refine ⟨evs, ?_⟩
  rw [lift_run, hg]
  simp only [GS.refused, hacts, List.nil_append, hev]
  show (_, ({ sys := _, v := withHdr (hsOf s.v s.sys.allocIdx) s.v.blk } : St)) = _
  rw [hsame]

/-- a program that ends having allocated the first block of a never-allocated handle -/
theorem lift_grown_alloc {α} (X : Ctx) (g : GM α) (s : St) (c a : Nat) (L : Layout) (res : Except Panic α)
    (h : Abs X s.v []) (hd : s.v.isDefault = true) (hLy : make_layout X.env c a = .ok L)
    (hg : g (hsOf s.v s.sys.allocIdx) = (res, (hsOf s.v s.sys.allocIdx).grown c a (.alloc L.size L.align))) :
    ∃ v' evs, VM.lift X g s = (res, { sys := s.sys.req evs true, v := v' }) ∧ Abs X v' [] ∧
      v'.isDefault = false ∧ v'.cap = c ∧ v'.align = a ∧ v'.len = 0 := by
  have hL : (hsOf s.v s.sys.allocIdx).L = 0 := by have := h.len_eq (k := s.sys.allocIdx); simpa using this
  have hacts : (hsOf s.v s.sys.allocIdx).acts = [] := rfl
  have hblk : s.v.blk = none := (h.sentinel hd).1
  have hLa : L.align = a := (make_layout_honest _ _ _ _ hLy).2.1
  have hLeq : (⟨L.size, a⟩ : Layout) = L := by cases L; simp at hLa ⊢; exact hLa.symm
  rw [lift_run, hg]
  simp only [GS.grown, hacts, List.nil_append, hblk, replay_alloc_install]
  refine ⟨_, _, rfl, ?_, rfl, rfl, rfl, by simp [withHdr, hL]⟩
  refine ⟨h.elem_pos, fun hx => by simp [withHdr] at hx, fun _ => ⟨_, rfl, ?_, ?_, ?_, ?_, ?_⟩⟩
  · simp only [withHdr]; rw [hLy, hLa, hLeq]
  · simp
  · simp [withHdr, hL]
  · simp [withHdr, hL]
  · intro i hi; simp [withHdr, hL] at hi

/-- a program that ends having reallocated the block, quoting its recorded layout -/
theorem lift_grown_realloc {α} (X : Ctx) (g : GM α) (s : St) (es : List Elem) (c : Nat) (L L0 : Layout)
    (res : Except Panic α) (h : Abs X s.v es) (hd : s.v.isDefault = false)
    (hLy : make_layout X.env c s.v.align = .ok L) (hL0 : make_layout X.env s.v.cap s.v.align = .ok L0)
    (hlen : es.length ≤ c)
    (hg : g (hsOf s.v s.sys.allocIdx) =
      (res, (hsOf s.v s.sys.allocIdx).grown c s.v.align (.realloc L0.size L0.align L.size))) :
    ∃ v' evs, VM.lift X g s = (res, { sys := s.sys.req evs true, v := v' }) ∧ Abs X v' es ∧
      v'.isDefault = false ∧ v'.cap = c ∧ v'.align = s.v.align ∧ v'.len = es.length := by
  have hacts : (hsOf s.v s.sys.allocIdx).acts = [] := rfl
  obtain ⟨b, hb, hl, hsl, hlc, hel, hinit⟩ := h.alloc hd
  have hb0 : b.lay = L0 := by rw [hl] at hL0; exact Except.ok.inj hL0
  have hLa : L.align = s.v.align := (make_layout_honest _ _ _ _ hLy).2.1
  have hLeq : (⟨L.size, s.v.align⟩ : Layout) = L := by cases L; simp at hLa ⊢; exact hLa.symm
  have hbl : b.lay.align = s.v.align := (make_layout_honest _ _ _ _ hl).2.1
  have hLv : (hsOf s.v s.sys.allocIdx).L = s.v.len := by simp [GS.L, hsOf, hd]
  rw [lift_run, hg]
  simp only [GS.grown, hacts, List.nil_append, hb, ← hb0, replay_realloc_install]
  refine ⟨_, _, rfl, ?_, rfl, rfl, rfl, by simp only [withHdr]; rw [hLv]; exact hel.symm⟩
  have hphys : c ≤ physSlots X.c ⟨L.size, b.lay.align⟩ := by
    have := physSlots_ge X.env c s.v.align L hLy h.elem_pos
    rw [hbl, hLeq]; exact this
  have hold : s.v.cap ≤ b.slots.length := by rw [hsl]; exact physSlots_ge X.env _ _ _ hl h.elem_pos
  refine ⟨h.elem_pos, fun hx => by simp [withHdr] at hx, fun _ => ⟨_, rfl, ?_, ?_, ?_, ?_, ?_⟩⟩
  · simp only [withHdr]; rw [hLy, hbl, hLeq]
  · simp only; rw [resizeSlots_length]
  · simp only [withHdr]; rw [hLv]; omega
  · simp only [withHdr]; rw [hLv]; exact hel
  · intro i hi
    simp only [withHdr] at hi ⊢
    rw [hLv] at hi
    rw [resizeSlots_get _ _ _ (by omega) (by omega)]
    exact hinit i hi

/-- `grow` itself ends in one of the shapes (when called with the handle's own alignment) -/
theorem grow_shape (E : Env) (gs : GS) (c a : Nat) (hf : gs.fresh = none) (hlen : gs.L ≤ c)
    (ha : gs.isDefault = false → a = gs.align) :
    GShape E gs (grow E c a gs).2 ∧
    (∀ req, (grow E c a gs).2 = gs.refused req → req.refusedReq = true) := by
  have hne : ∀ req, gs = gs.refused req → False := by
    intro req hq
    have : gs.allocIdx = (gs.refused req).allocIdx := by rw [← hq]
    simp [GS.refused] at this
  rw [grow_spec E gs c a hf, if_neg (by omega)]
  by_cases h2 : c = gs.C ∧ a = gs.A E
  · rw [if_pos h2]; exact ⟨.same, fun req hr => (hne req hr).elim⟩
  · rw [if_neg h2]
    cases hLy : make_layout E c a with
    | error p => exact ⟨.same, fun req hr => (hne req hr).elim⟩
    | ok L =>
      cases hd : gs.isDefault with
      | true =>
        simp only [if_true]
        cases hr : allocRefused E gs L.size with
        | true =>
          simp only [if_true]
          refine ⟨.refused _, fun req hq => ?_⟩
          have : (gs.refused (.allocFail L.size L.align)).acts = (gs.refused req).acts := by rw [hq]
          simp [GS.refused] at this
          subst this; rfl
        | false =>
          simp only [Bool.false_eq_true, if_false]
          refine ⟨.grownAlloc c a L hd hLy, fun req hq => ?_⟩
          exfalso
          have : (gs.grown c a (.alloc L.size L.align)).acts = (gs.refused req).acts := by rw [hq]
          simp [GS.grown, GS.refused] at this
      | false =>
        have haa := ha hd
        subst haa
        simp only [Bool.false_eq_true, if_false]
        cases hL0 : make_layout E gs.cap gs.align with
        | error p => exact ⟨.same, fun req hr => (hne req hr).elim⟩
        | ok L0 =>
          cases hr : allocRefused E gs L.size with
          | true =>
            simp only [if_true]
            refine ⟨.refused _, fun req hq => ?_⟩
            have : (gs.refused (.reallocFail L0.size L0.align L.size)).acts = (gs.refused req).acts := by rw [hq]
            simp [GS.refused] at this
            subst this; rfl
          | false =>
            simp only [Bool.false_eq_true, if_false]
            refine ⟨.grownRealloc c L L0 hd hLy hL0 hlen, fun req hq => ?_⟩
            exfalso
            have : (gs.grown c gs.align (.realloc L0.size L0.align L.size)).acts = (gs.refused req).acts := by rw [hq]
            simp [GS.grown, GS.refused] at this

/-! ### element access on a well-formed block -/

theorem rd_abs (X : Ctx) (s : St) (es : List Elem) (h : Abs X s.v es) (hd : s.v.isDefault = false)
    (i : Nat) (hi : i < es.length) :
    VM.rd (.at (dataOff s.v.align)) i s = (.ok es[i], s) := by
  obtain ⟨b, hb, hl, hs, hlc, hel, hinit⟩ := h.alloc hd
  have hal : b.lay.align = s.v.align := (make_layout_honest _ _ _ _ hl).2.1
  have := hinit i (by omega)
  unfold VM.rd VM.blockAt
  simp [hb, hal, this, List.getElem?_eq_getElem hi]

/-- `pop`: returns the last element, the rest stays; on an empty vector `None` and nothing moves -/
theorem pop_spec (X : Ctx) (s : St) (es : List Elem) (h : Abs X s.v es) :
    (es = [] → Vec.pop X s = (.ok none, s)) ∧
    (∀ es' e, es = es' ++ [e] →
       ∃ v', Vec.pop X s = (.ok (some e), { s with v := v' }) ∧ Abs X v' es' ∧ v'.blk = s.v.blk ∧ v'.cap = s.v.cap) := by
  have hL : (hsOf s.v s.sys.allocIdx).L = es.length := h.len_eq
  constructor
  · intro he
    subst he
    have h1 : VM.lift X (pop_pre X.env) s = (.ok (.ret 0), s) :=
      lift_read X _ s _ (by rw [pop_pre_run, hL]; rfl)
    unfold Vec.pop
    simp only [VM.bind_run, h1, VM.pure_run]
  · intro es' e he
    have hd : s.v.isDefault = false := by
      cases hd : s.v.isDefault
      · rfl
      · have := (h.sentinel hd).2; subst he; simp at this
    obtain ⟨b, hb, hl, hs, hlc, hel, hinit⟩ := h.alloc hd
    have hlen : es.length = es'.length + 1 := by subst he; simp
    have hLv : s.v.len = es'.length + 1 := by omega
    have h1 : VM.lift X (pop_pre X.env) s = (.ok (.cont ⟨es.length⟩), s) :=
      lift_read X _ s _ (by rw [pop_pre_run, hL]; simp [hlen])
    have h2 : VM.lift X (as_ptr X.env) s = (.ok (.at (dataOff s.v.align)), s) :=
      lift_read X _ s _ (as_ptr_run X.env _ hd b.lay s.v.cap hl)
    have hi : es.length - 1 < es.length := by omega
    have h3 := rd_abs X s es h hd _ hi
    have h4 := lift_set_len X (es.length - 1) s hd
    have hlast : es[es.length - 1] = e := by subst he; simp
    refine ⟨{ s.v with len := es'.length }, ?_, ?_, rfl, rfl⟩
    · unfold Vec.pop
      simp only [VM.bind_run, h1, h2, h3, h4, VM.pure_run, hlast]
      simp [hlen]
    · refine ⟨h.elem_pos, fun hd' => by simp [hd] at hd', fun _ => ⟨b, hb, hl, hs, by simp; omega, by simp, ?_⟩⟩
      intro i hi
      simp only at hi
      have := hinit i (by omega)
      rw [this, he, List.getElem?_append_left hi]

/-! ### push -/

theorem data_state (E : Env) (g : GS) : (data E g).2 = g := by
  unfold data
  simp only [GM.bind_run, GM.isDefault_run, GM.debugAssert, alignment_run, GM.liftE_run, GM.pure_run]
  cases hd : g.isDefault with
  | true => simp
  | false =>
    simp
    cases next_aligned E hdrSize (g.A E) <;> rfl

/-- the grow decision of `push` -/
def pushGrow (E : Env) (gs : GS) : Except Panic Unit × GS :=
  if gs.L = gs.C then
    (match next_capacity E gs.C with
     | .error p => (.error p, gs)
     | .ok nc => grow E nc (gs.A E) gs)
  else (.ok (), gs)

/-- (for a handle with `len ≤ capacity` — every well-formed one — so that the statement does not depend on whether the
    code tests "full" as `len == capacity` or as `len >= capacity`) -/
theorem push_pre_run (E : Env) (gs : GS) (hlc : gs.L ≤ gs.C) :
    push_pre E gs =
      match pushGrow E gs with
      | (.error p, g1) => (.error p, g1)
      | (.ok _, g1) =>
        (match data E g1 with
         | (.ok d, g2) => (.ok (.cont ⟨gs.C, gs.A E, g1.L, d⟩), g2)
         | (.error p, g2) => (.error p, g2)) := by
  unfold push_pre pushGrow
  simp only [len_run, capacity_run, alignment_run, GM.bind_run, GM.ite_run, beq_iff_eq, GM.liftE_run,
    GM.pure_run, decide_eq_true_eq]
  by_cases hfull : gs.L = gs.C
  · simp only [hfull, ge_iff_le, Nat.le_refl, if_true]
    cases hn : next_capacity E gs.C with
    | error p => rfl
    | ok nc =>
      simp only
      cases hg : grow E nc (gs.A E) gs with
      | mk r g1 =>
        cases r with
        | error p => rfl
        | ok u =>
          simp only [len_run]
          cases data E g1 with
          | mk r2 g2 => cases r2 <;> rfl
  · have hlt : ¬ gs.L ≥ gs.C := by omega
    simp only [hfull, hlt, if_false, len_run]
    cases data E gs with
    | mk r2 g2 => cases r2 <;> rfl

theorem pushGrow_shape (E : Env) (gs : GS) (hf : gs.fresh = none) (hlc : gs.L ≤ gs.C) :
    GShape E gs (pushGrow E gs).2 ∧
    (∀ req, (pushGrow E gs).2 = gs.refused req → req.refusedReq = true) := by
  have hne : ∀ req, gs = gs.refused req → False := by
    intro req hq
    have : gs.allocIdx = (gs.refused req).allocIdx := by rw [← hq]
    simp [GS.refused] at this
  unfold pushGrow
  by_cases hfull : gs.L = gs.C
  · simp only [hfull, if_true]
    cases hn : next_capacity E gs.C with
    | error p => exact ⟨.same, fun req hr => (hne req hr).elim⟩
    | ok nc =>
      have hgt : gs.C < nc := by
        rw [next_capacity_eq] at hn; split at hn <;> simp at hn
        have := growFig_gt E.c gs.C; omega
      apply grow_shape E gs nc _ hf (by omega)
      intro hd; simp [GS.A, hd]
  · simp only [hfull, if_false]
    exact ⟨.same, fun req hr => (hne req hr).elim⟩

theorem wr_abs (X : Ctx) (s : St) (es : List Elem) (h : Abs X s.v es) (hd : s.v.isDefault = false)
    (b : Blk) (hb : s.v.blk = some b) (i : Nat) (hi : i < b.slots.length) (e : Elem) :
    VM.wr (.at (dataOff s.v.align)) i e s =
      (.ok (), { s with v := { s.v with blk := some { b with slots := b.slots.set i (some e) } } }) := by
  obtain ⟨b', hb', hl, _, _, _, _⟩ := h.alloc hd
  rw [hb] at hb'; cases hb'
  have hal : b.lay.align = s.v.align := (make_layout_honest _ _ _ _ hl).2.1
  unfold VM.wr VM.blockAt VM.putBlock
  simp [hb, hal, hi]

/-- a capacity the allocator granted is far below `usize::MAX` -/
theorem Abs.cap_lt_W {X : Ctx} {v : VSt} {es : List Elem} (h : Abs X v es) (hd : v.isDefault = false) :
    v.cap < W := by
  obtain ⟨b, _, hl, _, _, _, _⟩ := h.alloc hd
  obtain ⟨h1, _, h3⟩ := make_layout_honest _ _ _ _ hl
  have hz := h.elem_pos
  have : v.cap ≤ v.cap * X.c.elemSize := Nat.le_mul_of_pos_right _ hz
  have hW : ISIZE_MAX < W := by decide
  simp only [Ctx.env] at h1
  omega

theorem hdrLenAdd_run (X : Ctx) (s : St) (n : Nat) (hd : s.v.isDefault = false) (hlt : s.v.len + n < W) :
    Vec.hdrLenAdd X n s = (.ok (), { s with v := { s.v with len := s.v.len + n } }) := by
  unfold Vec.hdrLenAdd
  rw [lift_run]
  simp [GM.hdrLen, GM.setHdrLen, hsOf, hd, uadd, hlt, replay, replay1, withHdr]

/-- the element write and length bump that end `push` -/
theorem push_tail (X : Ctx) (s : St) (es : List Elem) (e : Elem) (h : Abs X s.v es)
    (hd : s.v.isDefault = false) (hroom : s.v.len < s.v.cap) :
    ∃ v', (do VM.wr (.at (dataOff s.v.align)) s.v.len e; Vec.hdrLenAdd X 1 : VM Unit) s =
        (.ok (), { s with v := v' }) ∧ Abs X v' (es ++ [e]) ∧ v'.cap = s.v.cap ∧ v'.align = s.v.align ∧
        v'.isDefault = false := by
  obtain ⟨b, hb, hl, hs, hlc, hel, hinit⟩ := h.alloc hd
  have hcapb : s.v.cap ≤ b.slots.length := by rw [hs]; exact physSlots_ge X.env _ _ _ hl h.elem_pos
  have hi : s.v.len < b.slots.length := by omega
  have h1 := wr_abs X s es h hd b hb s.v.len hi e
  have hW := h.cap_lt_W hd
  refine ⟨{ s.v with blk := some { b with slots := b.slots.set s.v.len (some e) }, len := s.v.len + 1 }, ?_, ?_, rfl, rfl, hd⟩
  · simp only [VM.bind_run, h1]
    exact hdrLenAdd_run X _ 1 hd (by show s.v.len + 1 < W; omega)
  · refine ⟨h.elem_pos, fun hx => by simp [hd] at hx, fun _ => ⟨_, rfl, hl, by simp [hs], by simp; omega, by simp [hel], ?_⟩⟩
    intro i hi'
    simp only at hi' ⊢
    by_cases heq : i = s.v.len
    · subst heq
      rw [List.getElem?_set_self hi]
      rw [List.getElem?_append_right (by omega)]
      simp [hel]
    · have hlt : i < s.v.len := by omega
      rw [List.getElem?_set_ne (by omega)]
      rw [hinit i hlt, List.getElem?_append_left (by omega)]

/-- every way the grow decision of `push` can end (explicit states) -/
inductive PushGrow (E : Env) (gs : GS) : Except Panic Unit × GS → Prop
  | room : gs.L < gs.C → PushGrow E gs (.ok (), gs)
  | rejected (p : Panic) : p.unwinding = true → PushGrow E gs (.error p, gs)
  | allocFailed (req : Action) : req.refusedReq = true → PushGrow E gs (.error .allocError, gs.refused req)
  | grownAlloc (nc : Nat) (L : Layout) : gs.isDefault = true → 0 < nc → make_layout E nc (gs.A E) = .ok L →
      PushGrow E gs (.ok (), gs.grown nc (gs.A E) (.alloc L.size L.align))
  | grownRealloc (nc : Nat) (L L0 : Layout) : gs.isDefault = false → gs.L = gs.C → gs.C < nc →
      make_layout E nc gs.align = .ok L → make_layout E gs.cap gs.align = .ok L0 →
      PushGrow E gs (.ok (), gs.grown nc gs.align (.realloc L0.size L0.align L.size))

theorem pushGrow_cases (E : Env) (gs : GS) (hf : gs.fresh = none) (hlc : gs.L ≤ gs.C) :
    PushGrow E gs (pushGrow E gs) := by
  unfold pushGrow
  by_cases hfull : gs.L = gs.C
  · rw [if_pos hfull]
    cases hn : next_capacity E gs.C with
    | error p =>
      rw [next_capacity_eq] at hn; split at hn <;> simp at hn
      subst hn; exact .rejected _ rfl
    | ok nc =>
      have hgt : gs.C < nc := by
        rw [next_capacity_eq] at hn; split at hn <;> simp at hn
        have := growFig_gt E.c gs.C; omega
      simp only
      rw [grow_spec E gs nc (gs.A E) hf, if_neg (by omega), if_neg (by omega)]
      cases hLy : make_layout E nc (gs.A E) with
      | error p => exact .rejected p (make_layout_error_unwinding _ _ _ _ hLy)
      | ok L =>
        cases hd : gs.isDefault with
        | true =>
          simp only [if_true]
          cases hr : allocRefused E gs L.size with
          | true => simp only [if_true]; exact .allocFailed _ rfl
          | false =>
            simp only [Bool.false_eq_true, if_false]
            exact .grownAlloc nc L hd (by omega) hLy
        | false =>
          have hA : gs.A E = gs.align := by simp [GS.A, hd]
          rw [hA] at hLy ⊢
          simp only [Bool.false_eq_true, if_false]
          cases hL0 : make_layout E gs.cap gs.align with
          | error p => exact .rejected p (make_layout_error_unwinding _ _ _ _ hL0)
          | ok L0 =>
            cases hr : allocRefused E gs L.size with
            | true => simp only [if_true]; exact .allocFailed _ rfl
            | false =>
              simp only [Bool.false_eq_true, if_false]
              exact .grownRealloc nc L L0 hd hfull hgt hLy hL0
  · rw [if_neg hfull]; exact .room (by omega)

theorem unwinds_eq (p : Panic) : VM.unwinds p = p.unwinding := by cases p <;> rfl

/-- a stop the safety theorems allow: unwinding panic, allocation-failure abort, double-panic abort -/
def Panic.benign : Panic → Bool
  | .overflow | .divZero | .explicit | .allocError | .doublePanic => true
  | _ => false

theorem dropElem_v (X : Ctx) (e : Elem) (s : St) :
    ((VM.dropElem X e s).2.v = s.v) ∧
    ((VM.dropElem X e s).1 = .ok () ∨ (VM.dropElem X e s).1 = .error .explicit) := by
  unfold VM.dropElem
  cases X.c.needsDrop with
  | false => simp
  | true =>
    simp only [if_true, VM.bind_run, VM.emit, VM.callback]
    split <;> simp

theorem dropAll_v (X : Ctx) (es : List Elem) (s : St) :
    ((VM.dropAll X es s).2.v = s.v) ∧
    ((VM.dropAll X es s).1 = .ok () ∨ (VM.dropAll X es s).1 = .error .explicit ∨
     (VM.dropAll X es s).1 = .error .doublePanic) := by
  induction es generalizing s with
  | nil => simp [VM.dropAll]
  | cons e es ih =>
    unfold VM.dropAll VM.guarded
    have hd := dropElem_v X e s
    cases hde : VM.dropElem X e s with
    | mk r s1 =>
      rw [hde] at hd
      simp only at hd
      have ih1 := ih s1
      cases r with
      | ok u =>
        simp only
        cases hda : VM.dropAll X es s1 with
        | mk r2 s2 =>
          rw [hda] at ih1; simp only at ih1
          cases r2 with
          | ok u2 => exact ⟨by rw [ih1.1, hd.1], .inl rfl⟩
          | error q =>
            refine ⟨by rw [ih1.1, hd.1], ?_⟩
            rcases ih1.2 with h | h | h <;> simp at h <;> subst h <;> simp
      | error p =>
        have hp : p = .explicit := by rcases hd.2 with h | h <;> simp at h; exact h
        subst hp
        simp only [VM.unwinds, if_true]
        cases hda : VM.dropAll X es s1 with
        | mk r2 s2 =>
          rw [hda] at ih1; simp only at ih1
          cases r2 with
          | ok u2 => exact ⟨by rw [ih1.1, hd.1], .inr (.inl rfl)⟩
          | error q =>
            refine ⟨by rw [ih1.1, hd.1], ?_⟩
            rcases ih1.2 with h | h | h <;> simp at h <;> subst h <;> simp [VM.unwinds]

/-- the ways `x` wrapped in `ownArgs` can end, given how `x` ends -/
theorem ownArgs_ok {α} (X : Ctx) (args : List Elem) (x : VM α) (s s1 : St) (a : α)
    (h : x s = (.ok a, s1)) : VM.ownArgs X args x s = (.ok a, s1) := by
  unfold VM.ownArgs; rw [h]

theorem ownArgs_err {α} (X : Ctx) (args : List Elem) (x : VM α) (s s1 : St) (p : Panic)
    (h : x s = (.error p, s1)) (hb : Panic.benign p = true) :
    ∃ q s2, VM.ownArgs X args x s = ((.error q : Except Panic α), s2) ∧ s2.v = s1.v ∧ Panic.benign q = true := by
  unfold VM.ownArgs; rw [h]
  simp only
  by_cases hu : VM.unwinds p = true
  · rw [if_pos hu]
    have hd := dropAll_v X args s1
    cases hda : VM.dropAll X args s1 with
    | mk r s2 =>
      rw [hda] at hd; simp only at hd
      cases r with
      | ok u => exact ⟨p, s2, rfl, hd.1, hb⟩
      | error q =>
        refine ⟨_, s2, rfl, hd.1, ?_⟩
        rcases hd.2 with h | h | h <;> simp at h <;> subst h <;> simp [VM.unwinds, Panic.benign]
  · rw [if_neg hu]; exact ⟨p, s1, rfl, rfl, hb⟩

/-- every way `push` can end on a well-formed handle -/
inductive PushRes (X : Ctx) (s : St) (es : List Elem) (e : Elem) : Except Panic Unit × St → Prop
  | pushed (s' : St) : Abs X s'.v (es ++ [e]) → s'.v.isDefault = false → PushRes X s es e (.ok (), s')
  | stopped (p : Panic) (s' : St) : s'.v = s.v → Panic.benign p = true → PushRes X s es e (.error p, s')

theorem unwinding_benign (p : Panic) (h : p.unwinding = true) : Panic.benign p = true := by
  cases p <;> simp [Panic.unwinding] at h <;> rfl

/-- `push`: either the element is appended (everything else in place), or the call stops — by a
    capacity-overflow panic or the allocation-failure abort — with the vector exactly as before;
    never an illegal access, a failed internal assertion or a hang. -/
theorem push_spec (X : Ctx) (s : St) (es : List Elem) (e : Elem) (h : Abs X s.v es) :
    PushRes X s es e (Vec.push X e s) := by
  have hL : (hsOf s.v s.sys.allocIdx).L = es.length := h.len_eq
  have hlc : (hsOf s.v s.sys.allocIdx).L ≤ (hsOf s.v s.sys.allocIdx).C := by
    cases hd : s.v.isDefault with
    | true => simp [GS.L, GS.C, hsOf, hd]
    | false =>
      obtain ⟨_, _, _, _, hlc, _, _⟩ := h.alloc hd
      simp [GS.L, GS.C, hsOf, hd, hlc]
  have hpg := pushGrow_cases X.env (hsOf s.v s.sys.allocIdx) rfl hlc
  have hrun := push_pre_run X.env (hsOf s.v s.sys.allocIdx) hlc
  unfold Vec.push
  simp only [VM.bind_run]
  generalize hout : pushGrow X.env (hsOf s.v s.sys.allocIdx) = out at hpg hrun
  cases hpg with
  | room hroom =>
    have hd : s.v.isDefault = false := by
      cases hd : s.v.isDefault
      · rfl
      · simp [GS.L, GS.C, hsOf, hd] at hroom
    obtain ⟨b, hb, hl, hs, hlc', hel, hinit⟩ := h.alloc hd
    have hdat := data_run X.env (hsOf s.v s.sys.allocIdx) hd b.lay s.v.cap hl
    simp only [hdat] at hrun
    have h1 : VM.lift X (push_pre X.env) s = (.ok (.cont ⟨_, _, _, _⟩), s) := lift_read X _ s _ hrun
    rw [ownArgs_ok X [e] _ s s _ h1]
    simp only
    have hroom' : s.v.len < s.v.cap := by simpa [GS.L, GS.C, hsOf, hd] using hroom
    obtain ⟨v', ht, habs, _, _, hd'⟩ := push_tail X s es e h hd hroom'
    have hLv : (hsOf s.v s.sys.allocIdx).L = s.v.len := by simp [GS.L, hsOf, hd]
    have hal : (hsOf s.v s.sys.allocIdx).align = s.v.align := rfl
    simp only [hLv, hal]
    rw [ht]
    exact .pushed _ habs hd'
  | rejected p hp =>
    simp only at hrun
    have h1 : VM.lift X (push_pre X.env) s = (.error p, s) := lift_read X _ s _ hrun
    obtain ⟨q, s2, ho, hv, hq⟩ := ownArgs_err (α := Flow Env_push) X [e] _ s s p h1 (unwinding_benign p hp)
    rw [ho]
    exact .stopped q s2 hv hq
  | allocFailed req hreq =>
    simp only at hrun
    obtain ⟨evs, h1⟩ := lift_refused X (push_pre X.env) s req _ hrun hreq
    obtain ⟨q, s2, ho, hv, hq⟩ := ownArgs_err (α := Flow Env_push) X [e] _ s _ .allocError h1 rfl
    rw [ho]
    exact .stopped q s2 (by rw [hv]) hq
  | grownAlloc nc L hd hnc hLy =>
    have hd' : s.v.isDefault = true := hd
    have hnil : es = [] := (h.sentinel hd').2
    subst hnil
    have hdat := data_run X.env ((hsOf s.v s.sys.allocIdx).grown nc ((hsOf s.v s.sys.allocIdx).A X.env) (.alloc L.size L.align))
      rfl L nc (by simpa [GS.grown] using hLy)
    simp only [hdat] at hrun
    obtain ⟨v', evs, h1, habs, hvd, hvc, hva, hvl⟩ := lift_grown_alloc X (push_pre X.env) s nc _ L _ h hd' hLy hrun
    rw [ownArgs_ok X [e] _ s _ _ h1]
    simp only
    have hroom' : v'.len < v'.cap := by omega
    obtain ⟨v2, ht, habs2, _, _, hd2⟩ := push_tail X { sys := s.sys.req evs true, v := v' } [] e habs hvd hroom'
    have e1 : ((hsOf s.v s.sys.allocIdx).grown nc ((hsOf s.v s.sys.allocIdx).A X.env) (.alloc L.size L.align)).L = v'.len := by
      rw [grown_L, hL, hvl]; rfl
    have e2 : ((hsOf s.v s.sys.allocIdx).grown nc ((hsOf s.v s.sys.allocIdx).A X.env) (.alloc L.size L.align)).align = v'.align := by
      simp [GS.grown, hva]
    simp only [e1, e2]
    rw [ht]
    exact .pushed _ habs2 hd2
  | grownRealloc nc L L0 hd hfull hgt hLy hL0 =>
    have hd' : s.v.isDefault = false := hd
    have hal : (hsOf s.v s.sys.allocIdx).align = s.v.align := rfl
    have hcp : (hsOf s.v s.sys.allocIdx).cap = s.v.cap := rfl
    have hC : (hsOf s.v s.sys.allocIdx).C = s.v.cap := by simp [GS.C, hsOf, hd']
    rw [hal] at hLy hL0
    rw [hcp] at hL0
    have hdat := data_run X.env ((hsOf s.v s.sys.allocIdx).grown nc s.v.align (.realloc L0.size L0.align L.size))
      rfl L nc (by simpa [GS.grown] using hLy)
    simp only [hal, hdat] at hrun
    obtain ⟨v', evs, h1, habs, hvd, hvc, hva, hvl⟩ :=
      lift_grown_realloc X (push_pre X.env) s es nc L L0 _ h hd' hLy hL0 (by rw [← hL, hfull, hC] ; omega) hrun
    rw [ownArgs_ok X [e] _ s _ _ h1]
    simp only
    have hroom' : v'.len < v'.cap := by rw [hvl, hvc, ← hL, hfull, hC]; omega
    obtain ⟨v2, ht, habs2, _, _, hd2⟩ := push_tail X { sys := s.sys.req evs true, v := v' } es e habs hvd hroom'
    have e1 : ((hsOf s.v s.sys.allocIdx).grown nc s.v.align (.realloc L0.size L0.align L.size)).L = v'.len := by
      rw [grown_L, hL, hvl]
    have e2 : ((hsOf s.v s.sys.allocIdx).grown nc s.v.align (.realloc L0.size L0.align L.size)).align = v'.align := by
      simp [GS.grown, hva]
    simp only [e1, e2]
    rw [ht]
    exact .pushed _ habs2 hd2

/-- lowering the recorded length exposes a prefix (the slots behind it keep their bits) -/
theorem Abs.shorten {X : Ctx} {v : VSt} {es : List Elem} (h : Abs X v es) (n : Nat) (hn : n ≤ es.length)
    (hd : v.isDefault = false) : Abs X { v with len := n } (es.take n) := by
  obtain ⟨b, hb, hl, hs, hlc, hel, hinit⟩ := h.alloc hd
  refine ⟨h.elem_pos, fun hx => by simp [hd] at hx, fun _ => ⟨b, hb, hl, hs, by simp; omega, by simp; omega, ?_⟩⟩
  intro i hi
  simp only at hi
  rw [hinit i (by omega), List.getElem?_take_of_lt hi]

/-- the (only) events a run adds are the ones listed: used to state "no allocator traffic" and
    "nothing destroyed" -/
def newEvents (s s' : St) : List Ev := s'.sys.tr.drop s.sys.tr.length

end MV

import MiniVecProof.Proofs.Mem
/-
  T-MEM: refinement lemmas for the element operations (hand-written pointer model on top of the
  regenerated decision programs).
-/
namespace MV
open MV.Gen MV.GM VM

/-! ### generated accessors on the header machine -/

theorem data_run (E : Env) (g : GS) (hd : g.isDefault = false) (L : Layout) (c : Nat)
    (hL : make_layout E c g.align = .ok L) :
    data E g = (.ok (.at (dataOff g.align)), g) := by
  obtain ⟨_, hp, hs⟩ := make_layout_ok E c g.align L hL
  have hpos := isPow2_pos _ hp
  have hW : hdrSize < W := by decide
  have hlt : alignUp hdrSize g.align < W := by
    have : dataOff g.align ≤ totalSize E.c c g.align := by unfold totalSize; omega
    unfold dataOff at this
    have h2 : ISIZE_MAX + 1 < W := by decide
    omega
  unfold data
  simp [hd, GM.debugAssert, GS.A, next_aligned_eq _ _ _ hpos hW, hlt, dataOff]

theorem as_ptr_run (E : Env) (g : GS) (hd : g.isDefault = false) (L : Layout) (c : Nat)
    (hL : make_layout E c g.align = .ok L) :
    as_ptr E g = (.ok (.at (dataOff g.align)), g) := by
  unfold as_ptr
  simp [hd, data_run E g hd L c hL]

theorem as_mut_ptr_run (E : Env) (g : GS) (hd : g.isDefault = false) (L : Layout) (c : Nat)
    (hL : make_layout E c g.align = .ok L) :
    as_mut_ptr E g = (.ok (.at (dataOff g.align)), g) := by
  unfold as_mut_ptr
  simp [hd, data_run E g hd L c hL]

theorem as_ptr_run_default (E : Env) (g : GS) (hd : g.isDefault = true) : as_ptr E g = (.ok .null, g) := by
  unfold as_ptr; simp [hd]
theorem as_mut_ptr_run_default (E : Env) (g : GS) (hd : g.isDefault = true) :
    as_mut_ptr E g = (.ok .null, g) := by
  unfold as_mut_ptr; simp [hd]

theorem pop_pre_run (E : Env) (g : GS) :
    pop_pre E g = if g.L = 0 then (.ok (.ret 0), g) else (.ok (.cont ⟨g.L⟩), g) := by
  unfold pop_pre
  simp only [len_run, GM.bind_run, GM.ite_run, beq_iff_eq, GM.pure_run]

/-! ### `lift` on the state-changing header programs -/

theorem lift_set_len (X : Ctx) (n : Nat) (s : St) (hd : s.v.isDefault = false) :
    VM.lift X (set_len X.env n) s = (.ok (), { s with v := { s.v with len := n } }) := by
  rw [lift_run]
  simp [set_len, GM.setHdrLen, hsOf, hd, replay, replay1, withHdr]

/-- what a `grow` through `lift` can do to a well-formed handle -/
inductive GrowMem (X : Ctx) (s : St) (es : List Elem) (c a : Nat) : Except Panic Unit × St → Prop
  | noop : (hsOf s.v s.sys.allocIdx).C = c → GrowMem X s es c a (.ok (), s)
  | rejected (p : Panic) : unwinds p = true → GrowMem X s es c a (.error p, s)
  | allocFailed (evs : List Ev) : GrowMem X s es c a (.error .allocError, { s with sys := s.sys.req evs false })
  | grown (v' : VSt) (evs : List Ev) : Abs X v' es → v'.isDefault = false → v'.cap = c → v'.align = a →
      v'.len = es.length → GrowMem X s es c a (.ok (), { sys := s.sys.req evs true, v := v' })

theorem make_layout_error_unwinds (E : Env) (c a : Nat) (p : Panic) (h : make_layout E c a = .error p) :
    unwinds p = true := by
  -- every failing step of `make_layout` is a division by zero or an explicit panic
  have hW : hdrSize < W := by decide
  have hna : ∀ n, n < W → ∀ q, next_aligned E n a = .error q → unwinds q = true := by
    intro n hn q hq
    by_cases ha : a = 0
    · subst ha; rw [next_aligned_zero] at hq; cases hq; rfl
    · rw [next_aligned_eq _ _ _ (Nat.pos_of_ne_zero ha) hn] at hq
      split at hq <;> simp at hq; subst hq; rfl
  have hexp : ∀ {α} (o : Option α) (q : Panic), expectSome o = .error q → unwinds q = true := by
    intro α o q hq; cases o <;> simp [expectSome] at hq; subst hq; rfl
  unfold make_layout at h
  by_cases hc : c = 0
  · simp only [hc, beq_self_eq_true, if_true] at h
    cases h1 : next_aligned E hdrSize a with
    | error q => simp [h1] at h; subst h; exact hna _ hW _ h1
    | ok v => simp [h1] at h; exact hexp _ _ h
  · simp only [show (c == 0) = false by simp [hc], Bool.false_eq_true, if_false] at h
    cases h2 : expectSome (checkedMul c E.c.elemSize) with
    | error q => simp [h2] at h; subst h; exact hexp _ _ h2
    | ok v2 =>
      have hv2 : v2 < W := by
        rw [expectSome_eq_ok] at h2; unfold checkedMul at h2; split at h2 <;> simp at h2; omega
      simp [h2] at h
      cases h3 : next_aligned E hdrSize a with
      | error q => simp [h3] at h; subst h; exact hna _ hW _ h3
      | ok v3 =>
        simp [h3] at h
        cases h4 : next_aligned E v2 a with
        | error q => simp [h4] at h; subst h; exact hna _ hv2 _ h4
        | ok v4 =>
          simp [h4] at h
          cases h5 : expectSome (checkedAdd v3 v4) with
          | error q => simp [h5] at h; subst h; exact hexp _ _ h5
          | ok v5 => simp [h5] at h; exact hexp _ _ h

/-- the header-machine states a decision program built around one `grow` can end in -/
inductive GShape (E : Env) (gs : GS) : GS → Prop
  | same : GShape E gs gs
  | refused (req : Action) : GShape E gs (gs.refused req)
  | grownAlloc (c a : Nat) (L : Layout) : gs.isDefault = true → make_layout E c a = .ok L →
      GShape E gs (gs.grown c a (.alloc L.size L.align))
  | grownRealloc (c : Nat) (L L0 : Layout) : gs.isDefault = false → make_layout E c gs.align = .ok L →
      make_layout E gs.cap gs.align = .ok L0 → gs.L ≤ c →
      GShape E gs (gs.grown c gs.align (.realloc L0.size L0.align L.size))

/-- the matching memory states -/
inductive MemAfter (X : Ctx) (s : St) (es : List Elem) : GS → St → Prop
  | same : MemAfter X s es (hsOf s.v s.sys.allocIdx) s
  | refused (req : Action) (evs : List Ev) :
      MemAfter X s es ((hsOf s.v s.sys.allocIdx).refused req) { s with sys := s.sys.req evs false }
  | grown (c a : Nat) (req : Action) (v' : VSt) (evs : List Ev) : Abs X v' es → v'.isDefault = false →
      v'.cap = c → v'.align = a → v'.len = es.length →
      MemAfter X s es ((hsOf s.v s.sys.allocIdx).grown c a req) { sys := s.sys.req evs true, v := v' }

theorem refusedReq_replay (c : Cfg) (sys : Sys) (blk : Option Blk) (req : Action) (h : req.refusedReq = true) :
    ∃ evs, replay c { sys := sys, blk := blk, fresh := none } [req] =
      { sys := sys.req evs false, blk := blk, fresh := none } := by
  cases req <;> simp [Action.refusedReq] at h
  · exact ⟨_, replay_alloc_fail ..⟩
  · exact ⟨_, replay_realloc_fail ..⟩

/-- Any decision program whose final header state has one of the `grow` shapes acts on a
    well-formed handle like `grow` does: elements preserved, the block quoted correctly. -/
theorem lift_shape {α} (X : Ctx) (g : GM α) (s : St) (es : List Elem) (h : Abs X s.v es)
    (hs : GShape X.env (hsOf s.v s.sys.allocIdx) (g (hsOf s.v s.sys.allocIdx)).2)
    (hreq : ∀ req, (g (hsOf s.v s.sys.allocIdx)).2 = (hsOf s.v s.sys.allocIdx).refused req → req.refusedReq = true) :
    ∃ s', VM.lift X g s = ((g (hsOf s.v s.sys.allocIdx)).1, s') ∧
      MemAfter X s es (g (hsOf s.v s.sys.allocIdx)).2 s' := by
  have hL : (hsOf s.v s.sys.allocIdx).L = es.length := h.len_eq
  have hsame : withHdr (hsOf s.v s.sys.allocIdx) s.v.blk = s.v := rfl
  have hacts : (hsOf s.v s.sys.allocIdx).acts = [] := rfl
  rw [lift_run]
  generalize hout : g (hsOf s.v s.sys.allocIdx) = out at hs hreq
  obtain ⟨res, gs'⟩ := out
  simp only at hs hreq ⊢
  cases hs with
  | same =>
    refine ⟨s, ?_, .same⟩
    simp only [hacts, replay, List.foldl_nil]
    rw [hsame]; rfl
  | refused req =>
    obtain ⟨evs, hev⟩ := refusedReq_replay X.c s.sys s.v.blk req (hreq req rfl)
    refine ⟨{ s with sys := s.sys.req evs false }, ?_, .refused req evs⟩
    simp only [GS.refused, hacts, List.nil_append, hev]
    show (_, ({ sys := _, v := withHdr (hsOf s.v s.sys.allocIdx) s.v.blk } : St)) = _
    rw [hsame]
  | grownAlloc c a L hd hLy =>
    have hd' : s.v.isDefault = true := hd
    have hnil : es = [] := (h.sentinel hd').2
    have hblk : s.v.blk = none := (h.sentinel hd').1
    have hLa : L.align = a := (make_layout_honest _ _ _ _ hLy).2.1
    have hLeq : (⟨L.size, a⟩ : Layout) = L := by cases L; simp at hLa ⊢; exact hLa.symm
    simp only [GS.grown, hacts, List.nil_append, hblk, replay_alloc_install]
    refine ⟨_, rfl, .grown c a _ _ _ ?_ rfl rfl rfl (by simp [withHdr, hL, hnil])⟩
    subst hnil
    refine ⟨h.elem_pos, fun hx => by simp [withHdr] at hx, fun _ => ⟨_, rfl, ?_, ?_, ?_, ?_, ?_⟩⟩
    · simp only [withHdr]; rw [hLy, hLa, hLeq]
    · simp
    · simp [withHdr, hL]
    · simp [withHdr, hL]
    · intro i hi; simp [withHdr, hL] at hi
  | grownRealloc c L L0 hd hLy hL0 hlen =>
    have hd' : s.v.isDefault = false := hd
    obtain ⟨b, hb, hl, hsl, hlc, hel, hinit⟩ := h.alloc hd'
    have hal : (hsOf s.v s.sys.allocIdx).align = s.v.align := rfl
    have hcp : (hsOf s.v s.sys.allocIdx).cap = s.v.cap := rfl
    rw [hal] at hLy hL0
    rw [hcp] at hL0
    have hb0 : b.lay = L0 := by rw [hl] at hL0; exact Except.ok.inj hL0
    have hLa : L.align = s.v.align := (make_layout_honest _ _ _ _ hLy).2.1
    have hLeq : (⟨L.size, s.v.align⟩ : Layout) = L := by cases L; simp at hLa ⊢; exact hLa.symm
    have hbl : b.lay.align = s.v.align := (make_layout_honest _ _ _ _ hl).2.1
    have hLv : (hsOf s.v s.sys.allocIdx).L = s.v.len := by simp [GS.L, hsOf, hd']
    simp only [GS.grown, hacts, List.nil_append, hb, ← hb0, replay_realloc_install]
    refine ⟨_, rfl, .grown c _ _ _ _ ?_ rfl rfl rfl (by simp only [withHdr]; rw [hLv]; exact hel.symm)⟩
    have hphys : c ≤ physSlots X.c ⟨L.size, b.lay.align⟩ := by
      have := physSlots_ge X.env c s.v.align L hLy h.elem_pos
      rw [hbl, hLeq]; exact this
    have hold : s.v.cap ≤ b.slots.length := by rw [hsl]; exact physSlots_ge X.env _ _ _ hl h.elem_pos
    refine ⟨h.elem_pos, fun hx => by simp [withHdr] at hx, fun _ => ⟨_, rfl, ?_, ?_, ?_, ?_, ?_⟩⟩
    · simp only [withHdr]; rw [hal, hLy, hbl, hLeq]
    · simp only; rw [resizeSlots_length]
    · simp only [withHdr]; rw [hLv] at hlen ⊢; omega
    · simp only [withHdr]; rw [hLv]; exact hel
    · intro i hi
      simp only [withHdr] at hi ⊢
      rw [hLv] at hi hlen
      rw [resizeSlots_get _ _ _ (by omega) (by omega)]
      exact hinit i hi

/-- `grow` itself ends in one of the shapes (when called with the handle's own alignment) -/
theorem grow_shape (E : Env) (gs : GS) (c a : Nat) (hf : gs.fresh = none) (hlen : gs.L ≤ c)
    (ha : gs.isDefault = false → a = gs.align) :
    GShape E gs (grow E c a gs).2 ∧
    (∀ req, (grow E c a gs).2 = gs.refused req → req.refusedReq = true) := by
  have hne : ∀ req, gs = gs.refused req → False := by
    intro req hq
    have : gs.allocIdx = (gs.refused req).allocIdx := by rw [← hq]
    simp [GS.refused] at this
  rw [grow_spec E gs c a hf, if_neg (by omega)]
  by_cases h2 : c = gs.C ∧ a = gs.A E
  · rw [if_pos h2]; exact ⟨.same, fun req hr => (hne req hr).elim⟩
  · rw [if_neg h2]
    cases hLy : make_layout E c a with
    | error p => exact ⟨.same, fun req hr => (hne req hr).elim⟩
    | ok L =>
      cases hd : gs.isDefault with
      | true =>
        simp only [if_true]
        cases hr : allocRefused E gs L.size with
        | true =>
          simp only [if_true]
          refine ⟨.refused _, fun req hq => ?_⟩
          have : (gs.refused (.allocFail L.size L.align)).acts = (gs.refused req).acts := by rw [hq]
          simp [GS.refused] at this
          subst this; rfl
        | false =>
          simp only [Bool.false_eq_true, if_false]
          refine ⟨.grownAlloc c a L hd hLy, fun req hq => ?_⟩
          exfalso
          have : (gs.grown c a (.alloc L.size L.align)).acts = (gs.refused req).acts := by rw [hq]
          simp [GS.grown, GS.refused] at this
      | false =>
        have haa := ha hd
        subst haa
        simp only [Bool.false_eq_true, if_false]
        cases hL0 : make_layout E gs.cap gs.align with
        | error p => exact ⟨.same, fun req hr => (hne req hr).elim⟩
        | ok L0 =>
          cases hr : allocRefused E gs L.size with
          | true =>
            simp only [if_true]
            refine ⟨.refused _, fun req hq => ?_⟩
            have : (gs.refused (.reallocFail L0.size L0.align L.size)).acts = (gs.refused req).acts := by rw [hq]
            simp [GS.refused] at this
            subst this; rfl
          | false =>
            simp only [Bool.false_eq_true, if_false]
            refine ⟨.grownRealloc c L L0 hd hLy hL0 hlen, fun req hq => ?_⟩
            exfalso
            have : (gs.grown c gs.align (.realloc L0.size L0.align L.size)).acts = (gs.refused req).acts := by rw [hq]
            simp [GS.grown, GS.refused] at this

/-! ### element access on a well-formed block -/

theorem rd_abs (X : Ctx) (s : St) (es : List Elem) (h : Abs X s.v es) (hd : s.v.isDefault = false)
    (i : Nat) (hi : i < es.length) :
    VM.rd (.at (dataOff s.v.align)) i s = (.ok es[i], s) := by
  obtain ⟨b, hb, hl, hs, hlc, hel, hinit⟩ := h.alloc hd
  have hal : b.lay.align = s.v.align := (make_layout_honest _ _ _ _ hl).2.1
  have := hinit i (by omega)
  unfold VM.rd VM.blockAt
  simp [hb, hal, this, List.getElem?_eq_getElem hi]

/-- `pop`: returns the last element, the rest stays; on an empty vector `None` and nothing moves -/
theorem pop_spec (X : Ctx) (s : St) (es : List Elem) (h : Abs X s.v es) :
    (es = [] → Vec.pop X s = (.ok none, s)) ∧
    (∀ es' e, es = es' ++ [e] →
       ∃ v', Vec.pop X s = (.ok (some e), { s with v := v' }) ∧ Abs X v' es' ∧ v'.blk = s.v.blk ∧ v'.cap = s.v.cap) := by
  have hL : (hsOf s.v s.sys.allocIdx).L = es.length := h.len_eq
  constructor
  · intro he
    subst he
    have h1 : VM.lift X (pop_pre X.env) s = (.ok (.ret 0), s) :=
      lift_read X _ s _ (by rw [pop_pre_run, hL]; rfl)
    unfold Vec.pop
    simp only [VM.bind_run, h1, VM.pure_run]
  · intro es' e he
    have hd : s.v.isDefault = false := by
      cases hd : s.v.isDefault
      · rfl
      · have := (h.sentinel hd).2; subst he; simp at this
    obtain ⟨b, hb, hl, hs, hlc, hel, hinit⟩ := h.alloc hd
    have hlen : es.length = es'.length + 1 := by subst he; simp
    have hLv : s.v.len = es'.length + 1 := by omega
    have h1 : VM.lift X (pop_pre X.env) s = (.ok (.cont ⟨es.length⟩), s) :=
      lift_read X _ s _ (by rw [pop_pre_run, hL]; simp [hlen])
    have h2 : VM.lift X (as_ptr X.env) s = (.ok (.at (dataOff s.v.align)), s) :=
      lift_read X _ s _ (as_ptr_run X.env _ hd b.lay s.v.cap hl)
    have hi : es.length - 1 < es.length := by omega
    have h3 := rd_abs X s es h hd _ hi
    have h4 := lift_set_len X (es.length - 1) s hd
    have hlast : es[es.length - 1] = e := by subst he; simp
    refine ⟨{ s.v with len := es'.length }, ?_, ?_, rfl, rfl⟩
    · unfold Vec.pop
      simp only [VM.bind_run, h1, h2, h3, h4, VM.pure_run, hlast]
      simp [hlen]
    · refine ⟨h.elem_pos, fun hd' => by simp [hd] at hd', fun _ => ⟨b, hb, hl, hs, by simp; omega, by simp, ?_⟩⟩
      intro i hi
      simp only at hi
      have := hinit i (by omega)
      rw [this, he, List.getElem?_append_left hi]

end MV

import MiniVecProof.Proofs.GenProps
import MiniVecProof.Model.Vec
/-
  T-MEM infrastructure: well-formed storage, how `VM.lift` acts on it, and the element-access
  primitives on a well-formed block.
-/
namespace MV
open MV.Gen MV.GM VM

@[simp] theorem VM.bind_run {α β} (x : VM α) (f : α → VM β) (s : St) :
    (x >>= f) s = match x s with | (.ok a, s') => f a s' | (.error e, s') => (.error e, s') := rfl
@[simp] theorem VM.pure_run {α} (a : α) (s : St) : (pure a : VM α) s = (.ok a, s) := rfl
@[simp] theorem VM.ite_run {α} (c : Prop) [Decidable c] (x y : VM α) (s : St) :
    (if c then x else y) s = if c then x s else y s := by split <;> rfl
@[simp] theorem VM.throw_run {α} (p : Panic) (s : St) : (VM.throw p : VM α) s = (.error p, s) := rfl
@[simp] theorem VM.getV_run (s : St) : VM.getV s = (.ok s.v, s) := rfl
@[simp] theorem VM.setV_run (v : VSt) (s : St) : VM.setV v s = (.ok (), { s with v := v }) := rfl
@[simp] theorem VM.modifyV_run (f : VSt → VSt) (s : St) : VM.modifyV f s = (.ok (), { s with v := f s.v }) := rfl

/-- the header machine's view of a handle -/
def hsOf (v : VSt) (allocIdx : Nat) : GS :=
  { isDefault := v.isDefault, len := v.len, cap := v.cap, align := v.align, allocIdx := allocIdx }

/-- the handle after a decision program ended in header state `g` with block `b` -/
def withHdr (g : GS) (b : Option Blk) : VSt :=
  { isDefault := g.isDefault, len := g.len, cap := g.cap, align := g.align, blk := b }

theorem lift_run {α} (X : Ctx) (g : GM α) (s : St) :
    VM.lift X g s =
      (let out := g (hsOf s.v s.sys.allocIdx)
       let r := replay X.c { sys := s.sys, blk := s.v.blk, fresh := none } out.2.acts
       if r.bad then (.error .ub, { sys := r.sys, v := withHdr out.2 r.blk })
       else (out.1, { sys := r.sys, v := withHdr out.2 r.blk })) := rfl

/-- a decision program that leaves the header machine exactly as it found it (pure reads) leaves
    the memory state alone -/
theorem lift_read {α} (X : Ctx) (g : GM α) (s : St) (a : Except Panic α)
    (h : g (hsOf s.v s.sys.allocIdx) = (a, hsOf s.v s.sys.allocIdx)) : VM.lift X g s = (a, s) := by
  rw [lift_run, h]
  simp [replay, hsOf, withHdr]

/-- physical room of a block laid out for capacity `c` -/
theorem physSlots_ge (E : Env) (c a : Nat) (L : Layout) (h : make_layout E c a = .ok L)
    (hz : 0 < E.c.elemSize) : c ≤ physSlots E.c L := by
  obtain ⟨h1, h2, _⟩ := make_layout_honest E c a L h
  unfold physSlots
  rw [h2]
  have : c * E.c.elemSize ≤ L.size - dataOff a := by omega
  exact (Nat.le_div_iff_mul_le hz).mpr this

/-- `Abs X v es`: the handle `v` is well formed (`StoreWF`, `CapOK`, `AlignOK` of DESIGN.md §3.6
    for one handle) and exposes exactly the elements `es`. -/
structure Abs (X : Ctx) (v : VSt) (es : List Elem) : Prop where
  elem_pos : 0 < X.c.elemSize
  sentinel : v.isDefault = true → v.blk = none ∧ es = []
  alloc : v.isDefault = false → ∃ b, v.blk = some b ∧
      make_layout X.env v.cap v.align = .ok b.lay ∧
      b.slots.length = physSlots X.c b.lay ∧
      v.len ≤ v.cap ∧ es.length = v.len ∧
      (∀ i, i < v.len → b.slots[i]? = some es[i]?)

theorem Abs.sentinel_abs (X : Ctx) (h : 0 < X.c.elemSize) : Abs X {} [] :=
  ⟨h, fun _ => ⟨rfl, rfl⟩, fun h => by cases h⟩

/-- what `len()` reports is the number of exposed elements -/
theorem Abs.len_eq {X : Ctx} {v : VSt} {es : List Elem} (h : Abs X v es) :
    (hsOf v k).L = es.length := by
  unfold GS.L hsOf
  cases hd : v.isDefault with
  | true => simp [(h.sentinel hd).2]
  | false =>
    obtain ⟨b, _, _, _, _, hl, _⟩ := h.alloc hd
    simp [hl]

/-- the block has room for `cap` elements -/
theorem Abs.cap_le {X : Ctx} {v : VSt} {es : List Elem} (h : Abs X v es) (hd : v.isDefault = false) :
    ∃ b, v.blk = some b ∧ v.cap ≤ b.slots.length ∧ v.len ≤ v.cap := by
  obtain ⟨b, hb, hl, hs, hlc, _, _⟩ := h.alloc hd
  exact ⟨b, hb, by rw [hs]; exact physSlots_ge X.env _ _ _ hl h.elem_pos, hlc⟩

/-! ### replaying the actions of `grow` -/

theorem resizeSlots_length (xs : List Slot) (n : Nat) : (resizeSlots xs n).length = n := by
  unfold resizeSlots; simp; omega

theorem resizeSlots_get (xs : List Slot) (n i : Nat) (h1 : i < n) (h2 : i < xs.length) :
    (resizeSlots xs n)[i]? = xs[i]? := by
  unfold resizeSlots
  rw [List.getElem?_append_left (by simp; omega)]
  simp [List.getElem?_take, h1]

/-- the system state after one more allocator request was logged -/
def Sys.req (sys : Sys) (evs : List Ev) (newBlock : Bool) : Sys :=
  { sys with tr := sys.tr ++ evs, allocIdx := sys.allocIdx + 1,
             nextBid := if newBlock then sys.nextBid + 1 else sys.nextBid }

theorem replay_alloc_install (c : Cfg) (sys : Sys) (sz al : Nat) (h : HeaderV) :
    replay c { sys := sys, blk := none, fresh := none } [.alloc sz al, .install h] =
      { sys := sys.req [.alloc sz al] true,
        blk := some { bid := sys.nextBid, lay := ⟨sz, al⟩, slots := List.replicate (physSlots c ⟨sz, al⟩) none },
        fresh := none } := by
  simp [replay, replay1, Sys.req]

theorem replay_realloc_install (c : Cfg) (sys : Sys) (b : Blk) (ns : Nat) (h : HeaderV) :
    replay c { sys := sys, blk := some b, fresh := none } [.realloc b.lay.size b.lay.align ns, .install h] =
      { sys := sys.req [.realloc b.lay.size b.lay.align ns] true,
        blk := some { bid := sys.nextBid, lay := ⟨ns, b.lay.align⟩,
                      slots := resizeSlots b.slots (physSlots c ⟨ns, b.lay.align⟩) },
        fresh := none } := by
  simp [replay, replay1, Sys.req]

theorem replay_alloc_fail (c : Cfg) (sys : Sys) (blk : Option Blk) (sz al : Nat) :
    replay c { sys := sys, blk := blk, fresh := none } [.allocFail sz al] =
      { sys := sys.req [.alloc sz al, .allocFail] false, blk := blk, fresh := none } := by
  simp [replay, replay1, Sys.req]

theorem replay_realloc_fail (c : Cfg) (sys : Sys) (blk : Option Blk) (os oa ns : Nat) :
    replay c { sys := sys, blk := blk, fresh := none } [.reallocFail os oa ns] =
      { sys := sys.req [.realloc os oa ns, .allocFail] false, blk := blk, fresh := none } := by
  simp [replay, replay1, Sys.req]

end MV

import MiniVecProof.Proofs.MemDrainFilter
import MiniVecProof.Proofs.MemWrite
/-
  T-MEM: steps on a vector whose recorded length is smaller than what its block holds (the state a
  `Splice` works in): `Abs X { v with len := m } cur` describes the first `m` slots of the block.
-/
namespace MV
open MV.Gen MV.GM VM

theorem Abs.cap_le_isize {X : Ctx} {v : VSt} {es : List Elem} (h : Abs X v es) (hd : v.isDefault = false) :
    v.cap ≤ ISIZE_MAX := by
  obtain ⟨b, _, hl, _, _, _, _⟩ := h.alloc hd
  obtain ⟨h1, _, h3⟩ := make_layout_honest _ _ _ _ hl
  have hz := h.elem_pos
  have : v.cap ≤ v.cap * X.c.elemSize := Nat.le_mul_of_pos_right _ hz
  simp only [Ctx.env] at h1
  omega

/-- writing one described slot, whatever the recorded length is -/
theorem wr_full (X : Ctx) (s : St) (m : Nat) (cur : List Elem) (h : Abs X { s.v with len := m } cur)
    (hd : s.v.isDefault = false) (i : Nat) (hi : i < cur.length) (e : Elem) :
    ∃ v', VM.wr (.at (dataOff s.v.align)) i e s = (.ok (), { s with v := v' }) ∧
      Abs X { v' with len := m } (cur.set i e) ∧ v'.cap = s.v.cap ∧ v'.isDefault = false ∧ v'.align = s.v.align ∧
      v'.len = s.v.len ∧ v'.blk.map (·.bid) = s.v.blk.map (·.bid) := by
  obtain ⟨b, hb, hl, hsl, hlc, hel, hinit⟩ := h.alloc hd
  simp only at hb hl hlc hel hinit
  have hal : b.lay.align = s.v.align := (make_layout_honest _ _ _ _ hl).2.1
  have hcapb : s.v.cap ≤ b.slots.length := by rw [hsl]; exact physSlots_ge X.env _ _ _ hl h.elem_pos
  have h1 := wr_blk s b hb i (by omega) e
  rw [hal] at h1
  refine ⟨_, h1, ?_, rfl, hd, rfl, rfl, by simp [hb]⟩
  refine ⟨h.elem_pos, fun hx => by simp [hd] at hx, fun _ => ⟨_, rfl, hl, by simpa using hsl, hlc, by simpa using hel, ?_⟩⟩
  intro j hj
  simp only [List.getElem?_set]
  by_cases hji : i = j
  · subst hji; simp [show i < b.slots.length by omega, hi]
  · simp [hji]; exact hinit j hj

/-- a `grow` that reallocated recorded exactly the capacity it was asked for -/
theorem grow_grown_cap (E : Env) (gs : GS) (c a c' a' : Nat) (req : Action) (r : Except Panic Unit) (hf : gs.fresh = none)
    (hlen : gs.L ≤ c) (h : grow E c a gs = (r, gs.grown c' a' req)) : c' = c := by
  have hne : gs ≠ gs.grown c' a' req := by
    intro hq
    have : gs.acts = (gs.grown c' a' req).acts := by rw [← hq]
    simp [GS.grown] at this
  have hne2 : ∀ rq, gs.refused rq ≠ gs.grown c' a' req := by
    intro rq hq
    have : (gs.refused rq).acts = (gs.grown c' a' req).acts := by rw [hq]
    simp [GS.refused, GS.grown] at this
  rw [grow_spec E gs c a hf, if_neg (by omega)] at h
  by_cases h2 : c = gs.C ∧ a = gs.A E
  · rw [if_pos h2] at h; exact absurd (Prod.mk.inj h).2 hne
  · rw [if_neg h2] at h
    cases hLy : make_layout E c a with
    | error p => rw [hLy] at h; exact absurd (Prod.mk.inj h).2 hne
    | ok L =>
      rw [hLy] at h
      simp only at h
      cases hd : gs.isDefault with
      | true =>
        rw [hd] at h
        simp only [if_true] at h
        cases hr : allocRefused E gs L.size with
        | true => rw [hr] at h; simp only [if_true] at h; exact absurd (Prod.mk.inj h).2 (hne2 _)
        | false =>
          rw [hr] at h; simp only [Bool.false_eq_true, if_false] at h
          have := congrArg GS.cap (Prod.mk.inj h).2
          simpa [GS.grown] using this.symm
      | false =>
        rw [hd] at h
        simp only [Bool.false_eq_true, if_false] at h
        cases hL0 : make_layout E gs.cap a with
        | error p => rw [hL0] at h; exact absurd (Prod.mk.inj h).2 hne
        | ok L0 =>
          rw [hL0] at h
          simp only at h
          cases hr : allocRefused E gs L.size with
          | true => rw [hr] at h; simp only [if_true] at h; exact absurd (Prod.mk.inj h).2 (hne2 _)
          | false =>
            rw [hr] at h; simp only [Bool.false_eq_true, if_false] at h
            have := congrArg GS.cap (Prod.mk.inj h).2
            simpa [GS.grown] using this.symm

/-- `grow(c, align)` with `c` at least the number of described slots: they all survive; when nothing
    happens the capacity already was `c` -/
theorem grow_full (X : Ctx) (s : St) (m c : Nat) (cur : List Elem) (h : Abs X { s.v with len := m } cur)
    (hd : s.v.isDefault = false) (hlen : s.v.len ≤ m) (hmc : m ≤ c) :
    (VM.lift X (grow X.env c s.v.align) s = (.ok (), s) ∧ c = s.v.cap) ∨
    (∃ p s', VM.lift X (grow X.env c s.v.align) s = (.error p, s') ∧ Panic.benign p = true ∧ s'.v = s.v) ∨
    (∃ v' evs, VM.lift X (grow X.env c s.v.align) s = (.ok (), { sys := s.sys.req evs true, v := v' }) ∧
      Abs X { v' with len := m } cur ∧ v'.isDefault = false ∧ v'.cap = c ∧ v'.align = s.v.align ∧ v'.len = s.v.len) := by
  obtain ⟨b, hb, hl, hsl, hlc, hel, hinit⟩ := h.alloc hd
  simp only at hb hl hlc hel hinit
  let gs := hsOf s.v s.sys.allocIdx
  have hgL : gs.L = s.v.len := by simp [gs, GS.L, hsOf, hd]
  have hgC : gs.C = s.v.cap := by simp [gs, GS.C, hsOf, hd]
  have hgd : gs.isDefault = false := hd
  have hspec := grow_spec X.env gs c s.v.align rfl
  rw [if_neg (by rw [hgL]; omega)] at hspec
  by_cases h2 : c = gs.C ∧ s.v.align = gs.A X.env
  · rw [if_pos h2] at hspec
    exact .inl ⟨lift_read X _ s _ hspec, by rw [← hgC]; exact h2.1⟩
  · rw [if_neg h2] at hspec
    cases hLy : make_layout X.env c s.v.align with
    | error p =>
      rw [hLy] at hspec
      exact .inr (.inl ⟨p, s, lift_read X _ s _ hspec, unwinding_benign p (make_layout_error_unwinding _ _ _ _ hLy), rfl⟩)
    | ok L =>
      rw [hLy] at hspec
      simp only [hgd, Bool.false_eq_true, if_false] at hspec
      have hl2 : make_layout X.env gs.cap s.v.align = .ok b.lay := hl
      rw [hl2] at hspec
      simp only at hspec
      cases hr : allocRefused X.env gs L.size with
      | true =>
        rw [hr] at hspec
        simp only [if_true] at hspec
        obtain ⟨evs, hl'⟩ := lift_refused X _ s _ _ hspec rfl
        exact .inr (.inl ⟨_, _, hl', rfl, rfl⟩)
      | false =>
        rw [hr] at hspec
        simp only [Bool.false_eq_true, if_false] at hspec
        have hacts : gs.acts = [] := rfl
        have hLa : L.align = s.v.align := (make_layout_honest _ _ _ _ hLy).2.1
        have hLeq : (⟨L.size, s.v.align⟩ : Layout) = L := by cases L; simp at hLa ⊢; exact hLa.symm
        have hbl : b.lay.align = s.v.align := (make_layout_honest _ _ _ _ hl).2.1
        refine .inr (.inr ?_)
        rw [lift_run, hspec]
        simp only [GS.grown, hacts, List.nil_append, hb, replay_realloc_install]
        refine ⟨_, _, rfl, ?_, rfl, rfl, rfl, by simp only [withHdr]; exact hgL⟩
        have hphys : c ≤ physSlots X.c ⟨L.size, b.lay.align⟩ := by
          have := physSlots_ge X.env c s.v.align L hLy h.elem_pos
          rw [hbl, hLeq]; exact this
        have hold : s.v.cap ≤ b.slots.length := by rw [hsl]; exact physSlots_ge X.env _ _ _ hl h.elem_pos
        refine ⟨h.elem_pos, fun hx => by simp [withHdr] at hx, fun _ => ⟨_, rfl, ?_, ?_, ?_, ?_, ?_⟩⟩
        · simp only [withHdr]; rw [hLy, hbl, hLeq]
        · simp only; rw [resizeSlots_length]
        · simp only [withHdr]; omega
        · simp only [withHdr]; exact hel
        · intro i hi
          simp only [withHdr] at hi ⊢
          rw [resizeSlots_get _ _ _ (by omega) (by omega)]
          exact hinit i hi

end MV

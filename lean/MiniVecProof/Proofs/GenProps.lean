import MiniVecProof.Proofs.GenCap
/-
  Consequences of the outcome classification used by several property files.
-/
namespace MV.Gen
open MV MV.GM

/-- the requests a run appended to the log -/
def newActs (s s' : GS) : List Action := s'.acts.drop s.acts.length

/-- Postcondition shared by every capacity-changing program: either the header is untouched
    (nothing happened, or the request was refused / the allocator failed), or the vector now has
    capacity exactly `c`, alignment `a`, its old length, and a block that was asked for with a size
    that really holds `c` elements. -/
structure CapPost (E : Env) (s : GS) (r : Except Panic Unit) (s' : GS) : Prop where
  fresh : s'.fresh = none
  err_unchanged : ∀ p, r = .error p → s.sameHdr s'
  no_fuel : r ≠ .error .fuel
  ok_shape : r = .ok () →
    s' = s ∨ (∃ c a req L, make_layout E c a = .ok L ∧ req.asksFor L.size a ∧ s.L ≤ c ∧
                s' = s.grown c a req)

theorem GS.refused_sameHdr (s : GS) (req : Action) : s.sameHdr (s.refused req) :=
  ⟨rfl, rfl, rfl, rfl, rfl⟩

theorem GrowOutcome.capPost {E : Env} {s : GS} {c a : Nat} {x : Except Panic Unit × GS}
    (hf : s.fresh = none) (h : GrowOutcome E s c a x) : CapPost E s x.1 x.2 := by
  cases h with
  | noop h1 h2 =>
    exact ⟨hf, fun p hp => by simp at hp, by simp, fun _ => .inl rfl⟩
  | rejected p h1 h2 h3 =>
    exact ⟨hf, fun _ _ => GS.sameHdr_refl s, by simpa using h2, fun hp => by simp at hp⟩
  | allocFailed req L hL hreq hk =>
    exact ⟨hf, fun _ _ => GS.refused_sameHdr s req, by simp, fun hp => by simp at hp⟩
  | grown req L hL hlen hreq hk hr =>
    exact ⟨rfl, fun p hp => by simp at hp, by simp, fun _ => .inr ⟨c, a, req, L, hL, hreq, hlen, rfl⟩⟩

theorem grow_capPost (E : Env) (s : GS) (c a : Nat) (hf : s.fresh = none) :
    CapPost E s (grow E c a s).1 (grow E c a s).2 :=
  (grow_cases E s c a hf).capPost hf

theorem capPost_refl_ok (E : Env) (s : GS) (hf : s.fresh = none) : CapPost E s (.ok ()) s :=
  ⟨hf, fun p hp => by simp at hp, by simp, fun _ => .inl rfl⟩

theorem capPost_refl_explicit (E : Env) (s : GS) (hf : s.fresh = none) :
    CapPost E s (.error .explicit) s :=
  ⟨hf, fun _ _ => GS.sameHdr_refl s, by simp, fun hp => by simp at hp⟩

theorem reserve_capPost (E : Env) (n : Nat) (s : GS) (hf : s.fresh = none) :
    CapPost E s (reserve E n s).1 (reserve E n s).2 := by
  rw [reserve_spec]
  cases hc : checkedAdd s.L n with
  | none => exact capPost_refl_explicit E s hf
  | some tot =>
    simp only
    by_cases ht : tot ≤ s.C
    · simp only [ht, if_true]; exact capPost_refl_ok E s hf
    · simp only [ht, if_false]
      cases hr : reserveTarget E tot s.C with
      | error p =>
        have := reserveTarget_error E tot s.C p hr
        subst this
        exact capPost_refl_explicit E s hf
      | ok nc => exact grow_capPost E s nc _ hf

theorem reserve_exact_capPost (E : Env) (n : Nat) (s : GS) (hf : s.fresh = none) :
    CapPost E s (reserve_exact E n s).1 (reserve_exact E n s).2 := by
  rw [reserve_exact_spec]
  cases hc : checkedAdd s.L n with
  | none => exact capPost_refl_explicit E s hf
  | some tot =>
    simp only
    by_cases ht : tot ≤ s.C
    · simp only [ht, if_true]; exact capPost_refl_ok E s hf
    · simp only [ht, if_false]; exact grow_capPost E s tot _ hf

theorem shrink_to_fit_capPost (E : Env) (s : GS) (hf : s.fresh = none) :
    CapPost E s (shrink_to_fit E s).1 (shrink_to_fit E s).2 := by
  rw [shrink_to_fit_spec]
  by_cases h : s.L = s.C
  · simp only [h, if_true]; exact capPost_refl_ok E s hf
  · simp only [h, if_false]; exact grow_capPost E s _ _ hf

theorem shrink_to_capPost (E : Env) (m : Nat) (s : GS) (hf : s.fresh = none) :
    CapPost E s (shrink_to E m s).1 (shrink_to E m s).2 := by
  rw [shrink_to_spec]
  by_cases h1 : m < s.L
  · simp only [h1, if_true]; exact shrink_to_fit_capPost E s hf
  · simp only [h1, if_false]
    by_cases h2 : s.C = m
    · simp only [h2, if_true]; exact capPost_refl_ok E s hf
    · simp only [h2, if_false]
      by_cases h3 : s.C < m
      · simp only [h3, if_true]; exact capPost_refl_explicit E s hf
      · simp only [h3, if_false]; exact grow_capPost E s _ _ hf

/-! ### what the figures are on success -/

theorem grown_C (s : GS) (c a : Nat) (req : Action) : (s.grown c a req).C = c := by simp [GS.grown, GS.C]
theorem grown_L (s : GS) (c a : Nat) (req : Action) : (s.grown c a req).L = s.L := by simp [GS.grown, GS.L]
theorem grown_A (E : Env) (s : GS) (c a : Nat) (req : Action) : (s.grown c a req).A E = a := by
  simp [GS.grown, GS.A]

/-- a successful `grow` ends with exactly the requested capacity and alignment and the old length -/
theorem grow_ok_figures (E : Env) (s s' : GS) (c a : Nat) (hf : s.fresh = none)
    (h : grow E c a s = (.ok (), s')) : s'.C = c ∧ s'.L = s.L ∧ s'.A E = a := by
  have hc := grow_cases E s c a hf
  rw [h] at hc
  cases hc with
  | noop h1 h2 => exact ⟨h1.symm, rfl, h2.symm⟩
  | grown req L hL hlen hreq hk hr => exact ⟨grown_C .., grown_L .., grown_A ..⟩

end MV.Gen

import MiniVecProof.Proofs.MemDrop
/-
  T-MEM: the capacity-changing methods on the memory model.
-/
namespace MV
open MV.Gen MV.GM VM

/-- every way a capacity-changing decision program can end (explicit header states) -/
inductive CapOutcomeR {α : Type} (E : Env) (gs : GS) (val : α) : Except Panic α × GS → Prop
  | same : CapOutcomeR E gs val (.ok val, gs)
  | rejected (p : Panic) : p.unwinding = true → CapOutcomeR E gs val (.error p, gs)
  | allocFailed (req : Action) : req.refusedReq = true → CapOutcomeR E gs val (.error .allocError, gs.refused req)
  | grownAlloc (c a : Nat) (L : Layout) : gs.isDefault = true → make_layout E c a = .ok L →
      CapOutcomeR E gs val (.ok val, gs.grown c a (.alloc L.size L.align))
  | grownRealloc (c : Nat) (L L0 : Layout) : gs.isDefault = false → gs.L ≤ c →
      make_layout E c gs.align = .ok L → make_layout E gs.cap gs.align = .ok L0 →
      CapOutcomeR E gs val (.ok val, gs.grown c gs.align (.realloc L0.size L0.align L.size))

abbrev CapOutcome (E : Env) (gs : GS) := CapOutcomeR E gs ()

/-- `grow` called with the handle's own alignment (as every caller except `with_alignment` does) -/
theorem grow_capOutcome (E : Env) (gs : GS) (c a : Nat) (hf : gs.fresh = none) (hlen : gs.L ≤ c)
    (ha : gs.isDefault = false → a = gs.align) : CapOutcome E gs (grow E c a gs) := by
  rw [grow_spec E gs c a hf, if_neg (by omega)]
  by_cases h2 : c = gs.C ∧ a = gs.A E
  · rw [if_pos h2]; exact .same
  · rw [if_neg h2]
    cases hLy : make_layout E c a with
    | error p => exact .rejected p (make_layout_error_unwinding _ _ _ _ hLy)
    | ok L =>
      cases hd : gs.isDefault with
      | true =>
        simp only [if_true]
        cases hr : allocRefused E gs L.size with
        | true => simp only [if_true]; exact .allocFailed _ rfl
        | false => simp only [Bool.false_eq_true, if_false]; exact .grownAlloc c a L hd hLy
      | false =>
        have haa := ha hd
        subst haa
        simp only [Bool.false_eq_true, if_false]
        cases hL0 : make_layout E gs.cap gs.align with
        | error p => exact .rejected p (make_layout_error_unwinding _ _ _ _ hL0)
        | ok L0 =>
          cases hr : allocRefused E gs L.size with
          | true => simp only [if_true]; exact .allocFailed _ rfl
          | false =>
            simp only [Bool.false_eq_true, if_false]
            exact .grownRealloc c L L0 hd hlen hLy hL0

theorem A_of_alloc (E : Env) (gs : GS) (hd : gs.isDefault = false) : gs.A E = gs.align := by simp [GS.A, hd]

theorem reserveTarget_error_unwinding (E : Env) (tot cap : Nat) (p : Panic)
    (h : reserveTarget E tot cap = .error p) : p.unwinding = true := by
  rw [reserveTarget_error E tot cap p h]; rfl

theorem reserve_capOutcome (E : Env) (gs : GS) (n : Nat) (hf : gs.fresh = none) :
    CapOutcome E gs (reserve E n gs) := by
  rw [reserve_spec]
  cases hc : checkedAdd gs.L n with
  | none => exact .rejected _ rfl
  | some tot =>
    have htot : tot = gs.L + n := by unfold checkedAdd at hc; split at hc <;> simp at hc; omega
    simp only
    by_cases ht : tot ≤ gs.C
    · rw [if_pos ht]; exact .same
    · rw [if_neg ht]
      cases hr : reserveTarget E tot gs.C with
      | error p => exact .rejected p (reserveTarget_error_unwinding _ _ _ _ hr)
      | ok nc =>
        have := (reserveTarget_ok E tot gs.C nc hr).1
        exact grow_capOutcome E gs nc _ hf (by omega) (fun hd => A_of_alloc E gs hd)

theorem reserve_exact_capOutcome (E : Env) (gs : GS) (n : Nat) (hf : gs.fresh = none) :
    CapOutcome E gs (reserve_exact E n gs) := by
  rw [reserve_exact_spec]
  cases hc : checkedAdd gs.L n with
  | none => exact .rejected _ rfl
  | some tot =>
    have htot : tot = gs.L + n := by unfold checkedAdd at hc; split at hc <;> simp at hc; omega
    simp only
    by_cases ht : tot ≤ gs.C
    · rw [if_pos ht]; exact .same
    · rw [if_neg ht]
      exact grow_capOutcome E gs tot _ hf (by omega) (fun hd => A_of_alloc E gs hd)

theorem shrink_to_fit_capOutcome (E : Env) (gs : GS) (hf : gs.fresh = none) :
    CapOutcome E gs (shrink_to_fit E gs) := by
  rw [shrink_to_fit_spec]
  by_cases h : gs.L = gs.C
  · rw [if_pos h]; exact .same
  · rw [if_neg h]
    exact grow_capOutcome E gs gs.L _ hf (Nat.le_refl _) (fun hd => A_of_alloc E gs hd)

theorem shrink_to_capOutcome (E : Env) (gs : GS) (m : Nat) (hf : gs.fresh = none) :
    CapOutcome E gs (shrink_to E m gs) := by
  rw [shrink_to_spec]
  by_cases h1 : m < gs.L
  · rw [if_pos h1]; exact shrink_to_fit_capOutcome E gs hf
  · rw [if_neg h1]
    by_cases h2 : gs.C = m
    · rw [if_pos h2]; exact .same
    · rw [if_neg h2]
      by_cases h3 : gs.C < m
      · rw [if_pos h3]; exact .rejected _ rfl
      · rw [if_neg h3]
        exact grow_capOutcome E gs m _ hf (by omega) (fun hd => A_of_alloc E gs hd)

/-- what a capacity-changing program run through `lift` does to a well-formed handle -/
inductive CapMemR {α : Type} (X : Ctx) (s : St) (es : List Elem) (val : α) : Except Panic α × St → Prop
  | same : CapMemR X s es val (.ok val, s)
  | stopped (p : Panic) (s' : St) : s'.v = s.v → Panic.benign p = true →
      (∀ e ∈ newEvents s s', ∃ a b, e = .alloc a b ∨ e = .allocFail ∨ ∃ c, e = .realloc a b c) →
      CapMemR X s es val (.error p, s')
  | grown (s' : St) : Abs X s'.v es → s'.v.isDefault = false → s'.v.len = es.length →
      s'.sys.nextId = s.sys.nextId → s'.sys.cbIdx = s.sys.cbIdx →
      CapMemR X s es val (.ok val, s')

abbrev CapMem (X : Ctx) (s : St) (es : List Elem) := CapMemR X s es ()

theorem req_events (c : Cfg) (sys : Sys) (blk : Option Blk) (req : Action) (h : req.refusedReq = true) :
    ∃ evs, replay c { sys := sys, blk := blk, fresh := none } [req] =
      { sys := sys.req evs false, blk := blk, fresh := none } ∧
      ∀ e ∈ evs, ∃ a b, e = .alloc a b ∨ e = .allocFail ∨ ∃ c, e = .realloc a b c := by
  cases req <;> simp [Action.refusedReq] at h
  · rename_i sz al
    exact ⟨_, replay_alloc_fail .., by intro e he; simp at he; rcases he with rfl | rfl; exact ⟨sz, al, .inl rfl⟩; exact ⟨0, 0, .inr (.inl rfl)⟩⟩
  · rename_i os oa ns
    exact ⟨_, replay_realloc_fail .., by intro e he; simp at he; rcases he with rfl | rfl; exact ⟨os, oa, .inr (.inr ⟨ns, rfl⟩)⟩; exact ⟨0, 0, .inr (.inl rfl)⟩⟩

theorem lift_cap {α : Type} (X : Ctx) (g : GM α) (val : α) (s : St) (es : List Elem) (h : Abs X s.v es)
    (hg : CapOutcomeR X.env (hsOf s.v s.sys.allocIdx) val (g (hsOf s.v s.sys.allocIdx))) :
    CapMemR X s es val (VM.lift X g s) := by
  have hL : (hsOf s.v s.sys.allocIdx).L = es.length := h.len_eq
  generalize hout : g (hsOf s.v s.sys.allocIdx) = out at hg
  cases hg with
  | same => rw [lift_read X g s _ hout]; exact .same
  | rejected p hp =>
    rw [lift_read X g s _ hout]
    refine .stopped p s rfl (unwinding_benign p hp) ?_
    intro e he; simp [newEvents] at he
  | allocFailed req hreq =>
    obtain ⟨evs, hl⟩ := lift_refused X g s req _ hout hreq
    rw [hl]
    refine .stopped _ _ rfl rfl ?_
    obtain ⟨evs', hev', hall⟩ := req_events X.c s.sys s.v.blk req hreq
    -- the events are those of the single refused request
    have : evs = evs' := by
      have h1 := lift_refused X g s req _ hout hreq
      -- both describe the same replay; compare through the definition
      rw [lift_run, hout] at hl
      simp only [GS.refused] at hl
      have hacts : (hsOf s.v s.sys.allocIdx).acts = [] := rfl
      simp only [hacts, List.nil_append, hev'] at hl
      have := (Prod.mk.inj hl).2
      have hs := congrArg (fun st : St => st.sys.tr) this
      simp [Sys.req] at hs
      exact hs.symm
    subst this
    intro e he
    simp [newEvents, Sys.req] at he
    exact hall e he
  | grownAlloc c a L hd hLy =>
    have hd' : s.v.isDefault = true := hd
    have hnil : es = [] := (h.sentinel hd').2
    subst hnil
    obtain ⟨v', evs, hl, habs, hvd, _, _, hvl⟩ := lift_grown_alloc X g s c a L _ h hd' hLy hout
    rw [hl]; exact .grown _ habs hvd (by simpa using hvl) rfl rfl
  | grownRealloc c L L0 hd hlen hLy hL0 =>
    have hd' : s.v.isDefault = false := hd
    obtain ⟨v', evs, hl, habs, hvd, _, _, hvl⟩ :=
      lift_grown_realloc X g s es c L L0 _ h hd' hLy hL0 (by rw [← hL]; exact hlen) hout
    rw [hl]; exact .grown _ habs hvd hvl rfl rfl

/-- `reserve`, `reserve_exact`, `shrink_to_fit`, `shrink_to` never change what the vector exposes:
    they return with the same elements (possibly in a new, correctly quoted block) or stop benignly
    with the handle untouched. -/
theorem reserve_mem (X : Ctx) (s : St) (es : List Elem) (n : Nat) (h : Abs X s.v es) :
    CapMem X s es (Vec.reserve X n s) := lift_cap X _ () s es h (reserve_capOutcome X.env _ n rfl)
theorem reserve_exact_mem (X : Ctx) (s : St) (es : List Elem) (n : Nat) (h : Abs X s.v es) :
    CapMem X s es (Vec.reserve_exact X n s) := lift_cap X _ () s es h (reserve_exact_capOutcome X.env _ n rfl)
theorem shrink_to_fit_mem (X : Ctx) (s : St) (es : List Elem) (h : Abs X s.v es) :
    CapMem X s es (Vec.shrink_to_fit X s) := lift_cap X _ () s es h (shrink_to_fit_capOutcome X.env _ rfl)
theorem shrink_to_mem (X : Ctx) (s : St) (es : List Elem) (n : Nat) (h : Abs X s.v es) :
    CapMem X s es (Vec.shrink_to X n s) := lift_cap X _ () s es h (shrink_to_capOutcome X.env _ n rfl)

end MV

#print axioms MV.reserve_mem
#print axioms MV.reserve_exact_mem
#print axioms MV.shrink_to_fit_mem
#print axioms MV.shrink_to_mem

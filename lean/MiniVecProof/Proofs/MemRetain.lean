import MiniVecProof.Proofs.MemMove
import MiniVecProof.Proofs.Own
/-
  T-MEM: `retain` under an ARBITRARY predicate (any function of the call number and the element:
  stateful, inconsistent between calls, anything that does not panic).
-/
namespace MV
open MV.Gen MV.GM VM

/-- `Vec::retain` with a predicate that may depend on how often it has been called -/
def keptFrom (f : Vec.Pred1) : Nat → List Elem → List Elem
  | _, [] => []
  | k, e :: es => if f k e then e :: keptFrom f (k + 1) es else keptFrom f (k + 1) es

def rejFrom (f : Vec.Pred1) : Nat → List Elem → List Elem
  | _, [] => []
  | k, e :: es => if f k e then rejFrom f (k + 1) es else e :: rejFrom f (k + 1) es

theorem keptFrom_sublist (f : Vec.Pred1) (k : Nat) (es : List Elem) : (keptFrom f k es).Sublist es := by
  induction es generalizing k with
  | nil => simp [keptFrom]
  | cons e es ih =>
    simp only [keptFrom]
    split
    · exact (ih (k + 1)).cons₂ e
    · exact (ih (k + 1)).cons e

theorem kept_rej_perm (f : Vec.Pred1) (k : Nat) (es : List Elem) : (keptFrom f k es ++ rejFrom f k es).Perm es := by
  induction es generalizing k with
  | nil => simp [keptFrom, rejFrom]
  | cons e es ih =>
    simp only [keptFrom, rejFrom]
    split
    · simpa using (ih (k + 1)).cons e
    · exact (List.perm_middle).trans ((ih (k + 1)).cons e)

theorem sw_blk (s : St) (b : Blk) (hb : s.v.blk = some b) (i j : Nat) (hi : i < b.slots.length) (hj : j < b.slots.length) :
    VM.sw (.at (dataOff b.lay.align)) i j s =
      (.ok (), { s with v := { s.v with blk := some { b with slots := (b.slots.set i b.slots[j]).set j b.slots[i] } } }) := by
  unfold VM.sw VM.blockAt VM.putBlock
  simp [hb, List.getElem?_eq_getElem hi, List.getElem?_eq_getElem hj, VM.modifyV]

/-- swapping two exposed elements -/
theorem sw_abs (X : Ctx) (s : St) (cur : List Elem) (h : Abs X s.v cur) (hd : s.v.isDefault = false) (i j : Nat)
    (hi : i < cur.length) (hj : j < cur.length) :
    ∃ v', VM.sw (.at (dataOff s.v.align)) i j s = (.ok (), { s with v := v' }) ∧
      Abs X v' ((cur.set i cur[j]).set j cur[i]) ∧ v'.cap = s.v.cap ∧ v'.isDefault = false ∧ v'.align = s.v.align ∧
      v'.blk.map (·.bid) = s.v.blk.map (·.bid) := by
  obtain ⟨b, hb, hl, hs, hlc, hel, hinit⟩ := h.alloc hd
  have hal : b.lay.align = s.v.align := (make_layout_honest _ _ _ _ hl).2.1
  have hcapb : s.v.cap ≤ b.slots.length := by rw [hs]; exact physSlots_ge X.env _ _ _ hl h.elem_pos
  have hib : i < b.slots.length := by omega
  have hjb : j < b.slots.length := by omega
  have h1 := sw_blk s b hb i j hib hjb
  rw [hal] at h1
  have gi : b.slots[i] = some cur[i] := by
    have := hinit i (by omega)
    rw [List.getElem?_eq_getElem hib, List.getElem?_eq_getElem hi] at this
    exact Option.some.inj this
  have gj : b.slots[j] = some cur[j] := by
    have := hinit j (by omega)
    rw [List.getElem?_eq_getElem hjb, List.getElem?_eq_getElem hj] at this
    exact Option.some.inj this
  refine ⟨_, h1, ?_, rfl, hd, rfl, by simp [hb]⟩
  refine ⟨h.elem_pos, fun hx => by simp [hd] at hx, fun _ => ⟨_, rfl, hl, by simpa using hs, hlc, by simpa using hel, ?_⟩⟩
  intro idx hidx
  simp only [List.getElem?_set, List.length_set, gi, gj]
  by_cases e1 : j = idx
  · subst e1; simp [hjb, hj]
  · by_cases e2 : i = idx
    · subst e2; simp [e1, hib, hi]
    · simp [e1, e2]; exact hinit idx hidx

theorem afterDrops_own_tr (X : Ctx) (s : St) (es : List Elem) :
    ownEvents ({ afterDrops X s es with v := v' } : St).sys.tr = ownEvents s.sys.tr ++ dropEvents X es := by
  unfold afterDrops dropEvents ownEvents
  cases X.c.needsDrop <;> simp [Ev.isOwn]

theorem callback_quiet (X : Ctx) (hq : ∀ k, X.o.panicAt k = false) (s : St) :
    VM.callback X s = (.ok (), { s with sys := { s.sys with cbIdx := s.sys.cbIdx + 1 } }) := by
  simp [VM.callback, hq]

/-- pure list fact behind the swap of `retain` -/
theorem retain_swap_list (kept rt rest : List Elem) (r0 e : Elem) :
    ((kept ++ (r0 :: rt) ++ (e :: rest)).set (kept.length + (rt.length + 1)) r0).set kept.length e =
      (kept ++ [e]) ++ (rt ++ [r0]) ++ rest := by
  induction kept with
  | nil => simp
  | cons a t ih =>
    simp only [List.cons_append, List.length_cons] at ih ⊢
    rw [show t.length + 1 + (rt.length + 1) = (t.length + (rt.length + 1)) + 1 by omega]
    simp only [List.set_cons_succ]
    rw [ih]

/-- the scan of `retain`: kept elements are compacted to the front in order, rejected ones end up
    behind them (in some order), nothing is lost or duplicated, no trace event is produced -/
theorem retain_go_spec (X : Ctx) (hq : ∀ k, X.o.panicAt k = false) (f : Vec.Pred1) :
    ∀ (rest kept rej : List Elem) (k : Nat) (s : St), Abs X s.v (kept ++ rej ++ rest) → s.v.isDefault = false →
    ∃ s' rej', Vec.retain.go X f (.at (dataOff s.v.align)) rest.length (kept.length + rej.length) kept.length k s =
        (.ok (kept ++ keptFrom f k rest).length, s') ∧
      Abs X s'.v ((kept ++ keptFrom f k rest) ++ rej') ∧ rej'.Perm (rej ++ rejFrom f k rest) ∧
      s'.v.cap = s.v.cap ∧ s'.v.isDefault = false ∧ s'.v.align = s.v.align ∧
      s'.v.blk.map (·.bid) = s.v.blk.map (·.bid) ∧ s'.sys.tr = s.sys.tr := by
  intro rest
  induction rest with
  | nil =>
    intro kept rej k s h hd
    refine ⟨s, rej, ?_, by simpa [keptFrom] using h, by simp [rejFrom], rfl, hd, rfl, rfl, rfl⟩
    simp [Vec.retain.go, keptFrom]
  | cons e rest ih =>
    intro kept rej k s h hd
    have hlen : kept.length + rej.length < (kept ++ rej ++ e :: rest).length := by simp
    have h1 := rd_abs X s _ h hd (kept.length + rej.length) hlen
    have he : (kept ++ rej ++ e :: rest)[kept.length + rej.length] = e := by
      rw [List.getElem_append_right (by simp)]; simp
    rw [he] at h1
    have h2 := callback_quiet X hq s
    let s1 : St := { s with sys := { s.sys with cbIdx := s.sys.cbIdx + 1 } }
    unfold Vec.retain.go
    simp only [List.length_cons, VM.bind_run, h1, h2]
    by_cases hf : f k e = true
    · simp only [hf, if_true]
      cases rej with
      | nil =>
        -- read = write: nothing to move
        have habs1 : Abs X s1.v ((kept ++ [e]) ++ [] ++ rest) := by simpa using h
        obtain ⟨s', rej', hrun, habs', hperm, hc, hd', hal, hb, htr⟩ := ih (kept ++ [e]) [] (k + 1) s1 habs1 hd
        refine ⟨s', rej', ?_, ?_, ?_, hc, hd', hal, hb, htr⟩
        · simp only [List.length_nil, Nat.add_zero, ne_eq, not_true_eq_false, if_false, VM.pure_run]
          simp only [List.length_append, List.length_singleton, List.length_nil, Nat.add_zero] at hrun
          simp only [keptFrom, hf, if_true]
          simpa [List.length_append, Nat.add_assoc, Nat.add_comm 1] using hrun
        · simpa [keptFrom, hf] using habs'
        · simpa [rejFrom, hf] using hperm
      | cons r0 rt =>
        have hne : kept.length + (r0 :: rt).length ≠ kept.length := by simp
        have hw : kept.length < (kept ++ (r0 :: rt) ++ e :: rest).length := by simp
        obtain ⟨v', hsw, habs', hc, hd', hal, hb⟩ :=
          sw_abs X s1 (kept ++ (r0 :: rt) ++ e :: rest) h hd (kept.length + (r0 :: rt).length) kept.length hlen hw
        have hw0 : (kept ++ (r0 :: rt) ++ e :: rest)[kept.length] = r0 := by
          rw [List.getElem_append_left (by simp), List.getElem_append_right (by simp)]; simp
        simp only [List.length_cons] at he habs'
        simp only [hw0, he] at habs'
        rw [retain_swap_list] at habs'
        have habs1 : Abs X ({ s1 with v := v' } : St).v ((kept ++ [e]) ++ (rt ++ [r0]) ++ rest) := habs'
        obtain ⟨s', rej', hrun, habs2, hperm, hc2, hd2, hal2, hb2, htr⟩ :=
          ih (kept ++ [e]) (rt ++ [r0]) (k + 1) { s1 with v := v' } habs1 hd'
        refine ⟨s', rej', ?_, ?_, ?_, by rw [hc2]; exact hc, hd2, by rw [hal2]; exact hal, by rw [hb2]; exact hb, htr⟩
        · simp only [hne, ne_eq, not_false_eq_true, if_true, VM.bind_run]
          have hsw' : VM.sw (.at (dataOff s.v.align)) (kept.length + (r0 :: rt).length) kept.length s1 =
              (.ok (), { s1 with v := v' }) := hsw
          rw [hsw']
          simp only
          have : ({ s1 with v := v' } : St).v.align = s.v.align := hal
          rw [this] at hrun
          simp only [List.length_append, List.length_singleton, List.length_cons] at hrun ⊢
          simp only [keptFrom, hf, if_true]
          rw [show kept.length + (rt.length + 1) + 1 = kept.length + 1 + (rt.length + 1) by omega]
          simpa [List.length_append, Nat.add_assoc, Nat.add_comm 1] using hrun
        · simpa [keptFrom, hf] using habs2
        · simp only [rejFrom, hf, if_true]
          refine hperm.trans ?_
          have : (rt ++ [r0]).Perm (r0 :: rt) := List.perm_append_singleton r0 rt
          exact List.Perm.append_right _ this
    · have hf' : f k e = false := by simpa using hf
      simp only [hf', Bool.false_eq_true, if_false]
      have habs1 : Abs X s1.v (kept ++ (rej ++ [e]) ++ rest) := by simpa using h
      obtain ⟨s', rej', hrun, habs', hperm, hc, hd', hal, hb, htr⟩ := ih kept (rej ++ [e]) (k + 1) s1 habs1 hd
      refine ⟨s', rej', ?_, ?_, ?_, hc, hd', hal, hb, htr⟩
      · have hl : (rej ++ [e]).length = rej.length + 1 := by simp
        rw [hl] at hrun
        simp only [keptFrom, hf', Bool.false_eq_true, if_false]
        rw [Nat.add_assoc]; exact hrun
      · simpa [keptFrom, hf'] using habs'
      · simpa [rejFrom, hf'] using hperm

/-- a comparison callback that returns (any answer, possibly depending on hidden state) and leaves
    the vector and the trace alone -/
def SameSpec (same : Nat → Elem → Elem → VM Bool) : Prop :=
  ∀ k a b (s : St), ∃ r s', same k a b s = (.ok r, s') ∧ s'.v = s.v ∧ s'.sys.tr = s.sys.tr

/-- the scan of `dedup_by` with an ARBITRARY answer sequence: survivors are a sublist in order,
    the others end up behind them, nothing is lost or duplicated -/
theorem dedup_go_spec (X : Ctx) (same : Nat → Elem → Elem → VM Bool) (hs : SameSpec same) :
    ∀ (rest kept rej : List Elem) (k : Nat) (s : St), Abs X s.v (kept ++ rej ++ rest) → s.v.isDefault = false →
    kept ≠ [] →
    ∃ s' k2 r2 rej', Vec.dedup_by.go same (.at (dataOff s.v.align)) rest.length (kept.length + rej.length) kept.length k s =
        (.ok (kept ++ k2).length, s') ∧
      Abs X s'.v ((kept ++ k2) ++ rej') ∧ k2.Sublist rest ∧ (k2 ++ r2).Perm rest ∧ rej'.Perm (rej ++ r2) ∧
      s'.v.cap = s.v.cap ∧ s'.v.isDefault = false ∧ s'.v.align = s.v.align ∧
      s'.v.blk.map (·.bid) = s.v.blk.map (·.bid) ∧ s'.sys.tr = s.sys.tr := by
  intro rest
  induction rest with
  | nil =>
    intro kept rej k s h hd _
    refine ⟨s, [], [], rej, ?_, by simpa using h, List.Sublist.refl _, by simp, by simp, rfl, hd, rfl, rfl, rfl⟩
    simp [Vec.dedup_by.go]
  | cons e rest ih =>
    intro kept rej k s h hd hk
    have hlen : kept.length + rej.length < (kept ++ rej ++ e :: rest).length := by simp
    have hkl : 0 < kept.length := List.length_pos_iff.mpr hk
    have h1 := rd_abs X s _ h hd (kept.length + rej.length) hlen
    have he : (kept ++ rej ++ e :: rest)[kept.length + rej.length] = e := by
      rw [List.getElem_append_right (by simp)]; simp
    rw [he] at h1
    have hlen2 : kept.length - 1 < (kept ++ rej ++ e :: rest).length := by simp; omega
    have h1b := rd_abs X s _ h hd (kept.length - 1) hlen2
    obtain ⟨r, s1, hsame, hv1, htr1⟩ := hs k e ((kept ++ rej ++ e :: rest)[kept.length - 1]) s
    have habs_s1 : Abs X s1.v (kept ++ rej ++ e :: rest) := by rw [hv1]; exact h
    have hd1 : s1.v.isDefault = false := by rw [hv1]; exact hd
    have hal1 : s1.v.align = s.v.align := by rw [hv1]
    unfold Vec.dedup_by.go
    simp only [List.length_cons, VM.bind_run, h1, h1b, hsame]
    cases r with
    | false =>
      simp only [Bool.not_false, if_true]
      cases rej with
      | nil =>
        have habs1 : Abs X s1.v ((kept ++ [e]) ++ [] ++ rest) := by simpa using habs_s1
        obtain ⟨s', k2, r2, rej', hrun, habs', hsub, hperm, hrp, hc, hd', hal, hb, htr⟩ :=
          ih (kept ++ [e]) [] (k + 1) s1 habs1 hd1 (by simp)
        refine ⟨s', e :: k2, r2, rej', ?_, by simpa using habs', hsub.cons₂ e, by simpa using hperm.cons e, hrp,
          by rw [hc, hv1], hd', by rw [hal, hv1], by rw [hb, hv1], by rw [htr, htr1]⟩
        simp only [List.length_nil, Nat.add_zero, ne_eq, not_true_eq_false, if_false]
        rw [hal1] at hrun
        simp only [List.length_append, List.length_singleton, List.length_nil, Nat.add_zero, List.length_cons] at hrun ⊢
        simpa [Nat.add_assoc, Nat.add_comm 1] using hrun
      | cons r0 rt =>
        have hne : kept.length + (r0 :: rt).length ≠ kept.length := by simp
        have hw : kept.length < (kept ++ (r0 :: rt) ++ e :: rest).length := by simp
        obtain ⟨v', hsw, habs', hc, hd', hal, hb⟩ :=
          sw_abs X s1 (kept ++ (r0 :: rt) ++ e :: rest) habs_s1 hd1 (kept.length + (r0 :: rt).length) kept.length hlen hw
        have hw0 : (kept ++ (r0 :: rt) ++ e :: rest)[kept.length] = r0 := by
          rw [List.getElem_append_left (by simp), List.getElem_append_right (by simp)]; simp
        simp only [List.length_cons] at he habs'
        simp only [hw0, he] at habs'
        rw [retain_swap_list] at habs'
        have habs1 : Abs X ({ s1 with v := v' } : St).v ((kept ++ [e]) ++ (rt ++ [r0]) ++ rest) := habs'
        obtain ⟨s', k2, r2, rej', hrun, habs2, hsub, hperm, hrp, hc2, hd2, hal2, hb2, htr⟩ :=
          ih (kept ++ [e]) (rt ++ [r0]) (k + 1) { s1 with v := v' } habs1 hd' (by simp)
        refine ⟨s', e :: k2, r2, rej', ?_, by simpa using habs2, hsub.cons₂ e, by simpa using hperm.cons e, ?_,
          by rw [hc2]; show v'.cap = _; rw [hc, hv1], hd2, by rw [hal2]; show v'.align = _; rw [hal, hv1],
          by rw [hb2]; show v'.blk.map _ = _; rw [hb, hv1], by rw [htr]; exact htr1⟩
        · simp only [hne, ne_eq, not_false_eq_true, if_true, VM.bind_run]
          have hsw' : VM.sw (.at (dataOff s.v.align)) (kept.length + (r0 :: rt).length) kept.length s1 =
              (.ok (), { s1 with v := v' }) := by rw [← hal1]; exact hsw
          rw [hsw']
          simp only
          have : ({ s1 with v := v' } : St).v.align = s.v.align := by show v'.align = _; rw [hal, hv1]
          rw [this] at hrun
          simp only [List.length_append, List.length_singleton, List.length_cons] at hrun ⊢
          rw [show kept.length + (rt.length + 1) + 1 = kept.length + 1 + (rt.length + 1) by omega]
          simpa [Nat.add_assoc, Nat.add_comm 1] using hrun
        · refine hrp.trans ?_
          have : (rt ++ [r0]).Perm (r0 :: rt) := List.perm_append_singleton r0 rt
          exact List.Perm.append_right _ this
    | true =>
      simp only [Bool.not_true, Bool.false_eq_true, if_false]
      have habs1 : Abs X s1.v (kept ++ (rej ++ [e]) ++ rest) := by simpa using habs_s1
      obtain ⟨s', k2, r2, rej', hrun, habs', hsub, hperm, hrp, hc, hd', hal, hb, htr⟩ :=
        ih kept (rej ++ [e]) (k + 1) s1 habs1 hd1 hk
      refine ⟨s', k2, e :: r2, rej', ?_, habs', hsub.cons e, ?_, ?_, by rw [hc, hv1], hd', by rw [hal, hv1],
        by rw [hb, hv1], by rw [htr, htr1]⟩
      · have hl : (rej ++ [e]).length = rej.length + 1 := by simp
        rw [hl, hal1] at hrun
        rw [Nat.add_assoc]; exact hrun
      · exact (List.perm_middle).trans (hperm.cons e)
      · refine hrp.trans ?_
        rw [List.append_assoc]
        exact List.Perm.append_left _ (by simp)

theorem keptFrom_length_le (f : Vec.Pred1) (k : Nat) (es : List Elem) : (keptFrom f k es).length ≤ es.length := by
  induction es generalizing k with
  | nil => simp [keptFrom]
  | cons e es ih => simp only [keptFrom]; split <;> simp <;> have := ih (k + 1) <;> omega

/-- `retain` with an arbitrary non-panicking predicate: the vector ends up exposing exactly the
    accepted elements in their original order; the rejected ones are destroyed exactly once each
    (and nothing else is); block and capacity are untouched -/
theorem retain_spec (X : Ctx) (hq : ∀ k, X.o.panicAt k = false) (f : Vec.Pred1) (s : St) (es : List Elem)
    (h : Abs X s.v es) :
    ∃ s' rej, Vec.retain X f s = (.ok (), s') ∧ Abs X s'.v (keptFrom f 0 es) ∧
      rej.Perm (rejFrom f 0 es) ∧ ownEvents s'.sys.tr = ownEvents s.sys.tr ++ dropEvents X rej ∧
      s'.v.cap = s.v.cap ∧ s'.v.blk.map (·.bid) = s.v.blk.map (·.bid) := by
  have hL : (hsOf s.v s.sys.allocIdx).L = es.length := h.len_eq
  cases hd : s.v.isDefault with
  | true =>
    have hnil := (h.sentinel hd).2
    subst hnil
    have hptr := as_mut_ptr_run_default X.env (hsOf s.v s.sys.allocIdx) (by simp [hsOf, hd])
    have h1 : VM.lift X (retain_pre X.env) s = (.ok (.cont ⟨0, .null, .null, .null⟩), s) :=
      lift_read X _ s _ (by
        unfold retain_pre
        simp only [len_run, GM.bind_run, hL, hptr, GM.pure_run]
        rfl)
    obtain ⟨v', ht, habs, hb, hc, _⟩ := truncate_spec X hq s [] 0 h
    refine ⟨{ afterDrops X s (([] : List Elem).drop 0) with v := v' }, [], ?_, by simpa [keptFrom] using habs, by simp [rejFrom], ?_, hc, by simp only; rw [hb]⟩
    · unfold Vec.retain
      simp only [VM.bind_run, h1, if_true, VM.pure_run, ht]
    · rw [afterDrops_own_tr]; simp
  | false =>
    obtain ⟨b, hb, hl, hs, hlc, hel, hinit⟩ := h.alloc hd
    have hal : b.lay.align = s.v.align := (make_layout_honest _ _ _ _ hl).2.1
    have hcapb : s.v.cap ≤ b.slots.length := by rw [hs]; exact physSlots_ge X.env _ _ _ hl h.elem_pos
    have hptr := as_mut_ptr_run X.env (hsOf s.v s.sys.allocIdx) hd b.lay s.v.cap hl
    have h1 : VM.lift X (retain_pre X.env) s =
        (.ok (.cont ⟨es.length, .at (dataOff s.v.align), .at (dataOff s.v.align), .at (dataOff s.v.align)⟩), s) :=
      lift_read X _ s _ (by
        unfold retain_pre
        simp only [len_run, GM.bind_run, hL, hptr, GM.pure_run]
        rfl)
    unfold Vec.retain
    simp only [VM.bind_run, h1]
    by_cases hz : es.length = 0
    · have hnil : es = [] := List.eq_nil_of_length_eq_zero hz
      subst hnil
      obtain ⟨v', ht, habs, hb', hc, _⟩ := truncate_spec X hq s [] 0 h
      refine ⟨{ afterDrops X s (([] : List Elem).drop 0) with v := v' }, [], ?_, by simpa [keptFrom] using habs, by simp [rejFrom], ?_, hc, by simp only; rw [hb']⟩
      · simp only [List.length_nil, if_true]
        show Vec.truncate X 0 s = _
        exact ht
      · rw [afterDrops_own_tr]; simp
    · have h2 := inb_blk s b hb es.length (by omega)
      rw [hal] at h2
      have hgo := retain_go_spec X hq f es [] [] 0 s (by simpa using h) hd
      obtain ⟨s1, rej, hrun, habs1, hperm, hc1, hd1, hal1, hb1, htr1⟩ := hgo
      simp only [List.length_nil, Nat.add_zero, List.nil_append] at hrun habs1 hperm
      obtain ⟨v', ht, habs2, hb2, hc2, _⟩ := truncate_spec X hq s1 _ (keptFrom f 0 es).length habs1
      refine ⟨{ afterDrops X s1 ((keptFrom f 0 es ++ rej).drop (keptFrom f 0 es).length) with v := v' }, rej, ?_, ?_, hperm, ?_,
        by simp only; rw [hc2, hc1], by simp only; rw [hb2, hb1]⟩
      · simp only [hz, if_false, VM.bind_run, h2, hrun, ht]
      · simpa using habs2
      · rw [afterDrops_own_tr, htr1]
        simp

/-- `dedup_by` with an arbitrary comparison callback: a sublist of the original elements survives in
    order (the first element always does), the others are destroyed exactly once; block and capacity
    untouched -/
theorem dedup_by_spec (X : Ctx) (hq : ∀ k, X.o.panicAt k = false) (same : Nat → Elem → Elem → VM Bool)
    (hs : SameSpec same) (s : St) (es : List Elem) (h : Abs X s.v es) :
    ∃ s' kept rej, Vec.dedup_by X same s = (.ok (), s') ∧ Abs X s'.v kept ∧
      kept.Sublist es ∧ (kept ++ rej).Perm es ∧ ownEvents s'.sys.tr = ownEvents s.sys.tr ++ dropEvents X rej ∧
      s'.v.cap = s.v.cap ∧ s'.v.blk.map (·.bid) = s.v.blk.map (·.bid) := by
  have hL : (hsOf s.v s.sys.allocIdx).L = es.length := h.len_eq
  by_cases hlt : es.length < 2
  · have h1 : VM.lift X (dedup_by_pre X.env) s = (.ok (.ret 0), s) :=
      lift_read X _ s _ (by
        unfold dedup_by_pre
        simp only [len_run, GM.bind_run, hL, hlt, decide_true, if_true, GM.pure_run])
    refine ⟨s, es, [], ?_, h, List.Sublist.refl _, by simp, by simp [dropEvents], rfl, rfl⟩
    unfold Vec.dedup_by
    simp only [VM.bind_run, h1, VM.pure_run]
  · have hd : s.v.isDefault = false := by
      cases hd : s.v.isDefault
      · rfl
      · have := (h.sentinel hd).2; subst this; simp at hlt
    obtain ⟨b, hb, hl, hsl, hlc, hel, hinit⟩ := h.alloc hd
    have hal : b.lay.align = s.v.align := (make_layout_honest _ _ _ _ hl).2.1
    have hcapb : s.v.cap ≤ b.slots.length := by rw [hsl]; exact physSlots_ge X.env _ _ _ hl h.elem_pos
    have hptr := as_mut_ptr_run X.env (hsOf s.v s.sys.allocIdx) hd b.lay s.v.cap hl
    have h1 : VM.lift X (dedup_by_pre X.env) s = (.ok (.cont ⟨es.length, .at (dataOff s.v.align)⟩), s) :=
      lift_read X _ s _ (by
        unfold dedup_by_pre
        simp only [len_run, GM.bind_run, hL, hlt, decide_false, Bool.false_eq_true, if_false, hptr, GM.pure_run]
        rfl)
    have h2 := inb_blk s b hb es.length (by omega)
    rw [hal] at h2
    cases es with
    | nil => simp at hlt
    | cons e0 rest =>
      have hgo := dedup_go_spec X same hs rest [e0] [] 0 s (by simpa using h) hd (by simp)
      obtain ⟨s1, k2, r2, rej, hrun, habs1, hsub, hperm, hrp, hc1, hd1, hal1, hb1, htr1⟩ := hgo
      simp only [List.length_singleton, List.length_nil, Nat.add_zero, List.nil_append] at hrun hrp
      obtain ⟨v', ht, habs2, hb2, hc2, _⟩ := truncate_spec X hq s1 _ ([e0] ++ k2).length habs1
      refine ⟨{ afterDrops X s1 ((([e0] ++ k2) ++ rej).drop ([e0] ++ k2).length) with v := v' }, [e0] ++ k2, rej,
        ?_, by simpa using habs2, by simpa using hsub.cons₂ e0, ?_, ?_,
        by simp only; rw [hc2, hc1], by simp only; rw [hb2, hb1]⟩
      · unfold Vec.dedup_by
        simp only [List.length_cons] at h2
        simp only [VM.bind_run, h1, List.length_cons, Nat.add_sub_cancel, h2, hrun, ht]
      · have : (k2 ++ rej).Perm rest := (List.Perm.append_left _ hrp).trans hperm
        simpa using this.cons e0
      · rw [afterDrops_own_tr, htr1]
        simp

theorem eqElem_sameSpec (X : Ctx) (hq : ∀ k, X.o.panicAt k = false) : SameSpec (fun _ a b => Vec.eqElem X a b) := by
  intro k a b s
  simp only [Vec.eqElem, VM.callback, hq, Bool.false_eq_true, if_false]
  exact ⟨_, _, rfl, rfl, rfl⟩

theorem pred2_sameSpec (X : Ctx) (hq : ∀ k, X.o.panicAt k = false) (f : Vec.Pred2) :
    SameSpec (fun k a b => do VM.callback X; pure (f k a b)) := by
  intro k a b s
  simp only [VM.bind_run, VM.callback, hq, Bool.false_eq_true, if_false, VM.pure_run]
  exact ⟨_, _, rfl, rfl, rfl⟩

theorem key_sameSpec (X : Ctx) (hq : ∀ k, X.o.panicAt k = false) (key : Nat → Elem → Int) :
    SameSpec (fun k a b => do
      VM.callback X
      let ka := key (2 * k) a
      VM.callback X
      let kb := key (2 * k + 1) b
      pure (ka == kb)) := by
  intro k a b s
  simp only [VM.bind_run, VM.callback, hq, Bool.false_eq_true, if_false, VM.pure_run]
  exact ⟨_, _, rfl, rfl, rfl⟩

end MV

#print axioms MV.dedup_by_spec
#print axioms MV.retain_spec

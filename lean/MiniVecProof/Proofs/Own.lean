import MiniVecProof.Proofs.MemMove
/-
  T-OWN infrastructure: which steps add ownership events (`drop`, `clone`) to the trace.
-/
namespace MV
open MV.Gen MV.GM VM

def Ev.isOwn : Ev → Bool
  | .drop _ | .clone _ _ => true
  | _ => false

/-- the ownership events of a trace, in order -/
def ownEvents (tr : List Ev) : List Ev := tr.filter Ev.isOwn

theorem ownEvents_append (a b : List Ev) : ownEvents (a ++ b) = ownEvents a ++ ownEvents b := by
  simp [ownEvents]

theorem replay1_own (c : Cfg) (r : Replay) (a : Action) :
    ownEvents (replay1 c r a).sys.tr = ownEvents r.sys.tr := by
  cases a <;> simp only [replay1]
  · simp [ownEvents, Ev.isOwn]
  · simp [ownEvents, Ev.isOwn]
  · cases r.blk with
    | none => simp [ownEvents, Ev.isOwn]
    | some b =>
      simp only
      split <;> simp [ownEvents, Ev.isOwn]
  · simp [ownEvents, Ev.isOwn]
  · cases r.fresh <;> simp

theorem replay_own (c : Cfg) (r : Replay) (acts : List Action) :
    ownEvents (replay c r acts).sys.tr = ownEvents r.sys.tr := by
  unfold replay
  induction acts generalizing r with
  | nil => rfl
  | cons a rest ih => simp only [List.foldl_cons]; rw [ih, replay1_own]

/-- running a decision program adds no ownership event, whatever it does -/
theorem lift_own {α} (X : Ctx) (g : GM α) (s : St) :
    ownEvents (VM.lift X g s).2.sys.tr = ownEvents s.sys.tr := by
  rw [lift_run]
  simp only
  split <;> exact replay_own _ _ _

/-- a computation that adds no ownership event when it returns -/
def Quiet {α} (x : VM α) : Prop :=
  ∀ s a s', x s = (.ok a, s') → ownEvents s'.sys.tr = ownEvents s.sys.tr

theorem Quiet.lift {α} (X : Ctx) (g : GM α) : Quiet (VM.lift X g) := by
  intro s a s' h
  have := lift_own X g s
  rw [h] at this; exact this

theorem Quiet.pure {α} (a : α) : Quiet (pure a : VM α) := by
  intro s a' s' h; simp at h; rw [← h.2]

theorem Quiet.bind {α β} {x : VM α} {f : α → VM β} (hx : Quiet x) (hf : ∀ a, Quiet (f a)) : Quiet (x >>= f) := by
  intro s b s' h
  simp only [VM.bind_run] at h
  cases hxs : x s with
  | mk r s1 =>
    rw [hxs] at h
    cases r with
    | error p => simp at h
    | ok a =>
      simp only at h
      rw [hf a s1 b s' h, hx s a s1 hxs]

theorem Quiet.ite {α} (c : Prop) [Decidable c] {x y : VM α} (hx : Quiet x) (hy : Quiet y) :
    Quiet (if c then x else y) := by
  split <;> assumption

/-- state-preserving-on-success primitives -/
theorem Quiet.of_sys {α} {x : VM α} (h : ∀ s a s', x s = (.ok a, s') → s'.sys = s.sys) : Quiet x := by
  intro s a s' hx; rw [h s a s' hx]

theorem blockAt_sys (p : DPtr) (s : St) (b : Blk) (s' : St) (h : VM.blockAt p s = (.ok b, s')) : s' = s := by
  unfold VM.blockAt at h
  simp only [VM.bind_run, VM.getV_run] at h
  cases p with
  | null => simp [VM.ub] at h
  | «at» off =>
    cases hb : s.v.blk with
    | none => simp [hb, VM.ub] at h
    | some b0 =>
      simp only [hb] at h
      split at h
      · simp at h; exact h.2.symm
      · simp [VM.ub] at h

theorem Quiet.rd (p : DPtr) (i : Nat) : Quiet (VM.rd p i) := by
  apply Quiet.of_sys
  intro s a s' h
  unfold VM.rd at h
  simp only [VM.bind_run] at h
  cases hb : VM.blockAt p s with
  | mk r s1 =>
    rw [hb] at h
    cases r with
    | error e => simp at h
    | ok b =>
      have := blockAt_sys p s b s1 hb
      subst this
      simp only at h
      cases hs : b.slots[i]? with
      | none => simp [hs, VM.ub] at h
      | some sl =>
        cases sl with
        | none => simp [hs, VM.ub] at h
        | some e => simp [hs] at h; rw [← h.2]

theorem Quiet.wr (p : DPtr) (i : Nat) (e : Elem) : Quiet (VM.wr p i e) := by
  apply Quiet.of_sys
  intro s a s' h
  unfold VM.wr VM.putBlock at h
  simp only [VM.bind_run] at h
  cases hb : VM.blockAt p s with
  | mk r s1 =>
    rw [hb] at h
    cases r with
    | error e => simp at h
    | ok b =>
      have := blockAt_sys p s b s1 hb
      subst this
      simp only at h
      split at h
      · simp at h; rw [← h]
      · simp [VM.ub] at h

theorem Quiet.cp (p : DPtr) (a b n : Nat) : Quiet (VM.cp p a b n) := by
  apply Quiet.of_sys
  intro s x s' h
  unfold VM.cp VM.putBlock at h
  simp only [VM.bind_run] at h
  cases hb : VM.blockAt p s with
  | mk r s1 =>
    rw [hb] at h
    cases r with
    | error e => simp at h
    | ok blk =>
      have := blockAt_sys p s blk s1 hb
      subst this
      simp only at h
      split at h
      · simp at h; rw [← h]
      · simp [VM.ub] at h

theorem Quiet.inb (p : DPtr) (i : Nat) : Quiet (VM.inb p i) := by
  apply Quiet.of_sys
  intro s x s' h
  unfold VM.inb at h
  simp only [VM.bind_run] at h
  cases hb : VM.blockAt p s with
  | mk r s1 =>
    rw [hb] at h
    cases r with
    | error e => simp at h
    | ok blk =>
      have := blockAt_sys p s blk s1 hb
      subst this
      simp only at h
      split at h
      · simp at h; rw [← h]
      · simp [VM.ub] at h

theorem Quiet.ownArgs {α} (X : Ctx) (args : List Elem) {x : VM α} (hx : Quiet x) : Quiet (VM.ownArgs X args x) := by
  intro s a s' h
  unfold VM.ownArgs at h
  cases hxs : x s with
  | mk r s1 =>
    rw [hxs] at h
    cases r with
    | ok a0 => simp at h; rw [← h.2]; exact hx s a0 s1 hxs
    | error p =>
      simp only at h
      split at h
      · split at h <;> simp at h
      · simp at h

theorem Quiet.push (X : Ctx) (e : Elem) : Quiet (Vec.push X e) := by
  unfold Vec.push
  apply Quiet.bind (Quiet.ownArgs X [e] (Quiet.lift X _))
  intro r
  cases r with
  | ret k => exact Quiet.pure ()
  | cont env =>
    exact Quiet.bind (Quiet.wr _ _ _) (fun _ => by unfold Vec.hdrLenAdd; exact Quiet.lift X _)

theorem Quiet.insert (X : Ctx) (i : Nat) (e : Elem) : Quiet (Vec.insert X i e) := by
  unfold Vec.insert
  apply Quiet.bind (Quiet.ownArgs X [e] (Quiet.lift X _))
  intro r
  cases r with
  | ret k => exact Quiet.pure ()
  | cont env =>
    exact Quiet.bind (Quiet.lift X _) (fun p => Quiet.bind (Quiet.inb _ _) (fun _ =>
      Quiet.bind (Quiet.cp _ _ _ _) (fun _ => Quiet.bind (Quiet.wr _ _ _) (fun _ => Quiet.lift X _))))

theorem Quiet.reserve (X : Ctx) (n : Nat) : Quiet (Vec.reserve X n) := Quiet.lift X _
theorem Quiet.reserve_exact (X : Ctx) (n : Nat) : Quiet (Vec.reserve_exact X n) := Quiet.lift X _
theorem Quiet.shrink_to (X : Ctx) (n : Nat) : Quiet (Vec.shrink_to X n) := Quiet.lift X _
theorem Quiet.shrink_to_fit (X : Ctx) : Quiet (Vec.shrink_to_fit X) := Quiet.lift X _

end MV

import MiniVecProof.Gen.Kernel
import MiniVecProof.Model.Mem
/-
  T-GEN: facts about the regenerated integer kernel (`next_aligned`, `next_capacity`, `max_align`,
  `make_layout`, `map_size_hint`). Helper lemmas; the property theorems are in `Props/`.
-/
namespace MV.Gen
open MV

@[simp] theorem Except.bind_ok {ε α β} (a : α) (f : α → Except ε β) : (Except.ok a >>= f) = f a := rfl
@[simp] theorem Except.bind_error {ε α β} (e : ε) (f : α → Except ε β) :
    ((Except.error e : Except ε α) >>= f) = Except.error e := rfl
@[simp] theorem Except.pure_eq {ε α} (a : α) : (pure a : Except ε α) = Except.ok a := rfl

theorem alignUp_dvd (n a : Nat) (ha : 0 < a) : alignUp n a % a = 0 := by
  unfold alignUp
  split
  · assumption
  · rename_i h
    have hlt : n % a < a := Nat.mod_lt _ ha
    have : n + (a - n % a) = (n / a) * a + a := by
      have := Nat.div_add_mod n a
      have h3 : a * (n / a) = (n / a) * a := Nat.mul_comm _ _
      omega
    rw [this]; simp

theorem alignUp_ge (n a : Nat) : n ≤ alignUp n a := by
  unfold alignUp; split <;> omega

theorem alignUp_lt (n a : Nat) (ha : 0 < a) : alignUp n a < n + a := by
  unfold alignUp
  have hlt : n % a < a := Nat.mod_lt _ ha
  split <;> omega

theorem alignUp_mono (n m a : Nat) (h : n ≤ m) (ha : 0 < a) : alignUp n a ≤ alignUp m a := by
  -- alignUp m a is a multiple of a that is ≥ n; alignUp n a is the least such
  have h1 := alignUp_dvd m a ha
  have h2 := alignUp_ge m a
  have h3 := alignUp_lt n a ha
  have h4 := alignUp_dvd n a ha
  have h5 := alignUp_ge n a
  -- both are multiples of a; if alignUp m a < alignUp n a then alignUp m a + a ≤ alignUp n a < n + a ≤ m + a
  by_cases hc : alignUp n a ≤ alignUp m a
  · exact hc
  · exfalso
    have hlt : alignUp m a < alignUp n a := by omega
    obtain ⟨k1, hk1⟩ := Nat.dvd_of_mod_eq_zero h1
    obtain ⟨k2, hk2⟩ := Nat.dvd_of_mod_eq_zero h4
    rw [hk1, hk2] at hlt
    have hk : k1 < k2 := Nat.lt_of_mul_lt_mul_left hlt
    have : a * (k1 + 1) ≤ a * k2 := Nat.mul_le_mul_left a hk
    rw [Nat.mul_add, Nat.mul_one] at this
    omega

theorem Except.bind_eq_ok {ε α β} {x : Except ε α} {f : α → Except ε β} {b : β} :
    (x >>= f) = .ok b ↔ ∃ a, x = .ok a ∧ f a = .ok b := by
  cases x with
  | error e => simp
  | ok a => simp

theorem expectSome_eq_ok {α} {o : Option α} {a : α} : expectSome o = .ok a ↔ o = some a := by
  cases o <;> simp [expectSome]

/-- `next_aligned` computes `alignUp`, refusing (in both profiles alike) when it does not fit. -/
theorem next_aligned_eq (E : Env) (n a : Nat) (ha : 0 < a) (hn : n < W) :
    next_aligned E n a =
      if alignUp n a < W then .ok (alignUp n a) else .error .explicit := by
  have hlt : n % a < a := Nat.mod_lt _ ha
  have hle : n % a ≤ a := Nat.le_of_lt hlt
  have hne : a ≠ 0 := Nat.ne_of_gt ha
  unfold next_aligned alignUp urem usub checkedAdd
  by_cases h0 : n % a = 0
  · simp [h0, hne, hn]
  · by_cases h1 : n + (a - n % a) < W <;> simp [h0, hne, hle, h1]

theorem next_aligned_zero (E : Env) (n : Nat) : next_aligned E n 0 = .error .divZero := by
  simp [next_aligned, urem]

/-- the growth figure: the first allocation, then doubling -/
def growFig (c : Cfg) (cap : Nat) : Nat :=
  if cap = 0 then (if c.elemSize = 1 then 8 else if 2 ≤ c.elemSize ∧ c.elemSize ≤ 1024 then 4 else 1)
  else 2 * cap

theorem next_capacity_eq (E : Env) (cap : Nat) :
    next_capacity E cap = if growFig E.c cap < W then .ok (growFig E.c cap) else .error .explicit := by
  unfold next_capacity growFig checkedMul
  by_cases h0 : cap = 0
  · simp [h0]
    by_cases h1 : E.c.elemSize = 1
    · simp [h1, W]
    · simp [h1]
      by_cases h2 : 2 ≤ E.c.elemSize ∧ E.c.elemSize ≤ 1024
      · simp [h2, W]
      · simp [h2, W]
  · have : cap * 2 = 2 * cap := Nat.mul_comm _ _
    by_cases h1 : 2 * cap < W <;> simp [h0, h1, this]

theorem growFig_gt (c : Cfg) (cap : Nat) : cap < growFig c cap := by
  unfold growFig; split
  · split <;> (try split) <;> omega
  · omega

theorem max_align_eq (E : Env) : max_align E = .ok (max E.c.elemAlign hdrAlign) := rfl

/-- total block size for capacity `c` and alignment `a`, in unbounded arithmetic -/
def totalSize (cfg : Cfg) (c a : Nat) : Nat :=
  dataOff a + (if c = 0 then 0 else alignUp (c * cfg.elemSize) a)

theorem isPow2_pos (a : Nat) (h : isPow2 a = true) : 0 < a := by
  unfold isPow2 at h
  simp only [List.any_eq_true, beq_iff_eq] at h
  obtain ⟨k, _, hk⟩ := h
  rw [hk]; exact Nat.two_pow_pos k

theorem layoutFromSizeAlign_eq_some {n a : Nat} {L : Layout} (h : layoutFromSizeAlign n a = some L) :
    L = ⟨n, a⟩ ∧ isPow2 a = true ∧ n + a ≤ ISIZE_MAX + 1 := by
  unfold layoutFromSizeAlign at h
  split at h
  · rename_i hh
    simp only [Bool.and_eq_true, decide_eq_true_eq] at hh
    simp at h
    exact ⟨h.symm, hh.1, hh.2⟩
  · simp at h

theorem next_aligned_ok_imp (E : Env) (n a r : Nat) (hn : n < W) (h : next_aligned E n a = .ok r) :
    0 < a ∧ r = alignUp n a := by
  by_cases ha : a = 0
  · subst ha; simp [next_aligned_zero] at h
  · have hpos := Nat.pos_of_ne_zero ha
    rw [next_aligned_eq _ _ _ hpos hn] at h
    split at h
    · simp at h; exact ⟨hpos, h.symm⟩
    · simp at h

/-- `make_layout` succeeds only when the alignment is a power of two and the true total size
    fits `isize::MAX` after rounding; the answer is the true total size. -/
theorem make_layout_ok (E : Env) (c a : Nat) (L : Layout) (h : make_layout E c a = .ok L) :
    L = ⟨totalSize E.c c a, a⟩ ∧ isPow2 a = true ∧ totalSize E.c c a + a ≤ ISIZE_MAX + 1 := by
  unfold make_layout at h
  have hW : hdrSize < W := by decide
  by_cases hc : c = 0
  · simp only [hc, beq_self_eq_true, if_true, Except.bind_eq_ok] at h
    obtain ⟨t6, h1, h7⟩ := h
    obtain ⟨_, h1⟩ := next_aligned_ok_imp E _ _ _ hW h1
    rw [expectSome_eq_ok] at h7
    obtain ⟨h7a, h7b, h7c⟩ := layoutFromSizeAlign_eq_some h7
    subst h1
    simp only [totalSize, dataOff, hc, if_true, Nat.add_zero]
    exact ⟨h7a, h7b, h7c⟩
  · have hcb : (c == 0) = false := by simp [hc]
    simp only [hcb, Except.bind_eq_ok, Bool.false_eq_true, if_false] at h
    obtain ⟨t6, ⟨t2, h2, t3, h3, t4, h4, h5⟩, h7⟩ := h
    obtain ⟨_, h3⟩ := next_aligned_ok_imp E _ _ _ hW h3
    rw [expectSome_eq_ok] at h2 h5 h7
    unfold checkedMul at h2
    unfold checkedAdd at h5
    split at h2 <;> simp at h2
    rename_i h2lt
    split at h5 <;> simp at h5
    subst h2
    obtain ⟨_, h4⟩ := next_aligned_ok_imp E _ _ _ h2lt h4
    obtain ⟨h7a, h7b, h7c⟩ := layoutFromSizeAlign_eq_some h7
    subst h5 h4 h3
    simp only [totalSize, dataOff, hc, if_false]
    exact ⟨h7a, h7b, h7c⟩

/-- the capacity is honest: a layout that `make_layout` hands out has room for `c` elements behind
    the data offset, computed WITHOUT wrap-around. -/
theorem make_layout_honest (E : Env) (c a : Nat) (L : Layout) (h : make_layout E c a = .ok L) :
    dataOff a + c * E.c.elemSize ≤ L.size ∧ L.align = a ∧ L.size ≤ ISIZE_MAX := by
  obtain ⟨hL, hp, hs⟩ := make_layout_ok E c a L h
  have hpos := isPow2_pos a hp
  subst hL
  simp only [totalSize] at *
  refine ⟨?_, trivial, by simp only [ISIZE_MAX] at *; omega⟩
  by_cases hc : c = 0
  · simp [hc]
  · simp [hc]
    exact alignUp_ge _ _

/-- `make_layout` does not depend on the build profile. -/
theorem next_aligned_mode (E : Env) (m : Mode) (n a : Nat) (hn : n < W) :
    next_aligned { E with m := m } n a = next_aligned E n a := by
  by_cases ha : a = 0
  · subst ha; simp [next_aligned_zero]
  · simp [next_aligned_eq _ _ _ (Nat.pos_of_ne_zero ha) hn]

theorem make_layout_mode (E : Env) (m : Mode) (c a : Nat) :
    make_layout { E with m := m } c a = make_layout E c a := by
  have hW : hdrSize < W := by decide
  unfold make_layout
  simp only [next_aligned_mode _ _ _ _ hW]
  by_cases hc : c = 0
  · simp [hc]
  · simp only [show (c == 0) = false by simp [hc]]
    cases hm : checkedMul c E.c.elemSize with
    | none => simp [expectSome]
    | some v =>
      have hv : v < W := by
        unfold checkedMul at hm; split at hm <;> simp at hm; omega
      simp [expectSome, next_aligned_mode _ _ _ _ hv]

theorem next_capacity_mode (E : Env) (m : Mode) (c : Nat) :
    next_capacity { E with m := m } c = next_capacity E c := by
  simp [next_capacity_eq]

theorem map_size_hint_le (E : Env) (h : Option Nat) (r : Nat) (hr : map_size_hint E h = .ok r) :
    r ≤ 1024 := by
  unfold map_size_hint at hr
  cases h <;> simp at hr <;> omega

end MV.Gen

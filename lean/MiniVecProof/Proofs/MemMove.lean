import MiniVecProof.Proofs.MemCap
/-
  T-MEM: the element-shifting operations `remove`, `insert`, `swap_remove`.
-/
namespace MV
open MV.Gen MV.GM VM

theorem copySlots_length (xs : List Slot) (src dst n : Nat) (h1 : src + n ≤ xs.length) (h2 : dst + n ≤ xs.length) :
    (copySlots xs src dst n).length = xs.length := by
  unfold copySlots; simp; omega

/-- pointwise description of `ptr::copy` inside one block -/
theorem copySlots_get (xs : List Slot) (src dst n i : Nat) (h1 : src + n ≤ xs.length) (h2 : dst + n ≤ xs.length) :
    (copySlots xs src dst n)[i]? = if dst ≤ i ∧ i < dst + n then xs[src + (i - dst)]? else xs[i]? := by
  unfold copySlots
  by_cases hlo : i < dst
  · rw [List.append_assoc, List.getElem?_append_left (by simp; omega)]
    simp [List.getElem?_take, hlo]
    intro h; omega
  · by_cases hmid : i < dst + n
    · rw [List.getElem?_append_left (by simp; omega)]
      rw [List.getElem?_append_right (by simp; omega)]
      simp only [List.length_take]
      have hm : min dst xs.length = dst := by omega
      rw [hm]
      have : dst ≤ i ∧ i < dst + n := ⟨by omega, hmid⟩
      simp [this, List.getElem?_take, List.getElem?_drop]
      omega
    · rw [List.getElem?_append_right (by simp; omega)]
      simp only [List.length_append, List.length_take, List.length_drop]
      have hm : min dst xs.length = dst := by omega
      have hm2 : min n (xs.length - src) = n := by omega
      rw [hm, hm2]
      have : ¬ (dst ≤ i ∧ i < dst + n) := by omega
      simp [this, List.getElem?_drop]
      congr 1; omega

theorem cp_blk (s : St) (b : Blk) (hb : s.v.blk = some b) (src dst n : Nat)
    (h1 : src + n ≤ b.slots.length) (h2 : dst + n ≤ b.slots.length) :
    VM.cp (.at (dataOff b.lay.align)) src dst n s =
      (.ok (), { s with v := { s.v with blk := some { b with slots := copySlots b.slots src dst n } } }) := by
  unfold VM.cp VM.blockAt VM.putBlock
  simp [hb, h1, h2]

/-- `remove(i)` for `i < len`: returns element `i`, the others keep their order; block and capacity
    untouched -/
theorem remove_spec (X : Ctx) (s : St) (es : List Elem) (i : Nat) (h : Abs X s.v es) (hi : i < es.length) :
    ∃ v', Vec.remove X i s = (.ok es[i], { s with v := v' }) ∧ Abs X v' (es.eraseIdx i) ∧
      v'.blk.map (·.bid) = s.v.blk.map (·.bid) ∧ v'.cap = s.v.cap := by
  have hL : (hsOf s.v s.sys.allocIdx).L = es.length := h.len_eq
  have hd : s.v.isDefault = false := by
    cases hd : s.v.isDefault
    · rfl
    · have := (h.sentinel hd).2; subst this; simp at hi
  obtain ⟨b, hb, hl, hs, hlc, hel, hinit⟩ := h.alloc hd
  have hal : b.lay.align = s.v.align := (make_layout_honest _ _ _ _ hl).2.1
  have hcapb : s.v.cap ≤ b.slots.length := by rw [hs]; exact physSlots_ge X.env _ _ _ hl h.elem_pos
  have h1 : VM.lift X (remove_pre X.env i) s = (.ok (.cont ⟨i, es.length⟩), s) :=
    lift_read X _ s _ (by
      unfold remove_pre
      simp only [len_run, GM.bind_run, GM.ite_run, decide_eq_true_eq, GM.throw_run, GM.pure_run, hL]
      rw [if_neg (by omega)])
  have h2 : VM.lift X (as_mut_ptr X.env) s = (.ok (.at (dataOff s.v.align)), s) :=
    lift_read X _ s _ (as_mut_ptr_run X.env _ hd b.lay s.v.cap hl)
  have h3 := rd_abs X s es h hd i hi
  have h4 := cp_blk s b hb (i + 1) i (es.length - i - 1) (by omega) (by omega)
  rw [hal] at h4
  let s1 : St := { s with v := { s.v with blk := some { b with slots := copySlots b.slots (i + 1) i (es.length - i - 1) } } }
  have h5 := lift_set_len X (es.length - 1) s1 hd
  refine ⟨{ s.v with blk := some { b with slots := copySlots b.slots (i + 1) i (es.length - i - 1) }, len := es.length - 1 }, ?_, ?_, ?_, rfl⟩
  · unfold Vec.remove
    simp only [VM.bind_run, h1, h2, h3, h4, VM.pure_run]
    rw [h5]
  · refine ⟨h.elem_pos, fun hx => by simp [hd] at hx, fun _ => ⟨_, rfl, hl, ?_, by simp; omega, by simp [List.length_eraseIdx, hi], ?_⟩⟩
    · simp only; rw [copySlots_length _ _ _ _ (by omega) (by omega)]; exact hs
    · intro j hj
      simp only at hj ⊢
      rw [copySlots_get _ _ _ _ _ (by omega) (by omega)]
      by_cases hji : j < i
      · rw [if_neg (by omega), hinit j (by omega), List.getElem?_eraseIdx_of_lt hji]
      · rw [if_pos (by omega), hinit _ (by omega), List.getElem?_eraseIdx_of_ge (by omega)]
        congr 2; omega
  · simp [hb]

end MV

#print axioms MV.remove_spec

import MiniVecProof.Proofs.MemCap
import MiniVecProof.Props.C11
import MiniVecProof.Props.C07
/-
  T-MEM: the element-shifting operations `remove`, `insert`, `swap_remove`.
-/
namespace MV
open MV.Gen MV.GM VM

theorem copySlots_length (xs : List Slot) (src dst n : Nat) (h1 : src + n ≤ xs.length) (h2 : dst + n ≤ xs.length) :
    (copySlots xs src dst n).length = xs.length := by
  unfold copySlots; simp; omega

/-- pointwise description of `ptr::copy` inside one block -/
theorem copySlots_get (xs : List Slot) (src dst n i : Nat) (h1 : src + n ≤ xs.length) (h2 : dst + n ≤ xs.length) :
    (copySlots xs src dst n)[i]? = if dst ≤ i ∧ i < dst + n then xs[src + (i - dst)]? else xs[i]? := by
  unfold copySlots
  by_cases hlo : i < dst
  · rw [List.append_assoc, List.getElem?_append_left (by simp; omega)]
    simp [List.getElem?_take, hlo]
    intro h; omega
  · by_cases hmid : i < dst + n
    · rw [List.getElem?_append_left (by simp; omega)]
      rw [List.getElem?_append_right (by simp; omega)]
      simp only [List.length_take]
      have hm : min dst xs.length = dst := by omega
      rw [hm]
      have : dst ≤ i ∧ i < dst + n := ⟨by omega, hmid⟩
      simp [this, List.getElem?_take, List.getElem?_drop]
      omega
    · rw [List.getElem?_append_right (by simp; omega)]
      simp only [List.length_append, List.length_take, List.length_drop]
      have hm : min dst xs.length = dst := by omega
      have hm2 : min n (xs.length - src) = n := by omega
      rw [hm, hm2]
      have : ¬ (dst ≤ i ∧ i < dst + n) := by omega
      simp [this, List.getElem?_drop]
      congr 1; omega

theorem cp_blk (s : St) (b : Blk) (hb : s.v.blk = some b) (src dst n : Nat)
    (h1 : src + n ≤ b.slots.length) (h2 : dst + n ≤ b.slots.length) :
    VM.cp (.at (dataOff b.lay.align)) src dst n s =
      (.ok (), { s with v := { s.v with blk := some { b with slots := copySlots b.slots src dst n } } }) := by
  unfold VM.cp VM.blockAt VM.putBlock
  simp [hb, h1, h2]

/-- `remove(i)` for `i < len`: returns element `i`, the others keep their order; block and capacity
    untouched -/
theorem remove_spec (X : Ctx) (s : St) (es : List Elem) (i : Nat) (h : Abs X s.v es) (hi : i < es.length) :
    ∃ v', Vec.remove X i s = (.ok es[i], { s with v := v' }) ∧ Abs X v' (es.eraseIdx i) ∧
      v'.blk.map (·.bid) = s.v.blk.map (·.bid) ∧ v'.cap = s.v.cap ∧ v'.align = s.v.align ∧
      v'.isDefault = s.v.isDefault ∧ v'.blk.map (·.lay) = s.v.blk.map (·.lay) := by
  have hL : (hsOf s.v s.sys.allocIdx).L = es.length := h.len_eq
  have hd : s.v.isDefault = false := by
    cases hd : s.v.isDefault
    · rfl
    · have := (h.sentinel hd).2; subst this; simp at hi
  obtain ⟨b, hb, hl, hs, hlc, hel, hinit⟩ := h.alloc hd
  have hal : b.lay.align = s.v.align := (make_layout_honest _ _ _ _ hl).2.1
  have hcapb : s.v.cap ≤ b.slots.length := by rw [hs]; exact physSlots_ge X.env _ _ _ hl h.elem_pos
  have h1 : VM.lift X (remove_pre X.env i) s = (.ok (.cont ⟨i, es.length⟩), s) :=
    lift_read X _ s _ (by
      unfold remove_pre
      simp only [len_run, GM.bind_run, GM.ite_run, decide_eq_true_eq, GM.throw_run, GM.pure_run, hL]
      rw [if_neg (by omega)])
  have h2 : VM.lift X (as_mut_ptr X.env) s = (.ok (.at (dataOff s.v.align)), s) :=
    lift_read X _ s _ (as_mut_ptr_run X.env _ hd b.lay s.v.cap hl)
  have h3 := rd_abs X s es h hd i hi
  have h4 := cp_blk s b hb (i + 1) i (es.length - i - 1) (by omega) (by omega)
  rw [hal] at h4
  let s1 : St := { s with v := { s.v with blk := some { b with slots := copySlots b.slots (i + 1) i (es.length - i - 1) } } }
  have h5 := lift_set_len X (es.length - 1) s1 hd
  refine ⟨{ s.v with blk := some { b with slots := copySlots b.slots (i + 1) i (es.length - i - 1) }, len := es.length - 1 }, ?_, ?_, ?_, rfl, rfl, rfl, by simp [hb]⟩
  · unfold Vec.remove
    simp only [VM.bind_run, h1, h2, h3, h4, VM.pure_run]
    rw [h5]
  · refine ⟨h.elem_pos, fun hx => by simp [hd] at hx, fun _ => ⟨_, rfl, hl, ?_, by simp; omega, by simp [List.length_eraseIdx, hi], ?_⟩⟩
    · simp only; rw [copySlots_length _ _ _ _ (by omega) (by omega)]; exact hs
    · intro j hj
      simp only at hj ⊢
      rw [copySlots_get _ _ _ _ _ (by omega) (by omega)]
      by_cases hji : j < i
      · rw [if_neg (by omega), hinit j (by omega), List.getElem?_eraseIdx_of_lt hji]
      · rw [if_pos (by omega), hinit _ (by omega), List.getElem?_eraseIdx_of_ge (by omega)]
        congr 2; omega
  · simp [hb]

/-- the header words of the handle after `lift` are those the decision program ended with -/
theorem lift_v_hdr {α} (X : Ctx) (g : GM α) (s : St) :
    (VM.lift X g s).2.v.cap = (g (hsOf s.v s.sys.allocIdx)).2.cap ∧
    (VM.lift X g s).2.v.len = (g (hsOf s.v s.sys.allocIdx)).2.len ∧
    (VM.lift X g s).2.v.isDefault = (g (hsOf s.v s.sys.allocIdx)).2.isDefault := by
  rw [lift_run]
  simp only
  split <;> simp [withHdr]

theorem insert_pre_capOutcome (E : Env) (gs : GS) (idx : Nat) (hf : gs.fresh = none) (hi : idx ≤ gs.L) :
    CapOutcomeR E gs (Flow.cont (⟨idx, gs.L⟩ : Env_insert)) (insert_pre E idx gs) := by
  rw [MV.Props.C11_insert, if_neg (by omega)]
  by_cases hfull : gs.L = gs.C
  · rw [if_pos hfull]
    have := reserve_capOutcome E gs 1 hf
    generalize reserve E 1 gs = out at this
    cases this with
    | same => exact .same
    | rejected p hp => exact .rejected p hp
    | allocFailed req hr => exact .allocFailed req hr
    | grownAlloc c a L hd hL => exact .grownAlloc c a L hd hL
    | grownRealloc c L L0 hd hl hL hL0 => exact .grownRealloc c L L0 hd hl hL hL0
  · rw [if_neg hfull]; exact .same

/-- after the grow decision of `insert` returned, there is room for one more element -/
theorem insert_pre_room (E : Env) (gs gs' : GS) (idx : Nat) (f : Flow Env_insert) (hf : gs.fresh = none)
    (hi : idx ≤ gs.L) (hlc : gs.L ≤ gs.C) (h : insert_pre E idx gs = (.ok f, gs')) : gs'.L = gs.L ∧ gs.L < gs'.C := by
  rw [MV.Props.C11_insert, if_neg (by omega)] at h
  by_cases hfull : gs.L = gs.C
  · rw [if_pos hfull] at h
    cases hr : reserve E 1 gs with
    | mk r g1 =>
      rw [hr] at h
      cases r with
      | error p => simp at h
      | ok u =>
        simp at h
        obtain ⟨_, rfl⟩ := h
        have := MV.Props.C07_reserve E 1 gs g1 hf hr
        omega
  · rw [if_neg hfull] at h
    obtain ⟨_, rfl⟩ := Prod.mk.inj h
    exact ⟨rfl, by omega⟩

theorem inb_blk (s : St) (b : Blk) (hb : s.v.blk = some b) (i : Nat) (hi : i ≤ b.slots.length) :
    VM.inb (.at (dataOff b.lay.align)) i s = (.ok (), s) := by
  unfold VM.inb VM.blockAt
  simp [hb, hi]

/-- pointwise description of the list with `e` inserted at `idx` -/
theorem insertAt_get (es : List Elem) (idx : Nat) (e : Elem) (j : Nat) (hidx : idx ≤ es.length) :
    (es.take idx ++ [e] ++ es.drop idx)[j]? =
      if j < idx then es[j]? else if j = idx then some e else es[j - 1]? := by
  have hm : (es.take idx).length = idx := by simp; omega
  by_cases h1 : j < idx
  · rw [if_pos h1, List.append_assoc, List.getElem?_append_left (by omega)]
    simp [h1]
  · rw [if_neg h1]
    by_cases h2 : j = idx
    · subst h2
      rw [if_pos rfl, List.append_assoc, List.getElem?_append_right (by omega), hm]
      simp
    · rw [if_neg h2, List.getElem?_append_right (by simp; omega)]
      simp only [List.length_append, hm, List.length_singleton]
      rw [List.getElem?_drop]
      congr 1; omega

/-- the element shift, write and length bump that end `insert` -/
theorem insert_tail (X : Ctx) (s : St) (es : List Elem) (idx : Nat) (e : Elem) (h : Abs X s.v es)
    (hd : s.v.isDefault = false) (hroom : s.v.len < s.v.cap) (hidx : idx ≤ es.length) :
    ∃ v', (do
        let p ← VM.lift X (as_mut_ptr X.env)
        VM.inb p (idx + 1)
        VM.cp p idx (idx + 1) (es.length - idx)
        VM.wr p idx e
        VM.lift X (set_len X.env (es.length + 1)) : VM Unit) s = (.ok (), { s with v := v' }) ∧
      Abs X v' (es.take idx ++ [e] ++ es.drop idx) ∧ v'.cap = s.v.cap ∧ v'.isDefault = false ∧
      v'.align = s.v.align ∧ v'.blk.map (fun b => (b.bid, b.lay)) = s.v.blk.map (fun b => (b.bid, b.lay)) := by
  obtain ⟨b, hb, hl, hs, hlc, hel, hinit⟩ := h.alloc hd
  have hal : b.lay.align = s.v.align := (make_layout_honest _ _ _ _ hl).2.1
  have hcapb : s.v.cap ≤ b.slots.length := by rw [hs]; exact physSlots_ge X.env _ _ _ hl h.elem_pos
  have h1 : VM.lift X (as_mut_ptr X.env) s = (.ok (.at (dataOff s.v.align)), s) :=
    lift_read X _ s _ (as_mut_ptr_run X.env _ hd b.lay s.v.cap hl)
  have h2 := inb_blk s b hb (idx + 1) (by omega)
  have h3 := cp_blk s b hb idx (idx + 1) (es.length - idx) (by omega) (by omega)
  rw [hal] at h2 h3
  have hlen1 : (copySlots b.slots idx (idx + 1) (es.length - idx)).length = b.slots.length :=
    copySlots_length _ _ _ _ (by omega) (by omega)
  have h4 : VM.wr (.at (dataOff s.v.align)) idx e
      { s with v := { s.v with blk := some { b with slots := copySlots b.slots idx (idx + 1) (es.length - idx) } } } =
      (.ok (), { s with v := { s.v with blk := some { b with slots :=
          (copySlots b.slots idx (idx + 1) (es.length - idx)).set idx (some e) } } }) := by
    unfold VM.wr VM.blockAt VM.putBlock
    have : idx < (copySlots b.slots idx (idx + 1) (es.length - idx)).length := by rw [hlen1]; omega
    simp [hal, this]
  have h5 := lift_set_len X (es.length + 1)
    { s with v := { s.v with blk := some { b with slots :=
        (copySlots b.slots idx (idx + 1) (es.length - idx)).set idx (some e) } } } hd
  refine ⟨{ s.v with len := es.length + 1, blk := some { b with slots := (copySlots b.slots idx (idx + 1) (es.length - idx)).set idx (some e) } }, ?_, ?_, rfl, hd, rfl, by simp [hb]⟩
  · simp only [VM.bind_run, h1, h2, h3, h4, h5]
  · refine ⟨h.elem_pos, fun hx => by simp [hd] at hx, fun _ => ⟨_, rfl, hl, ?_, ?_, ?_, ?_⟩⟩
    · simp only [List.length_set]; rw [hlen1]; exact hs
    · simp only; omega
    · simp; omega
    · intro j hj
      simp only at hj ⊢
      rw [insertAt_get es idx e j hidx]
      by_cases hje : j = idx
      · subst hje
        rw [List.getElem?_set_self (by rw [hlen1]; omega)]
        simp
      · rw [List.getElem?_set_ne (by omega)]
        rw [copySlots_get _ _ _ _ _ (by omega) (by omega)]
        by_cases hlt : j < idx
        · rw [if_neg (by omega), if_pos hlt, hinit j (by omega)]
        · rw [if_pos (by omega), if_neg hlt, if_neg hje, hinit _ (by omega)]
          congr 2; omega

/-- every way `insert` can end on a well-formed handle -/
inductive InsertRes (X : Ctx) (s : St) (es : List Elem) (idx : Nat) (e : Elem) : Except Panic Unit × St → Prop
  | inserted (s' : St) : idx ≤ es.length → Abs X s'.v (es.take idx ++ [e] ++ es.drop idx) → InsertRes X s es idx e (.ok (), s')
  | stopped (p : Panic) (s' : St) : s'.v = s.v → Panic.benign p = true → InsertRes X s es idx e (.error p, s')

/-- `insert(idx, e)`: for `idx ≤ len` the element is inserted at `idx` (everything behind it moves up
    by one), or the call stops benignly with the vector untouched; for `idx > len` it panics with the
    vector untouched. -/
theorem insert_spec (X : Ctx) (s : St) (es : List Elem) (idx : Nat) (e : Elem) (h : Abs X s.v es) :
    InsertRes X s es idx e (Vec.insert X idx e s) ∧
    (idx > es.length → ∃ p s', Vec.insert X idx e s = (.error p, s') ∧ s'.v = s.v) := by
  have hL : (hsOf s.v s.sys.allocIdx).L = es.length := h.len_eq
  have hlc : (hsOf s.v s.sys.allocIdx).L ≤ (hsOf s.v s.sys.allocIdx).C := by
    cases hd : s.v.isDefault with
    | true => simp [GS.L, GS.C, hsOf, hd]
    | false =>
      obtain ⟨_, _, _, _, hlc, _, _⟩ := h.alloc hd
      simp [GS.L, GS.C, hsOf, hd, hlc]
  by_cases hgt : idx > es.length
  · -- rejected by the guard before anything is touched
    have hrun : insert_pre X.env idx (hsOf s.v s.sys.allocIdx) = (.error .explicit, hsOf s.v s.sys.allocIdx) := by
      rw [MV.Props.C11_insert, if_pos (by omega)]
    have h1 : VM.lift X (insert_pre X.env idx) s = (.error .explicit, s) := lift_read X _ s _ hrun
    obtain ⟨q, s2, ho, hv, hq⟩ := ownArgs_err (α := Flow Env_insert) X [e] _ s s .explicit h1 rfl
    have hres : Vec.insert X idx e s = (.error q, s2) := by
      unfold Vec.insert; simp only [VM.bind_run, ho]
    exact ⟨by rw [hres]; exact .stopped q s2 hv hq, fun _ => ⟨q, s2, hres, hv⟩⟩
  · have hidx : idx ≤ es.length := by omega
    refine ⟨?_, fun h' => absurd h' hgt⟩
    have hco := insert_pre_capOutcome X.env (hsOf s.v s.sys.allocIdx) idx rfl (by omega)
    have hmem := lift_cap X (insert_pre X.env idx) _ s es h hco
    have hhdr := lift_v_hdr X (insert_pre X.env idx) s
    unfold Vec.insert
    simp only [VM.bind_run]
    generalize hlr : VM.lift X (insert_pre X.env idx) s = out at hmem hhdr
    -- the room left after the grow decision
    have hroomOf : ∀ (s1 : St), out = (.ok (Flow.cont (⟨idx, (hsOf s.v s.sys.allocIdx).L⟩ : Env_insert)), s1) →
        s1.v.isDefault = false → s1.v.len < s1.v.cap := by
      intro s1 ho hd1
      cases hio : insert_pre X.env idx (hsOf s.v s.sys.allocIdx) with
      | mk r g1 =>
        rw [hio] at hhdr
        cases r with
        | error p =>
          -- impossible: lift returns the program's result unless the replay is bad (then `.ub`)
          rw [lift_run, hio] at hlr
          simp only at hlr
          split at hlr <;> rw [ho] at hlr <;> simp at hlr
        | ok f =>
          have ⟨hl1, hc1⟩ := insert_pre_room X.env _ g1 idx f rfl (by omega) hlc hio
          rw [ho] at hhdr
          simp only at hhdr
          have hg1d : g1.isDefault = false := by rw [← hhdr.2.2]; exact hd1
          have e1 : g1.L = g1.len := by simp [GS.L, hg1d]
          have e2 : g1.C = g1.cap := by simp [GS.C, hg1d]
          rw [hhdr.1, hhdr.2.1]
          rw [e1] at hl1
          rw [e2] at hc1
          omega
    cases hmem with
    | same =>
      rw [ownArgs_ok X [e] _ s s _ hlr]
      simp only
      have hd : s.v.isDefault = false := by
        cases hd : s.v.isDefault
        · rfl
        · exfalso
          -- a never-allocated handle is full (0 = 0), so `insert` has to grow: `same` is impossible
          have hfull : (hsOf s.v s.sys.allocIdx).L = (hsOf s.v s.sys.allocIdx).C := by simp [GS.L, GS.C, hsOf, hd]
          cases hio : insert_pre X.env idx (hsOf s.v s.sys.allocIdx) with
          | mk r g1 =>
            have hh := hhdr
            rw [hio] at hh
            simp only at hh
            cases r with
            | error p =>
              rw [lift_run, hio] at hlr
              simp only at hlr
              split at hlr <;> simp at hlr
            | ok f =>
              have ⟨_, hc1⟩ := insert_pre_room X.env _ g1 idx f rfl (by omega) hlc hio
              have hg1d : g1.isDefault = true := by rw [← hh.2.2]; exact hd
              simp [GS.C, hg1d] at hc1
      have hroom := hroomOf s rfl hd
      obtain ⟨v', ht, habs, _, _⟩ := insert_tail X s es idx e h hd hroom hidx
      rw [hL]
      rw [ht]
      exact .inserted _ hidx habs
    | stopped p s' hv hp _ =>
      obtain ⟨q, s2, ho, hv2, hq⟩ := ownArgs_err (α := Flow Env_insert) X [e] _ s s' p hlr hp
      rw [ho]
      exact .stopped q s2 (by rw [hv2, hv]) hq
    | grown s' habs hd' hlen' _ _ =>
      rw [ownArgs_ok X [e] _ s s' _ hlr]
      simp only
      have hroom := hroomOf s' rfl hd'
      obtain ⟨v', ht, habs2, _, _⟩ := insert_tail X s' es idx e habs hd' hroom hidx
      rw [hL]
      rw [ht]
      exact .inserted _ hidx habs2

theorem hdrLenSub_run (X : Ctx) (s : St) (n : Nat) (hd : s.v.isDefault = false) (hle : n ≤ s.v.len) :
    Vec.hdrLenSub X n s = (.ok (), { s with v := { s.v with len := s.v.len - n } }) := by
  unfold Vec.hdrLenSub
  rw [lift_run]
  simp [GM.hdrLen, GM.setHdrLen, hsOf, hd, usub, hle, replay, replay1, withHdr]

theorem wr_blk (s : St) (b : Blk) (hb : s.v.blk = some b) (i : Nat) (hi : i < b.slots.length) (e : Elem) :
    VM.wr (.at (dataOff b.lay.align)) i e s =
      (.ok (), { s with v := { s.v with blk := some { b with slots := b.slots.set i (some e) } } }) := by
  unfold VM.wr VM.blockAt VM.putBlock
  simp [hb, hi]

/-- `swap_remove(i)` for `i < len`: returns element `i`; the last element takes its place -/
theorem swap_remove_spec (X : Ctx) (s : St) (es : List Elem) (i : Nat) (h : Abs X s.v es) (hi : i < es.length) :
    ∃ v', Vec.swap_remove X i s = (.ok es[i], { s with v := v' }) ∧
      Abs X v' ((es.set i (es[es.length - 1]'(by omega))).take (es.length - 1)) ∧ v'.cap = s.v.cap ∧
      v'.align = s.v.align ∧ v'.isDefault = s.v.isDefault ∧
      v'.blk.map (fun b => (b.bid, b.lay)) = s.v.blk.map (fun b => (b.bid, b.lay)) := by
  have hL : (hsOf s.v s.sys.allocIdx).L = es.length := h.len_eq
  have hd : s.v.isDefault = false := by
    cases hd : s.v.isDefault
    · rfl
    · have := (h.sentinel hd).2; subst this; simp at hi
  obtain ⟨b, hb, hl, hs, hlc, hel, hinit⟩ := h.alloc hd
  have hal : b.lay.align = s.v.align := (make_layout_honest _ _ _ _ hl).2.1
  have hcapb : s.v.cap ≤ b.slots.length := by rw [hs]; exact physSlots_ge X.env _ _ _ hl h.elem_pos
  have hlast : es.length - 1 < es.length := by omega
  have h1 : VM.lift X (swap_remove_pre X.env i) s = (.ok (.cont ⟨i, es.length⟩), s) :=
    lift_read X _ s _ (by rw [MV.Props.C11_swap_remove, hL, if_neg (by omega)])
  have h2 : VM.lift X (as_ptr X.env) s = (.ok (.at (dataOff s.v.align)), s) :=
    lift_read X _ s _ (as_ptr_run X.env _ hd b.lay s.v.cap hl)
  have h3 := rd_abs X s es h hd _ hlast
  have h4 := hdrLenSub_run X s 1 hd (by omega)
  have h5 : VM.lift X (as_mut_ptr X.env) { s with v := { s.v with len := s.v.len - 1 } } =
      (.ok (.at (dataOff s.v.align)), { s with v := { s.v with len := s.v.len - 1 } }) :=
    lift_read X _ _ _ (as_mut_ptr_run X.env _ hd b.lay s.v.cap hl)
  have h6 := rd_blk { s with v := { s.v with len := s.v.len - 1 } } b i es[i] hb (by
    rw [hinit i (by omega)]; simp [List.getElem?_eq_getElem hi])
  have h7 := wr_blk { s with v := { s.v with len := s.v.len - 1 } } b hb i (by omega) (es[es.length - 1])
  rw [hal] at h6 h7
  refine ⟨{ s.v with len := s.v.len - 1, blk := some { b with slots := b.slots.set i (some es[es.length - 1]) } }, ?_, ?_, rfl, rfl, rfl, by simp [hb]⟩
  · unfold Vec.swap_remove
    simp only [VM.bind_run, h1, h2, h3, h4, h5, h6, h7, VM.pure_run]
  · refine ⟨h.elem_pos, fun hx => by simp [hd] at hx, fun _ => ⟨_, rfl, hl, by simp [hs], by simp; omega, by simp; omega, ?_⟩⟩
    intro j hj
    simp only at hj ⊢
    rw [List.getElem?_take_of_lt (by omega)]
    by_cases hji : j = i
    · subst hji
      rw [List.getElem?_set_self (by omega), List.getElem?_set_self (by omega)]
    · rw [List.getElem?_set_ne (by omega), List.getElem?_set_ne (by omega), hinit j (by omega)]

end MV

#print axioms MV.remove_spec
#print axioms MV.swap_remove_spec
#print axioms MV.insert_spec

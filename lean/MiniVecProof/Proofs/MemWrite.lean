import MiniVecProof.Proofs.MemLoop
import MiniVecProof.Proofs.MemMove
/-
  T-MEM: loops that write a run of slots (also behind the recorded length): `append`, `split_off`,
  the tail insertion of `Splice`.
-/
namespace MV
open MV.Gen MV.GM VM

/-- `for i in 0..n { ptr::write(p.add(base + i), xs[i]) }` on one block -/
theorem forN_wr_go (base : Nat) (xs : List Elem) :
    ∀ (n i0 : Nat) (s : St) (b : Blk), s.v.blk = some b → base + i0 + n ≤ b.slots.length → i0 + n ≤ xs.length →
    ∃ b', VM.forN.go (fun i => VM.wr (.at (dataOff b.lay.align)) (base + i) (xs.getD i default)) n i0 s =
        (.ok (), { s with v := { s.v with blk := some b' } }) ∧
      b'.lay = b.lay ∧ b'.bid = b.bid ∧ b'.slots.length = b.slots.length ∧
      ∀ j, b'.slots[j]? = if base + i0 ≤ j ∧ j < base + i0 + n then some (xs[j - base]?) else b.slots[j]? := by
  intro n
  induction n with
  | zero =>
    intro i0 s b hb _ _
    refine ⟨b, ?_, rfl, rfl, rfl, fun j => by simp; intro h1 h2; omega⟩
    simp only [VM.forN.go, VM.pure_run]
    cases s with | mk sys v => cases v; simp at hb; simp [hb]
  | succ n ih =>
    intro i0 s b hb hlen hx
    have h1 := wr_blk s b hb (base + i0) (by omega) (xs.getD i0 default)
    let b1 : Blk := { b with slots := b.slots.set (base + i0) (some (xs.getD i0 default)) }
    let s1 : St := { s with v := { s.v with blk := some b1 } }
    obtain ⟨b', hrun, hlay, hbid, hl', hget⟩ := ih (i0 + 1) s1 b1 rfl (by simp [b1]; omega) (by omega)
    refine ⟨b', ?_, hlay, hbid, by rw [hl']; simp [b1], ?_⟩
    · unfold VM.forN.go
      simp only [VM.bind_run, h1]
      have : ({ s1 with v := { s1.v with blk := some b' } } : St) = { s with v := { s.v with blk := some b' } } := rfl
      rw [← this]
      exact hrun
    · intro j
      rw [hget j]
      by_cases hj : j = base + i0
      · subst hj
        have hi0 : i0 < xs.length := by omega
        simp [b1, show ¬ (base + (i0 + 1) ≤ base + i0) by omega, show base + i0 < b.slots.length by omega,
          List.getD_eq_getElem?_getD, List.getElem?_eq_getElem hi0]
      · by_cases hin : base + (i0 + 1) ≤ j ∧ j < base + (i0 + 1) + n
        · rw [if_pos hin, if_pos (by omega)]
        · rw [if_neg hin, if_neg (by omega)]
          simp [b1, List.getElem?_set_ne (Ne.symm hj)]

/-- writing `xs` behind the exposed elements and then publishing them -/
theorem write_tail_abs (X : Ctx) (s : St) (es xs : List Elem) (h : Abs X s.v es) (hd : s.v.isDefault = false)
    (hroom : es.length + xs.length ≤ s.v.cap) :
    ∃ v', VM.forN xs.length (fun i => VM.wr (.at (dataOff s.v.align)) (es.length + i) (xs.getD i default)) s =
        (.ok (), { s with v := v' }) ∧
      Abs X { v' with len := es.length + xs.length } (es ++ xs) ∧ v'.len = s.v.len ∧ v'.cap = s.v.cap ∧
      v'.isDefault = false ∧ v'.align = s.v.align ∧ v'.blk.map (·.bid) = s.v.blk.map (·.bid) ∧
      v'.blk.map (·.lay) = s.v.blk.map (·.lay) := by
  obtain ⟨b, hb, hl, hsl, hlc, hel, hinit⟩ := h.alloc hd
  have hal : b.lay.align = s.v.align := (make_layout_honest _ _ _ _ hl).2.1
  have hcapb : s.v.cap ≤ b.slots.length := by rw [hsl]; exact physSlots_ge X.env _ _ _ hl h.elem_pos
  obtain ⟨b', hrun, hlay, hbid, hl', hget⟩ := forN_wr_go es.length xs xs.length 0 s b hb (by omega) (by omega)
  rw [hal] at hrun
  refine ⟨{ s.v with blk := some b' }, by simpa [VM.forN] using hrun, ?_, rfl, rfl, hd, rfl, by simp [hb, hbid], by simp [hb, hlay]⟩
  refine ⟨h.elem_pos, fun hx => by simp [hd] at hx, fun _ => ⟨b', rfl, by rw [hlay]; exact hl, by rw [hl', hlay]; exact hsl,
    by simpa using hroom, by simp, ?_⟩⟩
  intro i hi
  simp only at hi
  rw [hget i]
  by_cases hlo : i < es.length
  · rw [if_neg (by omega), hinit i (by omega), List.getElem?_append_left hlo]
  · rw [if_pos (by omega), List.getElem?_append_right (by omega)]

end MV

namespace MV
open MV.Gen MV.GM VM

theorem lift_fst {α} (X : Ctx) (g : GM α) (s : St) (a : α) (h : (VM.lift X g s).1 = .ok a) :
    (g (hsOf s.v s.sys.allocIdx)).1 = .ok a := by
  rw [lift_run] at h
  simp only at h
  split at h
  · simp at h
  · exact h

/-- `reserve(n)` with `n > 0`: afterwards there is room for `n` more elements (or the call stopped) -/
theorem reserve_room (X : Ctx) (s : St) (es : List Elem) (n : Nat) (h : Abs X s.v es) (hn : 0 < n) :
    (∃ s', Vec.reserve X n s = (.ok (), s') ∧ Abs X s'.v es ∧ s'.v.isDefault = false ∧ es.length + n ≤ s'.v.cap) ∨
    (∃ p s', Vec.reserve X n s = (.error p, s') ∧ Panic.benign p = true ∧ s'.v = s.v) := by
  have hL : (hsOf s.v s.sys.allocIdx).L = es.length := h.len_eq
  have hr := reserve_mem X s es n h
  cases hres : Vec.reserve X n s with
  | mk r s' =>
    rw [hres] at hr
    cases r with
    | error p =>
      cases hr with
      | stopped _ _ hv hp _ => exact .inr ⟨p, s', rfl, hp, hv⟩
    | ok u =>
      have habs : Abs X s'.v es := by
        cases hr with
        | same => exact h
        | grown _ habs _ _ _ _ => exact habs
      have hg : (reserve X.env n (hsOf s.v s.sys.allocIdx)).1 = .ok () := by
        apply lift_fst X _ s ()
        show (Vec.reserve X n s).1 = _
        rw [hres]
      have hpair : reserve X.env n (hsOf s.v s.sys.allocIdx) = (.ok (), (reserve X.env n (hsOf s.v s.sys.allocIdx)).2) := by
        rw [← hg]
      obtain ⟨hc, hl, _⟩ := MV.Props.C07_reserve X.env n _ _ rfl hpair
      obtain ⟨hcap, hlen, hdf⟩ := lift_v_hdr X (reserve X.env n) s
      have hs' : (VM.lift X (reserve X.env n) s).2 = s' := by
        show (Vec.reserve X n s).2 = _
        rw [hres]
      rw [hs'] at hcap hlen hdf
      rw [hl, hL] at hc
      have hnd : s'.v.isDefault = false := by
        cases hd : s'.v.isDefault
        · rfl
        · rw [hd] at hdf
          simp [GS.C, ← hdf] at hc
          omega
      refine .inl ⟨s', rfl, habs, hnd, ?_⟩
      rw [hnd] at hdf
      simp [GS.C, ← hdf] at hc
      rw [hcap]; exact hc

end MV

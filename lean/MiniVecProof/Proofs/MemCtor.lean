import MiniVecProof.Proofs.MemLoop
/-
  T-MEM: constructors on the never-allocated handle `{}`: `with_capacity` through `lift`.
-/
namespace MV
open MV.Gen MV.GM VM

/-- a leading `reset` action is a no-op on a handle that owns no block -/
theorem lift_drop_reset {α} (X : Ctx) (g : GM α) (s : St) (hb : s.v.blk = none) (acts : List Action)
    (ha : (g (hsOf s.v s.sys.allocIdx)).2.acts = .reset :: acts) :
    VM.lift X g s = VM.lift X (fun gs => ((g gs).1, { (g gs).2 with acts := (g gs).2.acts.tail })) s := by
  have e1 := lift_run X g s
  have e2 := lift_run X (fun gs => ((g gs).1, { (g gs).2 with acts := (g gs).2.acts.tail })) s
  rw [e1, e2]
  simp only [ha, List.tail_cons]
  have : replay X.c { sys := s.sys, blk := s.v.blk, fresh := none } (.reset :: acts) =
      replay X.c { sys := s.sys, blk := s.v.blk, fresh := none } acts := by
    simp [replay, replay1, hb]
  rw [this]
  rfl

/-- `with_capacity(n)` on the never-allocated handle: the empty vector stays empty; it owns a
    correctly laid out block of capacity `n` afterwards, or the call stops in a sanctioned way -/
theorem with_capacity_mem (X : Ctx) (hz : 0 < X.c.elemSize) (s : St) (hv : s.v = {}) (n : Nat) :
    CapMem X s [] (VM.lift X (with_capacity X.env n) s) := by
  have hzE : X.env.c.elemSize > 0 := hz
  have habs : Abs X s.v [] := by rw [hv]; exact Abs.sentinel_abs X hz
  let gs0 := hsOf s.v s.sys.allocIdx
  have hgs0 : gs0 = { isDefault := true, len := 0, cap := 0, align := 0, allocIdx := s.sys.allocIdx } := by
    simp [gs0, hsOf, hv]
  have hwc : with_capacity X.env n gs0 = reserve_exact X.env n gs0.reset := by
    rw [with_capacity_spec]; simp [hzE]
  have hco := reserve_exact_capOutcome X.env gs0.reset n (by simp [GS.reset, hgs0])
  -- every outcome state starts its action log with the `reset`
  have hreset_acts : gs0.reset.acts = [.reset] := by simp [GS.reset, hgs0]
  have hdrop : ({ gs0.reset with acts := gs0.reset.acts.tail } : GS) = gs0 := by
    simp [GS.reset, hgs0]
  have hacts : ∃ acts, (with_capacity X.env n gs0).2.acts = .reset :: acts := by
    rw [hwc]
    generalize reserve_exact X.env n gs0.reset = out at hco
    cases hco with
    | same => exact ⟨[], hreset_acts⟩
    | rejected p hp => exact ⟨[], hreset_acts⟩
    | allocFailed req hreq => exact ⟨[req], by simp [GS.refused, hreset_acts]⟩
    | grownAlloc c a L hd hLy => exact ⟨_, by simp only [GS.grown, hreset_acts]; rfl⟩
    | grownRealloc c L L0 hd hlen hLy hL0 => simp [GS.reset] at hd
  obtain ⟨acts, ha⟩ := hacts
  rw [lift_drop_reset X _ s (by rw [hv]) acts ha]
  apply lift_cap X _ () s [] habs
  show CapOutcomeR X.env gs0 () (((with_capacity X.env n gs0).1, { (with_capacity X.env n gs0).2 with acts := (with_capacity X.env n gs0).2.acts.tail }))
  rw [hwc]
  generalize reserve_exact X.env n gs0.reset = out at hco
  cases hco with
  | same => simp only; rw [hdrop]; exact .same
  | rejected p hp => simp only; rw [hdrop]; exact .rejected p hp
  | allocFailed req hreq =>
    have : ({ gs0.reset.refused req with acts := (gs0.reset.refused req).acts.tail } : GS) = gs0.refused req := by
      simp [GS.refused, GS.reset, hgs0]
    simp only; rw [this]; exact .allocFailed req hreq
  | grownAlloc c a L hd hLy =>
    have : ({ gs0.reset.grown c a (.alloc L.size L.align) with acts := (gs0.reset.grown c a (.alloc L.size L.align)).acts.tail } : GS) =
        gs0.grown c a (.alloc L.size L.align) := by
      simp [GS.grown, GS.reset, hgs0, GS.L]
    simp only; rw [this]; exact .grownAlloc c a L (by simp [hgs0]) hLy
  | grownRealloc c L L0 hd hlen hLy hL0 => simp [GS.reset] at hd

/-- `with_alignment(n, a)` on the never-allocated handle: an unacceptable alignment is reported through `Err` with
    nothing touched; otherwise the empty vector owns a correctly laid out block of capacity `n` requested with
    alignment `a`, or the call stops in a sanctioned way -/
theorem with_alignment_mem (X : Ctx) (hz : 0 < X.c.elemSize) (s : St) (hv : s.v = {}) (n a : Nat) :
    (∃ e, VM.lift X (with_alignment X.env n a) s = (.ok (.error e), s)) ∨
    CapMemR X s [] (Except.ok () : Except LayoutErr Unit) (VM.lift X (with_alignment X.env n a) s) := by
  have hzE : X.env.c.elemSize > 0 := hz
  have habs : Abs X s.v [] := by rw [hv]; exact Abs.sentinel_abs X hz
  let gs0 := hsOf s.v s.sys.allocIdx
  have hgs0 : gs0 = { isDefault := true, len := 0, cap := 0, align := 0, allocIdx := s.sys.allocIdx } := by
    simp [gs0, hsOf, hv]
  by_cases h1 : a < max X.env.c.elemAlign hdrAlign
  · left
    exact ⟨.AlignmentTooSmall, lift_read X _ s _ (by rw [with_alignment_spec, if_pos h1])⟩
  · by_cases h2 : isPow2 a = false
    · left
      exact ⟨.AlignmentNotDivisibleByTwo, lift_read X _ s _ (by rw [with_alignment_spec, if_neg h1, if_pos h2])⟩
    · right
      have hwa : with_alignment X.env n a gs0 =
          (match grow X.env n a gs0.reset with
           | (.ok _, s') => (.ok (.ok ()), s')
           | (.error p, s') => (.error p, s')) := by
        rw [with_alignment_spec, if_neg h1, if_neg h2, if_pos hzE]
        cases grow X.env n a gs0.reset with
        | mk r s' => cases r <;> rfl
      have hco := grow_capOutcome X.env gs0.reset n a (by simp [GS.reset, hgs0]) (by simp [GS.L, GS.reset, hgs0])
        (by intro hd; simp [GS.reset, hgs0] at hd)
      have hreset_acts : gs0.reset.acts = [.reset] := by simp [GS.reset, hgs0]
      have hdrop : ({ gs0.reset with acts := gs0.reset.acts.tail } : GS) = gs0 := by
        simp [GS.reset, hgs0]
      have hacts : ∃ acts, (with_alignment X.env n a gs0).2.acts = .reset :: acts := by
        rw [hwa]
        generalize grow X.env n a gs0.reset = out at hco
        cases hco with
        | same => exact ⟨[], hreset_acts⟩
        | rejected p hp => exact ⟨[], hreset_acts⟩
        | allocFailed req hreq => exact ⟨[req], by simp [GS.refused, hreset_acts]⟩
        | grownAlloc c a' L hd hLy => exact ⟨_, by simp only [GS.grown, hreset_acts]; rfl⟩
        | grownRealloc c L L0 hd hlen hLy hL0 => simp [GS.reset] at hd
      obtain ⟨acts, ha⟩ := hacts
      rw [lift_drop_reset X _ s (by rw [hv]) acts ha]
      apply lift_cap X _ (Except.ok () : Except LayoutErr Unit) s [] habs
      show CapOutcomeR X.env gs0 (Except.ok () : Except LayoutErr Unit)
        (((with_alignment X.env n a gs0).1, { (with_alignment X.env n a gs0).2 with acts := (with_alignment X.env n a gs0).2.acts.tail }))
      rw [hwa]
      generalize grow X.env n a gs0.reset = out at hco
      cases hco with
      | same => simp only; rw [hdrop]; exact .same
      | rejected p hp => simp only; rw [hdrop]; exact .rejected p hp
      | allocFailed req hreq =>
        have : ({ gs0.reset.refused req with acts := (gs0.reset.refused req).acts.tail } : GS) = gs0.refused req := by
          simp [GS.refused, GS.reset, hgs0]
        simp only; rw [this]; exact .allocFailed req hreq
      | grownAlloc c a' L hd hLy =>
        have : ({ gs0.reset.grown c a' (.alloc L.size L.align) with acts := (gs0.reset.grown c a' (.alloc L.size L.align)).acts.tail } : GS) =
            gs0.grown c a' (.alloc L.size L.align) := by
          simp [GS.grown, GS.reset, hgs0, GS.L]
        simp only; rw [this]; exact .grownAlloc c a' L (by simp [hgs0]) hLy
      | grownRealloc c L L0 hd hlen hLy hL0 => simp [GS.reset] at hd

end MV

import MiniVecProof.Proofs.MemDrop
import MiniVecProof.Proofs.MemCap
/-
  T-MEM: loops that append one element per round (`clone`, `extend_from_slice`, `From<&[T]>`,
  the macro forms): a round invariant lifted over `forN`.
-/
namespace MV
open MV.Gen MV.GM VM

/-- one round either appends an element satisfying `P i` or stops benignly with the focus as it was -/
def RoundSpec (X : Ctx) (n : Nat) (P : Nat → Elem → Prop) (f : Nat → VM Unit) : Prop :=
  ∀ (i : Nat) (s : St) (acc : List Elem), i < n → Abs X s.v acc →
    (∃ e s', f i s = (.ok (), s') ∧ Abs X s'.v (acc ++ [e]) ∧ P i e) ∨
    (∃ p s', f i s = (.error p, s') ∧ Panic.benign p = true ∧ s'.v = s.v)

theorem forN_go_spec (X : Ctx) (n : Nat) (P : Nat → Elem → Prop) (f : Nat → VM Unit) (hf : RoundSpec X n P f)
    (k : Nat) : ∀ (i : Nat) (s : St) (acc : List Elem), i + k ≤ n → Abs X s.v acc →
    (∃ l s', VM.forN.go f k i s = (.ok (), s') ∧ Abs X s'.v (acc ++ l) ∧ l.length = k ∧
        ∀ j (hj : j < l.length), P (i + j) l[j]) ∨
    (∃ p s' acc', VM.forN.go f k i s = (.error p, s') ∧ Panic.benign p = true ∧ Abs X s'.v acc') := by
  induction k with
  | zero =>
    intro i s acc _ h
    exact .inl ⟨[], s, by simp [VM.forN.go], by simpa using h, rfl, fun j hj => by simp at hj⟩
  | succ k ih =>
    intro i s acc hik h
    rcases hf i s acc (by omega) h with ⟨e, s1, hrun, habs, hp⟩ | ⟨p, s1, hrun, hb, hv⟩
    · rcases ih (i + 1) s1 (acc ++ [e]) (by omega) habs with ⟨l, s2, hrun2, habs2, hl, hP⟩ | ⟨p, s2, acc', hrun2, hb, habs2⟩
      · refine .inl ⟨e :: l, s2, ?_, by simpa using habs2, by simp [hl], ?_⟩
        · unfold VM.forN.go; simp only [VM.bind_run, hrun, hrun2]
        · intro j hj
          cases j with
          | zero => simpa using hp
          | succ j =>
            have := hP j (by simpa using hj)
            simp only [List.getElem_cons_succ]
            rw [show i + (j + 1) = i + 1 + j by omega]; exact this
      · refine .inr ⟨p, s2, acc', ?_, hb, habs2⟩
        unfold VM.forN.go; simp only [VM.bind_run, hrun, hrun2]
    · refine .inr ⟨p, s1, acc, ?_, hb, by rw [hv]; exact h⟩
      unfold VM.forN.go; simp only [VM.bind_run, hrun]

theorem forN_spec (X : Ctx) (n : Nat) (P : Nat → Elem → Prop) (f : Nat → VM Unit) (hf : RoundSpec X n P f)
    (s : St) (acc : List Elem) (h : Abs X s.v acc) :
    (∃ l s', VM.forN n f s = (.ok (), s') ∧ Abs X s'.v (acc ++ l) ∧ l.length = n ∧
        ∀ j (hj : j < l.length), P j l[j]) ∨
    (∃ p s' acc', VM.forN n f s = (.error p, s') ∧ Panic.benign p = true ∧ Abs X s'.v acc') := by
  have := forN_go_spec X n P f hf n 0 s acc (by omega) h
  simpa [VM.forN] using this

/-- `Clone::clone` of an element when no user code panics: a fresh identity with the same value -/
theorem cloneElem_quiet (X : Ctx) (hq : ∀ k, X.o.panicAt k = false) (e : Elem) (s : St) :
    ∃ s', VM.cloneElem X e s = (.ok ⟨s.sys.nextId, e.val⟩, s') ∧ s'.v = s.v := by
  unfold VM.cloneElem
  simp only [VM.bind_run, VM.callback, hq, Bool.false_eq_true, if_false, VM.freshId, VM.emit, VM.pure_run]
  exact ⟨_, rfl, rfl⟩

theorem onVec_ok {α} (o : VSt) (x : VM α) (s : St) (a : α) (s1 : St) (h : x { s with v := o } = (.ok a, s1)) :
    VM.onVec o x s = (.ok (a, s1.v), { s1 with v := s.v }) := by
  unfold VM.onVec; rw [h]

/-- reading element `i` of a borrowed well-formed vector leaves everything as it was -/
theorem readOf_spec (X : Ctx) (src : VSt) (es : List Elem) (h : Abs X src es) (i : Nat) (hi : i < es.length) (s : St) :
    Vec.readOf X src i s = (.ok es[i], s) := by
  have hd : src.isDefault = false := by
    cases hd : src.isDefault
    · rfl
    · have := (h.sentinel hd).2; subst this; simp at hi
  obtain ⟨b, hb, hl, hs, hlc, hel, hinit⟩ := h.alloc hd
  let s0 : St := { s with v := src }
  have hL : (hsOf s0.v s0.sys.allocIdx).L = es.length := h.len_eq
  have h1 : VM.lift X (len X.env) s0 = (.ok es.length, s0) := lift_read X _ s0 _ (by rw [len_run, hL])
  have h2 : VM.lift X (as_ptr X.env) s0 = (.ok (.at (dataOff src.align)), s0) :=
    lift_read X _ s0 _ (as_ptr_run X.env _ hd b.lay src.cap hl)
  have h3 : VM.rd (.at (dataOff src.align)) i s0 = (.ok es[i], s0) := rd_abs X s0 es h hd i hi
  have hin : (do
      let l ← VM.lift X (len X.env)
      if i < l then do
        let p ← VM.lift X (as_ptr X.env)
        VM.rd p i
      else VM.throw .explicit : VM Elem) s0 = (.ok es[i], s0) := by
    simp only [VM.bind_run, h1, hi, if_true, h2]
    exact h3
  unfold Vec.readOf
  simp only [VM.bind_run, onVec_ok _ _ s _ _ hin, VM.pure_run]
  rfl

end MV

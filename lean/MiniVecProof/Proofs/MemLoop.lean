import MiniVecProof.Proofs.MemDrop
import MiniVecProof.Proofs.MemCap
/-
  T-MEM: loops that append one element per round (`clone`, `extend_from_slice`, `From<&[T]>`,
  the macro forms): a round invariant lifted over `forN`.
-/
namespace MV
open MV.Gen MV.GM VM

/-- one round either appends an element satisfying `P i` or stops benignly with the focus as it was -/
def RoundSpec (X : Ctx) (n : Nat) (P : Nat → Elem → Prop) (f : Nat → VM Unit) : Prop :=
  ∀ (i : Nat) (s : St) (acc : List Elem), i < n → Abs X s.v acc →
    (∃ e s', f i s = (.ok (), s') ∧ Abs X s'.v (acc ++ [e]) ∧ P i e) ∨
    (∃ p s', f i s = (.error p, s') ∧ Panic.benign p = true ∧ s'.v = s.v)

theorem forN_go_spec (X : Ctx) (n : Nat) (P : Nat → Elem → Prop) (f : Nat → VM Unit) (hf : RoundSpec X n P f)
    (k : Nat) : ∀ (i : Nat) (s : St) (acc : List Elem), i + k ≤ n → Abs X s.v acc →
    (∃ l s', VM.forN.go f k i s = (.ok (), s') ∧ Abs X s'.v (acc ++ l) ∧ l.length = k ∧
        ∀ j (hj : j < l.length), P (i + j) l[j]) ∨
    (∃ p s' acc', VM.forN.go f k i s = (.error p, s') ∧ Panic.benign p = true ∧ Abs X s'.v acc') := by
  induction k with
  | zero =>
    intro i s acc _ h
    exact .inl ⟨[], s, by simp [VM.forN.go], by simpa using h, rfl, fun j hj => by simp at hj⟩
  | succ k ih =>
    intro i s acc hik h
    rcases hf i s acc (by omega) h with ⟨e, s1, hrun, habs, hp⟩ | ⟨p, s1, hrun, hb, hv⟩
    · rcases ih (i + 1) s1 (acc ++ [e]) (by omega) habs with ⟨l, s2, hrun2, habs2, hl, hP⟩ | ⟨p, s2, acc', hrun2, hb, habs2⟩
      · refine .inl ⟨e :: l, s2, ?_, by simpa using habs2, by simp [hl], ?_⟩
        · unfold VM.forN.go; simp only [VM.bind_run, hrun, hrun2]
        · intro j hj
          cases j with
          | zero => simpa using hp
          | succ j =>
            have := hP j (by simpa using hj)
            simp only [List.getElem_cons_succ]
            rw [show i + (j + 1) = i + 1 + j by omega]; exact this
      · refine .inr ⟨p, s2, acc', ?_, hb, habs2⟩
        unfold VM.forN.go; simp only [VM.bind_run, hrun, hrun2]
    · refine .inr ⟨p, s1, acc, ?_, hb, by rw [hv]; exact h⟩
      unfold VM.forN.go; simp only [VM.bind_run, hrun]

theorem forN_spec (X : Ctx) (n : Nat) (P : Nat → Elem → Prop) (f : Nat → VM Unit) (hf : RoundSpec X n P f)
    (s : St) (acc : List Elem) (h : Abs X s.v acc) :
    (∃ l s', VM.forN n f s = (.ok (), s') ∧ Abs X s'.v (acc ++ l) ∧ l.length = n ∧
        ∀ j (hj : j < l.length), P j l[j]) ∨
    (∃ p s' acc', VM.forN n f s = (.error p, s') ∧ Panic.benign p = true ∧ Abs X s'.v acc') := by
  have := forN_go_spec X n P f hf n 0 s acc (by omega) h
  simpa [VM.forN] using this

/-- `Clone::clone` of an element when no user code panics: a fresh identity with the same value -/
theorem cloneElem_quiet (X : Ctx) (hq : ∀ k, X.o.panicAt k = false) (e : Elem) (s : St) :
    ∃ s', VM.cloneElem X e s = (.ok ⟨s.sys.nextId, e.val⟩, s') ∧ s'.v = s.v := by
  unfold VM.cloneElem
  simp only [VM.bind_run, VM.callback, hq, Bool.false_eq_true, if_false, VM.freshId, VM.emit, VM.pure_run]
  exact ⟨_, rfl, rfl⟩

theorem onVec_ok {α} (o : VSt) (x : VM α) (s : St) (a : α) (s1 : St) (h : x { s with v := o } = (.ok a, s1)) :
    VM.onVec o x s = (.ok (a, s1.v), { s1 with v := s.v }) := by
  unfold VM.onVec; rw [h]

/-- running a pure read on another vector -/
theorem onVec_read {α} (o : VSt) (x : VM α) (s : St) (a : α) (h : x { s with v := o } = (.ok a, { s with v := o })) :
    VM.onVec o x s = (.ok (a, o), s) := by
  unfold VM.onVec; rw [h]

/-- reading element `i` of a borrowed well-formed vector leaves everything as it was -/
theorem readOf_spec (X : Ctx) (src : VSt) (es : List Elem) (h : Abs X src es) (i : Nat) (hi : i < es.length) (s : St) :
    Vec.readOf X src i s = (.ok es[i], s) := by
  have hd : src.isDefault = false := by
    cases hd : src.isDefault
    · rfl
    · have := (h.sentinel hd).2; subst this; simp at hi
  obtain ⟨b, hb, hl, hs, hlc, hel, hinit⟩ := h.alloc hd
  let s0 : St := { s with v := src }
  have hL : (hsOf s0.v s0.sys.allocIdx).L = es.length := h.len_eq
  have h1 : VM.lift X (len X.env) s0 = (.ok es.length, s0) := lift_read X _ s0 _ (by rw [len_run, hL])
  have h2 : VM.lift X (as_ptr X.env) s0 = (.ok (.at (dataOff src.align)), s0) :=
    lift_read X _ s0 _ (as_ptr_run X.env _ hd b.lay src.cap hl)
  have h3 : VM.rd (.at (dataOff src.align)) i s0 = (.ok es[i], s0) := rd_abs X s0 es h hd i hi
  have hin : (do
      let l ← VM.lift X (len X.env)
      if i < l then do
        let p ← VM.lift X (as_ptr X.env)
        VM.rd p i
      else VM.throw .explicit : VM Elem) s0 = (.ok es[i], s0) := by
    simp only [VM.bind_run, h1, hi, if_true, h2]
    exact h3
  unfold Vec.readOf
  simp only [VM.bind_run, onVec_ok _ _ s _ _ hin, VM.pure_run]
  rfl

theorem lift_new_empty (X : Ctx) (hz : 0 < X.c.elemSize) (s : St) :
    VM.lift X (new X.env) { s with v := {} } = (.ok (), { s with v := {} }) := by
  rw [lift_run, new_spec]
  have : X.env.c.elemSize > 0 := hz
  simp only [this, if_true]
  simp [GS.reset, hsOf, replay, replay1, withHdr]

theorem dropVec_ok (X : Ctx) (hq : ∀ k, X.o.panicAt k = false) (s : St) (es : List Elem) (h : Abs X s.v es) :
    ∃ s', Vec.dropVec X s = (.ok (), s') := by
  obtain ⟨h1, h2⟩ := dropVec_spec X hq s es h
  cases hd : s.v.isDefault with
  | true => exact ⟨s, h1 hd⟩
  | false => obtain ⟨b, _, hr⟩ := h2 hd; exact ⟨_, hr⟩

/-- a local vector built by a computation that keeps it well formed: `withLocal` hands it out on
    success and destroys it on a sanctioned stop, restoring the focus either way -/
theorem withLocal_spec {α} (X : Ctx) (hq : ∀ k, X.o.panicAt k = false) (x : VM α) (s : St) (Q : α → St → Prop)
    (hx : (∃ a s', x { s with v := {} } = (.ok a, s') ∧ Q a s') ∨
          (∃ p s' acc, x { s with v := {} } = (.error p, s') ∧ Panic.benign p = true ∧ Abs X s'.v acc)) :
    (∃ a s', Vec.withLocal X {} x s = (.ok (a, s'.v), { s' with v := s.v }) ∧ Q a s') ∨
    (∃ p s', Vec.withLocal X {} x s = (.error p, s') ∧ Panic.benign p = true ∧ s'.v = s.v) := by
  unfold Vec.withLocal
  rcases hx with ⟨a, s', hr, hQ⟩ | ⟨p, s', acc, hr, hb, habs⟩
  · exact .inl ⟨a, s', by rw [hr], hQ⟩
  · rw [hr]
    simp only
    by_cases hu : VM.unwinds p = true
    · obtain ⟨s2, hd⟩ := dropVec_ok X hq s' acc habs
      rw [if_pos hu, hd]
      exact .inr ⟨p, _, rfl, hb, rfl⟩
    · rw [if_neg hu]
      exact .inr ⟨p, _, rfl, hb, rfl⟩

/-- the values a scripted iterator yields before its first `None` -/
def takeSome : Vec.IterScript → List Int
  | [] => []
  | none :: _ => []
  | some v :: rest => v :: takeSome rest

/-- what is left of the script after the loop stopped at the first `None` -/
def afterNone : Vec.IterScript → Vec.IterScript
  | [] => []
  | none :: rest => rest
  | some _ :: rest => afterNone rest

theorem mkElem_run (v : Int) (s : St) :
    VM.mkElem v s = (.ok ⟨s.sys.nextId, v⟩, { s with sys := { s.sys with nextId := s.sys.nextId + 1 } }) := by
  simp [VM.mkElem, VM.freshId, VM.bind_run]

/-- `for x in iter { v.push(x) }` with ANY scripted iterator (it may yield again after `None`: the
    loop never polls it again): appends exactly the items before the first `None`, or stops in a
    sanctioned way with the vector well formed -/
theorem forIter_push_spec (X : Ctx) (hq : ∀ k, X.o.panicAt k = false) :
    ∀ (it : Vec.IterScript) (fuel : Nat) (s : St) (acc : List Elem), it.length < fuel → Abs X s.v acc →
    (∃ s' new, Vec.forIter X (Vec.push X) fuel it s = (.ok (afterNone it), s') ∧ Abs X s'.v (acc ++ new) ∧
        new.map (·.val) = takeSome it) ∨
    (∃ p s' acc', Vec.forIter X (Vec.push X) fuel it s = (.error p, s') ∧ Panic.benign p = true ∧ Abs X s'.v acc') := by
  intro it
  induction it with
  | nil =>
    intro fuel s acc hf h
    cases fuel with
    | zero => omega
    | succ fuel =>
      refine .inl ⟨{ s with sys := { s.sys with cbIdx := s.sys.cbIdx + 1 } }, [], ?_, by simpa using h, rfl⟩
      unfold Vec.forIter
      simp only [VM.bind_run, VM.callback, hq, Bool.false_eq_true, if_false, VM.pure_run, afterNone]
  | cons o rest ih =>
    intro fuel s acc hf h
    cases fuel with
    | zero => omega
    | succ fuel =>
      cases o with
      | none =>
        refine .inl ⟨{ s with sys := { s.sys with cbIdx := s.sys.cbIdx + 1 } }, [], ?_, by simpa using h, rfl⟩
        unfold Vec.forIter
        simp only [VM.bind_run, VM.callback, hq, Bool.false_eq_true, if_false, VM.pure_run, afterNone]
      | some v =>
        let s1 : St := { s with sys := { s.sys with cbIdx := s.sys.cbIdx + 1 } }
        let s2 : St := { s1 with sys := { s1.sys with nextId := s1.sys.nextId + 1 } }
        have hp := push_spec X s2 acc ⟨s1.sys.nextId, v⟩ h
        unfold Vec.forIter
        simp only [VM.bind_run, VM.callback, hq, Bool.false_eq_true, if_false, mkElem_run]
        generalize hout : Vec.push X ⟨s1.sys.nextId, v⟩ s2 = out at hp
        cases hp with
        | pushed s' habs _ =>
          simp only
          rcases ih fuel s' (acc ++ [⟨s1.sys.nextId, v⟩]) (by simp at hf; omega) habs with
            ⟨s'', new, hrun, habs', hv⟩ | ⟨p, s'', acc', hrun, hb, habs'⟩
          · refine .inl ⟨s'', ⟨s1.sys.nextId, v⟩ :: new, ?_, by simpa using habs', by simp [takeSome, hv]⟩
            rw [hrun]; rfl
          · exact .inr ⟨p, s'', acc', hrun, hb, habs'⟩
        | stopped p s' hv hb =>
          exact .inr ⟨p, s', acc, rfl, hb, by rw [hv]; exact h⟩

theorem mapM_loop_mkElem (vals : List Int) : ∀ (acc : List Elem) (s : St),
    ∃ es, List.mapM.loop VM.mkElem vals acc s =
        (.ok (acc.reverse ++ es), { s with sys := { s.sys with nextId := s.sys.nextId + vals.length } }) ∧
      es.map (·.val) = vals := by
  induction vals with
  | nil => intro acc s; exact ⟨[], by simp [List.mapM.loop, VM.pure_run], rfl⟩
  | cons v rest ih =>
    intro acc s
    obtain ⟨es, hr, hvals⟩ := ih (⟨s.sys.nextId, v⟩ :: acc) { s with sys := { s.sys with nextId := s.sys.nextId + 1 } }
    refine ⟨⟨s.sys.nextId, v⟩ :: es, ?_, by simp [hvals]⟩
    simp only [List.mapM.loop, VM.bind_run, mkElem_run, hr]
    simp [Nat.add_assoc, Nat.add_comm 1]

/-- creating a batch of fresh elements only advances the identity counter -/
theorem mapM_mkElem_exact (vals : List Int) (s : St) :
    ∃ es, vals.mapM VM.mkElem s = (.ok es, { s with sys := { s.sys with nextId := s.sys.nextId + vals.length } }) ∧
      es.map (·.val) = vals := by
  obtain ⟨es, hr, hvals⟩ := mapM_loop_mkElem vals [] s
  exact ⟨es, by simpa [List.mapM] using hr, hvals⟩

theorem mapM_mkElem_run (vals : List Int) (s : St) :
    ∃ es s', vals.mapM VM.mkElem s = (.ok es, s') ∧ s'.v = s.v ∧ es.map (·.val) = vals := by
  obtain ⟨es, hr, hvals⟩ := mapM_mkElem_exact vals s
  exact ⟨es, _, hr, rfl, hvals⟩


end MV

import MiniVecProof.Proofs.MemRetain
import MiniVecProof.Model.Iter
/-
  T-MEM: `DrainFilter` under an ARBITRARY predicate (any function of the call number and the element).
  While the iterator lives the vector's length is 0; the block still holds, in order:
  the elements kept so far | stale slots (moved-out or copied-from) | the elements not yet scanned.
-/
namespace MV
open MV.Gen MV.GM VM

/-- one `next()`: the rejected elements passed over, the match (with what follows it), the call counter -/
def dfNext (f : Vec.Pred1) : Nat → List Elem → List Elem × Option (Elem × List Elem) × Nat
  | k, [] => ([], none, k)
  | k, e :: rest =>
    if f k e then ([], some (e, rest), k + 1)
    else ((e :: (dfNext f (k + 1) rest).1), (dfNext f (k + 1) rest).2.1, (dfNext f (k + 1) rest).2.2)

def stepOf : Option (Elem × List Elem) → DrainFilter.Step
  | some (e, _) => .item e
  | none => .done

def restOf : Option (Elem × List Elem) → List Elem
  | some (_, r) => r
  | none => []

structure DFInv (X : Ctx) (v : VSt) (f : DFSt) (kept junk rest : List Elem) : Prop where
  hd : v.isDefault = false
  len0 : v.len = 0
  full : Abs X { v with len := f.oldLen } (kept ++ junk ++ rest)
  nl : f.newLen = kept.length
  ps : f.pos = kept.length + junk.length
  ol : f.oldLen = kept.length + junk.length + rest.length
  np : f.panicked = false

/-- reading through the data pointer does not depend on the recorded length -/
theorem rd_full (X : Ctx) (s : St) (n : Nat) (cur : List Elem) (h : Abs X { s.v with len := n } cur)
    (hd : s.v.isDefault = false) (i : Nat) (hi : i < cur.length) :
    VM.rd (.at (dataOff s.v.align)) i s = (.ok cur[i], s) := by
  obtain ⟨b, hb, hl, hsl, hlc, hel, hinit⟩ := h.alloc hd
  simp only at hb hl hel hinit
  have hal : b.lay.align = s.v.align := (make_layout_honest _ _ _ _ hl).2.1
  have := rd_blk s b i cur[i] hb (by rw [hinit i (by omega)]; simp [List.getElem?_eq_getElem hi])
  rw [hal] at this; exact this

/-- copying one slot over another, whatever the recorded length is -/
theorem cp1_full (X : Ctx) (s : St) (n : Nat) (cur : List Elem) (h : Abs X { s.v with len := n } cur)
    (hd : s.v.isDefault = false) (src dst : Nat) (hs : src < cur.length) (hdst : dst < cur.length) :
    ∃ v', VM.cp (.at (dataOff s.v.align)) src dst 1 s = (.ok (), { s with v := v' }) ∧
      Abs X { v' with len := n } (cur.set dst cur[src]) ∧ v'.cap = s.v.cap ∧ v'.isDefault = false ∧ v'.align = s.v.align ∧
      v'.len = s.v.len ∧ v'.blk.map (·.bid) = s.v.blk.map (·.bid) := by
  obtain ⟨b, hb, hl, hsl, hlc, hel, hinit⟩ := h.alloc hd
  simp only at hb hl hlc hel hinit
  have hal : b.lay.align = s.v.align := (make_layout_honest _ _ _ _ hl).2.1
  have hcapb : s.v.cap ≤ b.slots.length := by rw [hsl]; exact physSlots_ge X.env _ _ _ hl h.elem_pos
  have h1 := cp_blk s b hb src dst 1 (by omega) (by omega)
  rw [hal] at h1
  refine ⟨_, h1, ?_, rfl, hd, rfl, rfl, by simp [hb]⟩
  refine ⟨h.elem_pos, fun hx => by simp [hd] at hx, fun _ => ⟨_, rfl, hl, ?_, hlc, by simpa using hel, ?_⟩⟩
  · simp only; rw [copySlots_length _ _ _ _ (by omega) (by omega)]; exact hsl
  · intro i hi
    simp only at hi ⊢
    rw [copySlots_get _ _ _ _ _ (by omega) (by omega)]
    by_cases hid : i = dst
    · subst hid
      rw [if_pos (by omega), Nat.sub_self, Nat.add_zero, hinit src (by omega)]
      simp [List.getElem?_eq_getElem hs, hdst]
    · rw [if_neg (by omega), hinit i hi, List.getElem?_set_ne (by omega)]

theorem dropElem_quiet' (X : Ctx) (hq : ∀ k, X.o.panicAt k = false) (e : Elem) (s : St) :
    VM.dropElem X e s = (.ok (), afterDrops X s [e]) := by
  unfold VM.dropElem
  cases hn : X.c.needsDrop with
  | false => simp [afterDrops, dropEvents, hn]
  | true => simp [VM.bind_run, VM.emit, VM.callback, hq, afterDrops, dropEvents, hn]

theorem afterDrops_own' (X : Ctx) (s : St) (es : List Elem) :
    ownEvents (afterDrops X s es).sys.tr = ownEvents s.sys.tr ++ dropEvents X es := by
  unfold afterDrops dropEvents ownEvents
  cases X.c.needsDrop <;> simp [Ev.isOwn]

theorem dropEvents_cons (X : Ctx) (e : Elem) (es : List Elem) : dropEvents X (e :: es) = dropEvents X [e] ++ dropEvents X es := by
  unfold dropEvents; cases X.c.needsDrop <;> simp

theorem callbackCaught_quiet (X : Ctx) (hq : ∀ k, X.o.panicAt k = false) (s : St) :
    DrainFilter.callbackCaught X s = (.ok false, { s with sys := { s.sys with cbIdx := s.sys.cbIdx + 1 } }) := by
  simp [DrainFilter.callbackCaught, VM.callback, hq]

theorem df_copy_list (kept jt rest : List Elem) (j0 e : Elem) :
    (kept ++ (j0 :: jt) ++ (e :: rest)).set kept.length e = (kept ++ [e]) ++ (jt ++ [e]) ++ rest := by
  induction kept with
  | nil => simp
  | cons a t ih => simpa using ih

theorem lift_data (X : Ctx) (s : St) (n : Nat) (cur : List Elem) (h : Abs X { s.v with len := n } cur)
    (hd : s.v.isDefault = false) : VM.lift X (data X.env) s = (.ok (.at (dataOff s.v.align)), s) := by
  obtain ⟨b, hb, hl, _⟩ := h.alloc hd
  simp only at hl
  exact lift_read X _ s _ (data_run X.env _ (by simp [hsOf, hd]) b.lay s.v.cap (by simpa [hsOf] using hl))

/-- one `next()` of a DrainFilter with an arbitrary non-panicking predicate -/
theorem df_next_spec (X : Ctx) (hq : ∀ k, X.o.panicAt k = false) :
    ∀ (rest kept junk : List Elem) (f : DFSt) (s : St) (fuel : Nat), DFInv X s.v f kept junk rest → rest.length < fuel →
    ∃ s' junk' f', DrainFilter.next X fuel f s = (.ok (stepOf (dfNext f.pred f.calls rest).2.1, f'), s') ∧
      DFInv X s'.v f' (kept ++ (dfNext f.pred f.calls rest).1) junk' (restOf (dfNext f.pred f.calls rest).2.1) ∧
      f'.pred = f.pred ∧ f'.calls = (dfNext f.pred f.calls rest).2.2 ∧ f'.oldLen = f.oldLen ∧
      s'.sys.tr = s.sys.tr ∧ s'.v.cap = s.v.cap ∧ s'.v.blk.map (·.bid) = s.v.blk.map (·.bid) := by
  intro rest
  induction rest with
  | nil =>
    intro kept junk f s fuel h hf
    cases fuel with
    | zero => omega
    | succ fuel =>
      refine ⟨s, junk, f, ?_, by simpa [dfNext, restOf] using h, rfl, rfl, rfl, rfl, rfl, rfl⟩
      unfold DrainFilter.next
      have : ¬ f.pos < f.oldLen := by have := h.ps; have := h.ol; simp at *; omega
      simp only [this, if_false, VM.pure_run, dfNext, stepOf]
  | cons e rest ih =>
    intro kept junk f s fuel h hf
    cases fuel with
    | zero => omega
    | succ fuel =>
      have hpos : f.pos < f.oldLen := by have := h.ps; have := h.ol; simp at *; omega
      have hlen : f.pos < (kept ++ junk ++ e :: rest).length := by have := h.ps; simp; omega
      have h0 := lift_data X s f.oldLen _ h.full h.hd
      have h1 := rd_full X s f.oldLen _ h.full h.hd f.pos hlen
      have he : (kept ++ junk ++ e :: rest)[f.pos] = e := by
        have hp := h.ps
        simp only [hp]
        rw [List.getElem_append_right (by simp)]; simp
      rw [he] at h1
      have h2 := callbackCaught_quiet X hq s
      let s1 : St := { s with sys := { s.sys with cbIdx := s.sys.cbIdx + 1 } }
      unfold DrainFilter.next
      simp only [hpos, if_true, VM.bind_run, h0, h1, h2, Bool.false_eq_true, if_false]
      by_cases hp : f.pred f.calls e = true
      · -- a match: handed out, its slot becomes stale
        simp only [hp, if_true, VM.pure_run, dfNext, stepOf, restOf, List.append_nil]
        refine ⟨s1, junk ++ [e], _, rfl, ?_, rfl, rfl, rfl, rfl, rfl, rfl⟩
        exact { hd := h.hd, len0 := h.len0, full := by simpa using h.full, nl := h.nl,
                ps := by have := h.ps; simp; omega, ol := by have := h.ol; simp at *; omega, np := rfl }
      · have hp' : f.pred f.calls e = false := by simpa using hp
        simp only [hp', Bool.false_eq_true, if_false, dfNext]
        cases junk with
        | nil =>
          -- nothing was taken out yet: the element stays where it is
          have hnp : ¬ f.pos > f.newLen := by have := h.ps; have := h.nl; simp at *; omega
          let f1 : DFSt := { f with calls := f.calls + 1, panicked := false, pos := f.pos + 1, newLen := f.newLen + 1 }
          have hinv1 : DFInv X s1.v f1 (kept ++ [e]) [] rest :=
            { hd := h.hd, len0 := h.len0, full := by simpa using h.full, nl := by have := h.nl; simp [f1]; omega,
              ps := by have := h.ps; simp [f1] at *; omega, ol := by have := h.ol; simp [f1] at *; omega, np := rfl }
          obtain ⟨s', junk', f', hrun, hinv', hpr, hcl, hol, htr, hc, hb⟩ := ih (kept ++ [e]) [] f1 s1 fuel hinv1 (by simp at hf; omega)
          refine ⟨s', junk', f', ?_, by simpa using hinv', hpr, hcl, hol, htr, hc, hb⟩
          simp only [hnp, if_false, VM.bind_run, VM.pure_run]
          exact hrun
        | cons j0 jt =>
          have hgt : f.pos > f.newLen := by have := h.ps; have := h.nl; simp at *; omega
          have hdst : f.newLen < (kept ++ (j0 :: jt) ++ e :: rest).length := by have := h.nl; simp; omega
          obtain ⟨v', hcp, habs', hc, hd', hal, hl', hb⟩ := cp1_full X s1 f.oldLen _ h.full h.hd f.pos f.newLen hlen hdst
          rw [he] at habs'
          have hnl := h.nl
          rw [hnl, df_copy_list] at habs'
          let f1 : DFSt := { f with calls := f.calls + 1, panicked := false, pos := f.pos + 1, newLen := f.newLen + 1 }
          have hinv1 : DFInv X ({ s1 with v := v' } : St).v f1 (kept ++ [e]) (jt ++ [e]) rest :=
            { hd := hd', len0 := by show v'.len = 0; rw [hl']; exact h.len0, full := habs',
              nl := by simp [f1]; omega, ps := by have := h.ps; simp [f1] at *; omega,
              ol := by have := h.ol; simp [f1] at *; omega, np := rfl }
          obtain ⟨s', junk', f', hrun, hinv', hpr, hcl, hol, htr, hc2, hb2⟩ :=
            ih (kept ++ [e]) (jt ++ [e]) f1 { s1 with v := v' } fuel hinv1 (by simp at hf; omega)
          refine ⟨s', junk', f', ?_, by simpa using hinv', hpr, hcl, hol, htr, by rw [hc2]; exact hc, by rw [hb2]; exact hb⟩
          simp only [hgt, if_true, VM.bind_run]
          have hcp' : VM.cp (.at (dataOff s.v.align)) f.pos f.newLen 1 s1 = (.ok (), { s1 with v := v' }) := hcp
          rw [hcp']
          exact hrun

/-- how one `next()` relates to the filter semantics -/
theorem dfNext_kept (f : Vec.Pred1) (k : Nat) (rest : List Elem) :
    keptFrom f k rest = (match (dfNext f k rest).2.1 with
      | some (e, r) => e :: keptFrom f (dfNext f k rest).2.2 r
      | none => []) ∧
    rejFrom f k rest = (dfNext f k rest).1 ++ (match (dfNext f k rest).2.1 with
      | some (_, r) => rejFrom f (dfNext f k rest).2.2 r
      | none => []) := by
  induction rest generalizing k with
  | nil => simp [dfNext, keptFrom, rejFrom]
  | cons e rest ih =>
    by_cases hp : f k e = true
    · simp [dfNext, keptFrom, rejFrom, hp]
    · have hp' : f k e = false := by simpa using hp
      have := ih (k + 1)
      simp only [dfNext, keptFrom, rejFrom, hp', Bool.false_eq_true, if_false]
      exact ⟨this.1, by rw [this.2]; simp⟩

theorem dfNext_rest_length (f : Vec.Pred1) (k : Nat) (rest : List Elem) :
    (restOf (dfNext f k rest).2.1).length ≤ rest.length ∧
    ((dfNext f k rest).2.1.isSome → (restOf (dfNext f k rest).2.1).length < rest.length) := by
  induction rest generalizing k with
  | nil => simp [dfNext, restOf]
  | cons e rest ih =>
    by_cases hp : f k e = true
    · simp [dfNext, restOf, hp]
    · have hp' : f k e = false := by simpa using hp
      have := ih (k + 1)
      simp only [dfNext, hp', Bool.false_eq_true, if_false, List.length_cons]
      exact ⟨by omega, fun h => by have := this.2 h; omega⟩

/-- `DropGuard::drop` once everything was scanned: the kept elements become the vector -/
theorem df_guard_run (X : Ctx) (f : DFSt) (s : St) (kept junk : List Elem) (h : DFInv X s.v f kept junk []) :
    ∃ v', DrainFilter.guardBody X f s = (.ok (), { s with v := v' }) ∧ Abs X v' kept ∧ v'.cap = s.v.cap ∧
      v'.blk.map (·.bid) = s.v.blk.map (·.bid) := by
  have hps := h.ps
  have hol := h.ol
  have hnl := h.nl
  simp only [List.length_nil, Nat.add_zero] at hol
  have hrem : f.oldLen - f.pos = 0 := by omega
  unfold DrainFilter.guardBody
  simp only [hrem, Nat.lt_irrefl, false_and, if_false, VM.bind_run, VM.pure_run, gt_iff_lt, Nat.add_zero]
  have hfull := h.full
  simp only [List.append_nil] at hfull
  have hsh := hfull.shorten kept.length (by simp) (by simpa using h.hd)
  simp only [List.take_left'] at hsh
  by_cases hz : f.oldLen = 0
  · simp only [hz, if_true, VM.pure_run]
    have hk : kept.length = 0 := by omega
    refine ⟨s.v, rfl, ?_, rfl, rfl⟩
    have hv : ({ ({ s.v with len := f.oldLen } : VSt) with len := kept.length } : VSt) = s.v := by
      have := h.len0
      cases hv : s.v; simp [hv, hk] at *; exact this.symm
    rw [hv] at hsh; exact hsh
  · simp only [hz, if_false]
    rw [lift_set_len X f.newLen s h.hd, hnl]
    exact ⟨_, rfl, hsh, rfl, rfl⟩

/-- `Drop for DrainFilter` (not after a predicate panic): the rest is scanned, matches are destroyed,
    the others compacted; the vector ends up exposing every element the predicate rejected, in order -/
theorem df_dropLoop_spec (X : Ctx) (hq : ∀ k, X.o.panicAt k = false) (n : Nat) :
    ∀ (rest kept junk : List Elem) (f : DFSt) (s : St) (fuel : Nat), rest.length = n → DFInv X s.v f kept junk rest →
    rest.length < fuel →
    ∃ s', DrainFilter.dropLoop X fuel f s = (.ok (), s') ∧ Abs X s'.v (kept ++ rejFrom f.pred f.calls rest) ∧
      ownEvents s'.sys.tr = ownEvents s.sys.tr ++ dropEvents X (keptFrom f.pred f.calls rest) ∧
      s'.v.cap = s.v.cap ∧ s'.v.blk.map (·.bid) = s.v.blk.map (·.bid) := by
  induction n using Nat.strongRecOn with
  | _ n ih =>
    intro rest kept junk f s fuel hn h hf
    cases fuel with
    | zero => omega
    | succ fuel =>
      have hol := h.ol
      have hps := h.ps
      have hfuel : rest.length < f.oldLen - f.pos + 1 := by omega
      obtain ⟨s1, junk1, f1, hrun, hinv1, hpr, hcl, hol1, htr, hc, hb⟩ := df_next_spec X hq rest kept junk f s _ h hfuel
      obtain ⟨hk, hr⟩ := dfNext_kept f.pred f.calls rest
      unfold DrainFilter.dropLoop
      simp only [VM.bind_run, hrun]
      cases hm : (dfNext f.pred f.calls rest).2.1 with
      | none =>
        rw [hm] at hinv1 hk hr
        simp only [stepOf, restOf] at hinv1 ⊢
        obtain ⟨v', hg, habs, hc2, hb2⟩ := df_guard_run X f1 s1 _ junk1 hinv1
        refine ⟨{ s1 with v := v' }, hg, ?_, ?_, by show v'.cap = _; rw [hc2, hc], by show v'.blk.map _ = _; rw [hb2, hb]⟩
        · rw [hr]; simpa using habs
        · rw [hk]; simp [dropEvents, htr]
      | some pr =>
        obtain ⟨e, r⟩ := pr
        rw [hm] at hinv1 hk hr
        simp only [stepOf, restOf] at hinv1 ⊢
        have hlt := (dfNext_rest_length f.pred f.calls rest).2 (by rw [hm]; rfl)
        rw [hm] at hlt
        simp only [restOf] at hlt
        have hd1 := dropElem_quiet' X hq e s1
        simp only [VM.bind_run, VM.onUnwind, hd1]
        have hinv2 : DFInv X (afterDrops X s1 [e]).v f1 (kept ++ (dfNext f.pred f.calls rest).1) junk1 r := hinv1
        obtain ⟨s2, hrun2, habs2, hown2, hc2, hb2⟩ := ih r.length (by omega) r _ junk1 f1 (afterDrops X s1 [e]) fuel rfl hinv2 (by omega)
        refine ⟨s2, hrun2, ?_, ?_, by rw [hc2]; exact hc, by rw [hb2]; exact hb⟩
        · rw [hr, hpr, hcl] at *
          simpa [List.append_assoc] using habs2
        · have hk' : keptFrom f.pred f.calls rest = e :: keptFrom f.pred (dfNext f.pred f.calls rest).2.2 r := hk
          rw [hown2, afterDrops_own', htr, hk', hpr, hcl, dropEvents_cons X e (keptFrom _ _ r), List.append_assoc]

end MV

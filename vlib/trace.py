"""Parse a harness / model trace of one case into operations, and the orchestrator-level oracles."""
import re

MAXU = (1 << 64) - 1

class OpRec:
    __slots__ = ("line", "events", "result", "S", "H", "O", "X")
    def __init__(self, line):
        self.line = line
        self.events = []
        self.result = None
        self.S = {}     # reg -> (len, cap, [items])
        self.H = {}     # reg -> dict
        self.O = []
        self.X = []
    @property
    def name(self):
        return self.line.split()[0] if self.line else ""
    @property
    def args(self):
        return self.line.split()[1:]

def parse(lines):
    ops = []
    cur = None
    for l in lines:
        if l.startswith("> "):
            cur = OpRec(l[2:])
            ops.append(cur)
        elif cur is None:
            if l.startswith("O ") or l.startswith("X "):
                cur = OpRec("")
                ops.append(cur)
                (cur.O if l.startswith("O ") else cur.X).append(l)
            continue
        elif l.startswith("= "):
            if cur.result is None:
                cur.result = l[2:]
        elif l.startswith("S "):
            m = re.match(r"S (\S+) (\d+) (\d+) \[(.*)\]", l)
            if m:
                cur.S[m.group(1)] = (int(m.group(2)), int(m.group(3)), m.group(4).split() if m.group(4) else [])
        elif l.startswith("H "):
            p = l.split()
            d = {}
            for kv in p[2:]:
                if "=" in kv:
                    k, v = kv.split("=", 1)
                    try:
                        d[k] = int(v)
                    except ValueError:
                        d[k] = v
            cur.H[p[1]] = d
        elif l.startswith("O "):
            cur.O.append(l)
        elif l.startswith("X "):
            cur.X.append(l)
        elif l and l[0] in "ARFZCD!":
            cur.events.append(l)
    return ops

def state_before(ops, i, reg):
    """last S/H of reg before operation i"""
    for j in range(i - 1, -1, -1):
        if reg in ops[j].S:
            return ops[j].S[reg], ops[j].H.get(reg)
    return None, None

def resolve_bound(tok, default):
    if tok == "U":
        return default
    n = int(tok[1:])
    return n

def resolve_range(b1, b2, length):
    """documented resolution; None = must be rejected"""
    if b1 == "U": st = 0
    elif b1[0] == "I": st = int(b1[1:])
    else:
        st = int(b1[1:]) + 1
        if st > MAXU: return None
    if b2 == "U": en = length
    elif b2[0] == "E": en = int(b2[1:])
    else:
        en = int(b2[1:]) + 1
        if en > MAXU: return None
    if st <= en <= length:
        return (st, en)
    return None

def must_reject(op, length, cap):
    """True/False when the documented limits decide, None when they do not apply"""
    n, a = op.name, op.args
    try:
        if n == "insert": return int(a[1]) > length
        if n in ("remove", "swap_remove"): return int(a[1]) >= length
        if n == "split_off": return int(a[1]) > length
        if n in ("drain", "splice", "extend_from_within"): return resolve_range(a[1], a[2], length) is None
        if n == "shrink_to":
            m = int(a[1])
            return m > cap and m >= length
    except (ValueError, IndexError):
        return None
    return None

def orchestrator_oracles(ops, cls_size, cls_align=8):
    """-> list of (kind, op index, text). kinds: reserve-contract, stable, align-req, macro-evals,
    rejected-unchanged, accept-predicate"""
    out = []
    req = {}     # register -> alignment requested by with_alignment (while it keeps its buffer)
    pending = {} # borrowing iterator -> (vector register, its state when the iterator was created)
    for i, op in enumerate(ops):
        n, a = op.name, op.args
        # --- a refused allocator request must end in the standard allocation-error abort: never a normal
        #     return, an ordinary panic or a crash
        if "Z" in op.events and op.result is not None and op.result != "abort":
            out.append(("allocfail-outcome", i, "`%s`: the allocator refused a request but the operation ended with `%s`" % (op.line, op.result)))
        # --- ... and nothing may have been handed back to the allocator before the refused request (the old block
        #     has to be still there, owned by the vector, when the handler is called)
        if "Z" in op.events:
            zi = op.events.index("Z")
            freed = [e for e in op.events[:zi] if e.startswith("F ")]
            if freed:
                out.append(("allocfail-outcome", i, "`%s`: %s before the request that was refused" % (op.line, ", ".join(freed))))
        if not a or op.result is None:
            continue
        # --- storage stability across a borrowing iterator: if the final contents fit the capacity the
        #     vector had when the iterator was created, creating, stepping and dropping it must not reallocate
        if n in ("drain", "splice", "drain_filter") and op.result == "ok":
            b0, h0 = state_before(ops, i, a[0])
            if b0 is not None:
                pending[a[-1]] = (a[0], b0, h0)
        if n == "drop" and a[0] in pending and op.result == "ok":
            r0, b0, h0 = pending.pop(a[0])
            aft, haft = op.S.get(r0), op.H.get(r0)
            if aft is not None and h0 is not None and aft[0] <= b0[1]:
                moved = haft is None or haft.get("blk") != h0.get("blk") or aft[1] != b0[1]
                if moved:
                    out.append(("stable", i, "iterator `%s` over %s dropped: result fits (len %d, capacity before %d) but storage/capacity changed: %s -> %s cap %d" % (a[0], r0, aft[0], b0[1], h0, haft, aft[1])))
        if n == "forget" and a[0] in pending:
            pending.pop(a[0])
        r = a[0]
        before, hbefore = state_before(ops, i, r)
        after = op.S.get(r)
        hafter = op.H.get(r)
        res = op.result
        # --- alignment requested at creation follows the register until its buffer moves
        if n == "with_alignment" and len(a) == 3 and res in ("ok", "err AlignmentTooSmall", "err AlignmentNotDivisibleByTwo", "panic"):
            A = int(a[2])
            acceptable = A >= max(cls_align, 8) and (A & (A - 1)) == 0 and A > 0
            if acceptable and res.startswith("err"):
                out.append(("with-alignment-result", i, "with_alignment(_, %d) is acceptable for this element type but returned `%s`" % (A, res)))
            if not acceptable and not res.startswith("err"):
                out.append(("with-alignment-result", i, "with_alignment(_, %d) must be reported through Err for this element type (align_of = %d), got `%s`" % (A, cls_align, res)))
        if n == "with_alignment" and res == "ok":
            req[r] = int(a[2])
            # an accepted request owns a block obtained with exactly that alignment (also for capacity 0: the
            # over-alignment has to be recorded somewhere): a silent "nothing to do" forgets the request; at the natural alignment there is nothing to remember
            if int(a[2]) > max(cls_align, 8) and not [e for e in op.events if e.startswith("A ") and e.split()[2] == a[2]]:
                out.append(("reserve-contract", i, "with_alignment(%s, %s) returned Ok without obtaining a block aligned to %s (events %s)" % (a[1], a[2], a[2], op.events)))
        if n in ("split_off",) and len(a) > 1 and a[1] == "0":
            req.pop(r, None)
        if n in ("drain_vec", "into_iter", "drop", "forget", "leak"):
            req.pop(r, None)
        if n == "clone_from" and res == "ok":
            # `*self = source.clone()`: the destination's own storage is released and replaced by the clone's
            req.pop(r, None)
        for reg, h in op.H.items():
            if reg in req and req[reg] <= 4096 and "al" in h and h["al"] % req[reg] != 0:
                out.append(("align-req", i, "%s as_ptr mod %d = %d after `%s`" % (reg, req[reg], h["al"] % req[reg], op.line)))
        # --- serde: the up-front reservation never asks for more than 1024 elements
        if n in ("deserialize", "deserialize_in_place") and len(a) >= 3:
            nitems = len([x for x in a[2][3:-1].split(",") if x and x not in ("E", "N")])
            for j, e in enumerate([e for e in op.events if e[0] in "AR"]):
                sz = int(e.split()[1]) if e[0] == "A" else int(e.split()[3])
                al = int(e.split()[2])
                # no request may be sized by the claimed length: at most header + max(1024, twice what has really arrived + 8) elements
                room = 1024 if j == 0 else max(1024, 2 * (nitems + (before[0] if before else 0)) + 8)
                lim = ((24 + al - 1) // al) * al + room * cls_size + al
                if sz > lim:
                    out.append(("serde-prealloc", i, "`%s`: allocator request #%d of %d bytes exceeds header + %d elements (%d)" % (op.line[:60], j + 1, sz, room, lim)))
            if before is not None and after is not None and after[1] > max(before[1], 2047, 2 * (nitems + before[0]) + 8):
                out.append(("serde-prealloc", i, "`%s`: capacity %d -> %d" % (op.line[:60], before[1], after[1])))
        # --- a vector that owns a block has a non-null data pointer: the raw round trip must not be skipped
        if n in ("raw_part", "raw_parts") and res == "none" and hbefore is not None:
            out.append(("rawparts-null", i, "`%s`: as_mut_ptr() is null although the vector owns block %s" % (op.line, hbefore.get("blk"))))
        # --- a never-allocated vector stays never-allocated unless elements or capacity are actually added
        if before is not None and hbefore is None and before[1] == 0 and before[0] == 0 and after is not None and after[0] == 0 \
                and (res == "ok" or res == "none" or res.startswith("some")):
            adds = False
            try:
                if n in ("reserve", "reserve_exact", "try_reserve", "try_reserve_exact") and int(a[1]) > 0:
                    adds = True
            except (ValueError, IndexError):
                adds = True
            for tok in a[1:]:
                m = re.search(r"\]h(\d+)-", tok)
                if m and int(m.group(1)) > 0:
                    adds = True          # a reservation from a non-zero lower size hint is capacity being added
            if n in ("deserialize_in_place", "append", "clone_from", "swap", "from_raw_part", "from_raw_parts", "set_len"):
                adds = True              # not decided by this rule
            if not adds and (after[1] != 0 or hafter is not None):
                out.append(("sentinel-noalloc", i, "`%s` on a never-allocated vector added nothing (len 0) but left capacity %d / block %s" % (op.line, after[1], (hafter or {}).get("blk"))))
        if before is not None and after is None:
            # the register is borrowed by the iterator it just handed out (drain / splice / drain_filter) or was consumed
            mr0 = must_reject(op, before[0], before[1])
            if mr0 is True and res != "panic":
                out.append(("accept-predicate", i, "`%s` on len=%d cap=%d must be rejected, got `%s`" % (op.line, before[0], before[1], res)))
            if mr0 is False and res == "panic":
                out.append(("accept-predicate", i, "`%s` on len=%d cap=%d must be accepted, but panicked" % (op.line, before[0], before[1])))
        if before is None or after is None:
            # constructors
            if n == "with_capacity" and res == "ok" and after is not None and after[1] != int(a[1]):
                out.append(("reserve-contract", i, "with_capacity(%s) gave capacity %d" % (a[1], after[1])))
            if n == "with_alignment" and res == "ok" and after is not None and after[1] < int(a[1]):
                out.append(("reserve-contract", i, "with_alignment(%s, %s) returned Ok with capacity %d" % (a[1], a[2], after[1])))
            if n == "macro_repeat" and res == "ok" and after is not None and after[0] != int(a[2]):
                out.append(("reserve-contract", i, "mini_vec![_; %s] has len %d" % (a[2], after[0])))
            if n == "macro_repeat" and res == "ok":
                srcs = set(e.split()[1] for e in op.events if e.startswith("C "))
                if len(srcs) > 1:
                    out.append(("macro-evals", i, "element expression evaluated %d times" % len(srcs)))
            continue
        (l0, c0, items0), (l1, c1, items1) = before, after
        # --- accept / reject
        mr = must_reject(op, l0, c0)
        if mr is True and res != "panic":
            out.append(("accept-predicate", i, "`%s` on len=%d cap=%d must be rejected, got `%s`" % (op.line, l0, c0, res)))
        if mr is False and res == "panic" and n != "shrink_to":
            # may still panic for capacity reasons only with huge sizes; small arguments must be accepted
            nums = [int(x[1:]) if x[0] in "IE" and x[1:].isdigit() else (int(x) if x.isdigit() else 0) for x in a[1:3]]
            if all(v < (1 << 32) for v in nums):
                out.append(("accept-predicate", i, "`%s` on len=%d cap=%d must be accepted, but panicked" % (op.line, l0, c0)))
        if mr is True and res == "panic":
            same = (l0, c0, items0) == (l1, c1, items1) and (hbefore or {}).get("blk") == (hafter or {}).get("blk") \
                and (hbefore or {}).get("off") == (hafter or {}).get("off")
            extra = [e for e in op.events if e[0] in "ARFZC"]
            drops = [e for e in op.events if e.startswith("D ")]
            allowed_drops = 1 if n in ("insert",) else 0
            if not same or extra or len(drops) > allowed_drops:
                out.append(("rejected-unchanged", i, "rejected `%s` changed the vector: before %s after %s events %s" % (op.line, before, after, op.events)))
        if res != "ok" and not res.startswith("some") and res != "none":
            continue
        # --- reservation contract
        try:
            if n == "reserve" and c1 < l1 + int(a[1]):
                out.append(("reserve-contract", i, "reserve(%s): capacity %d < len %d + additional" % (a[1], c1, l1)))
            if n == "reserve_exact":
                need = l1 + int(a[1])
                if c1 < need or (c0 < need and c1 != need):
                    out.append(("reserve-contract", i, "reserve_exact(%s): capacity %d, len %d, old capacity %d" % (a[1], c1, l1, c0)))
            if n in ("resize", "resize_with") and l1 != int(a[1]):
                out.append(("reserve-contract", i, "%s(%s) returned normally with len %d" % (n, a[1], l1)))
            if n == "truncate" and l1 != min(l0, int(a[1])):
                out.append(("reserve-contract", i, "truncate(%s) on len %d gave len %d" % (a[1], l0, l1)))
            if n == "shrink_to_fit" and c1 != l1:
                out.append(("reserve-contract", i, "shrink_to_fit: capacity %d != len %d" % (c1, l1)))
            if n == "shrink_to":
                m = int(a[1])
                if c1 > c0 or c1 < max(l1, m):
                    out.append(("reserve-contract", i, "shrink_to(%d): capacity %d -> %d with len %d" % (m, c0, c1, l1)))
        except (ValueError, IndexError):
            pass
        if l1 > c1:
            out.append(("reserve-contract", i, "len %d > capacity %d after `%s`" % (l1, c1, op.line)))
        # --- O(log n) growth: one extend/collect of n pushed elements may resize at most log2(n) + 3 times
        if n in ("extend", "collect") and l1 > 64:
            import math
            grows = len([e for e in op.events if e[0] in "AR"])
            if grows > math.ceil(math.log2(l1)) + 1:
                out.append(("log-resizes", i, "`%s`: %d allocator requests for %d pushed elements" % (op.line[:40], grows, l1)))
        # --- storage stability
        removing = n in ("pop", "remove", "swap_remove", "truncate", "clear", "retain", "dedup", "dedup_by", "dedup_by_key", "remove_item")
        adding = n in ("push", "insert", "extend", "extend_from_slice", "extend_from_within", "append", "resize", "resize_with")
        if (removing or (adding and l1 <= c0)) and hbefore is not None:
            moved = hafter is None or hafter.get("blk") != hbefore.get("blk") or c1 != c0
            if moved:
                out.append(("stable", i, "`%s` fits (len %d -> %d, capacity %d) but storage/capacity changed: %s -> %s cap %d" % (op.line, l0, l1, c0, hbefore, hafter, c1)))
            if removing and [e for e in op.events if e[0] in "AR"]:
                out.append(("stable", i, "`%s` made allocator requests %s" % (op.line, op.events)))
    return out

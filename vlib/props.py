"""Per-property configuration: theorem modules, case generators, owned oracles."""
import os, json, hashlib, collections, re
import gen as G, run as R, trace as T

VERIF = "/verif"
SIZES = {"b1": 1, "p1": 1, "w4": 4, "p4": 4, "s16": 16, "a32": 32, "big": 2048, "a16": 16}

def corpus(mode, pid=None):
    """minimised past disagreements and every defect found on the pinned tree; run first"""
    out = []
    d = VERIF + "/corpus"
    for f in sorted(os.listdir(d)):
        if not f.endswith(".case"):
            continue
        txt = open(d + "/" + f).read()
        cur = []
        for line in txt.split("\n"):
            if line.startswith("#"):
                continue
            if line.startswith("!case"):
                cur = [line]
            elif line.startswith("!end"):
                cur.append(line)
                c = "\n".join(cur) + "\n"
                if ("!mode " + mode) in c and (pid is None or pid in cur[0]):
                    out.append(c)
                cur = []
            elif cur:
                cur.append(line)
    return out

def general_cases(tier, seed, mode, classes=None, hostile=False, directives=()):
    rng = G.Rng(seed ^ (0xABCD if mode == "release" else 0))
    classes = classes or G.CLASSES
    out = []
    depth = 2 if tier == "quick" else 3
    lim = 60 if tier == "quick" else 400
    for cls in classes:
        out += G.small_scope(cls, mode, depth, rng, limit=lim)
    nrand = 1500 if tier == "quick" else 15000
    for k in range(nrand):
        cls = classes[k % len(classes)]
        out.append(G.random_case(rng, "rnd-%s-%d" % (cls, k), cls, mode, 20 + rng.below(40), directives=directives, hostile=hostile))
    return out

def soak(tier, seed, mode, pid, n=8000, hostile=False):
    """thorough tier only: seeded random histories (all operations, iterators stepped and dropped/forgotten at random
    points, two-register operations) on every element class; the property's own oracles and disagreement categories apply"""
    if tier != "thorough":
        return []
    rng = G.Rng(seed ^ (0x50AC + sum(ord(ch) for ch in pid)) ^ (0xABCD if mode == "release" else 0))
    out = []
    for k in range(n):
        cls = G.CLASSES[k % len(G.CLASSES)]
        out.append(G.random_case(rng, "soak-%s-%s-%d" % (pid, cls, k), cls, mode, 15 + rng.below(50), hostile=hostile))
    return out

def raw_after_ops(tier, mode):
    """thorough tier only: a raw-parts round trip after every single operation on every start state (also over-aligned)"""
    if tier != "thorough":
        return []
    out = []
    k = 0
    for cls in G.CLASSES:
        for label, pre in G.start_states(cls):
            for op in G.mutating_ops(args=[0, 1, 2, 5]):
                out.append(G.case("rawop-%s-%s-%d" % (cls, label, k), cls, mode, pre + [op, "raw_parts v0", "push v0 5", "raw_part v0", "pop v0", "shrink_to_fit v0", "raw_parts v0"])); k += 1
        for a in (16, 32, 64, 4096):
            for op in G.mutating_ops(args=[0, 1, 2, 5]):
                out.append(G.case("rawopA-%s-%d" % (cls, k), cls, mode, ["with_alignment v0 3 %d" % a, "push v0 1", "push v0 2", op, "raw_part v0", "push v0 5", "raw_parts v0"])); k += 1
    return out

def panic_prefix_cases(mode):
    """a growing loop whose k-th callback panics (generator of resize_with, next() of the extend source, Clone of
    extend_from_slice): like Vec, the elements produced before the panic stay (oracle `panic-prefix`). The operation
    under test is the first one of the case that calls user code."""
    out = []
    n = 0
    for cls in ("w4", "s16", "b1", "p4"):
        for label, pre in G.start_states(cls):
            l0 = {"sentinel": 0, "zero": 0, "empty": 0, "part": 3, "over64": 2, "over64zero": 0, "dups": 7}.get(label, 4 if cls != "b1" else 8)
            if label == "full":
                l0 = 8 if cls == "b1" else (4 if cls != "big" else 2)
            for op in ("resize_with v0 %d g[1,2,3,4,5,6]" % (l0 + 6), "extend v0 it[1,2,3,4,5,6]", "extend_from_slice v0 1 2 3 4 5 6"):
                for k in range(1, 8):
                    out.append(G.case("pp-%s-%s-%d-p%d" % (cls, label, n, k), cls, mode, pre + [op, "push v0 7", "pop v0"], ["!panic_at %d" % k]))
                n += 1
    return out

def panic_prefix_oracle(ops, text):
    """Vec semantics of a growing loop interrupted by a panic in its k-th callback: k - 1 new elements stay"""
    name = text.split("\n", 1)[0].split()[1] if text.startswith("!case") else ""
    if not name.startswith("pp-"):
        return []
    m = re.search(r"^!panic_at (\d+)$", text, re.M)
    if not m:
        return []
    k = int(m.group(1))
    for i, op in enumerate(ops):
        if op.name in ("resize_with", "extend", "extend_from_slice"):
            if op.result != "panic":
                return []
            (before, _) = T.state_before(ops, i, "v0")
            after = op.S.get("v0")
            if before is None or after is None:
                return []
            a = op.args
            if op.name == "resize_with":
                vals = a[2][2:-1].split(",")
            elif op.name == "extend":
                vals = a[1][3:-1].split(",")
            else:
                vals = a[1:]
            want = [x.split(":")[1] for x in before[2]] + vals[:k - 1]
            got = [x.split(":")[1] for x in after[2]]
            if got != want:
                return [("panic-prefix", i, "`%s` interrupted by a panic in its callback no. %d: Vec keeps the %d elements produced before it; got %s want %s" % (op.line, k, k - 1, got, want))]
            return []
    return []

def hint_panic_oracle(ops, text):
    """an iterator's size_hint is advice: with no panic injected and no allocator refusal, `collect`, `extend` and the
    consumption / drop of a `Splice` must not panic because a (small) size hint was wrong in either direction"""
    if re.search(r"^!(panic_at|allocfail_at) [1-9]", text, re.M):
        return []
    def small(tok):
        m = re.search(r"\]h(\d+|N)-(\d+|N)$", tok)
        if not m:
            return "]h" not in tok          # no hint given: the default, exact one
        lo, hi = m.group(1), m.group(2)
        return lo != "N" and int(lo) < (1 << 31) and (hi == "N" or int(hi) < (1 << 31))
    out = []
    splices = {}
    for i, op in enumerate(ops):
        a = op.args
        if op.name == "splice" and len(a) == 5 and op.result == "ok":
            splices[a[4]] = a[3]
        tok = None
        if op.name in ("collect", "extend") and len(a) >= 2:
            tok = a[1]
        elif op.name in ("drop", "next", "next_back", "nth", "nth_back", "count", "last") and a and a[0] in splices:
            tok = splices[a[0]]
        if tok is not None and op.result == "panic" and small(tok):
            out.append(("hint-panic", i, "`%s` panicked although no callback panicked and nothing was refused: a wrong size_hint (%s) must not matter" % (op.line, tok)))
    return out

def lost_on_panic_oracle(ops, text):
    """an operation that panics of its own accord (nothing injected: a rejected argument, a capacity overflow, a wrong
    size_hint) loses nothing: every element the registers exposed before it is still exposed afterwards or was destroyed
    by it (exactly-once ownership also across a panic the crate raises itself)"""
    if re.search(r"^!(panic_at|allocfail_at) [1-9]", text, re.M):
        return []
    out = []
    for i, op in enumerate(ops):
        if i == 0 or op.result != "panic":
            continue
        prev = ops[i - 1]
        if prev.result in (None, "abort", "abort-other", "hang"):
            continue
        before = set()
        for reg, st in prev.S.items():
            before |= set(x.split(":")[0] for x in st[2])
        after = set()
        for reg, st in op.S.items():
            after |= set(x.split(":")[0] for x in st[2])
        # registers that are not printed after the operation although they were before (borrowed by an iterator the
        # operation created before it panicked) would look like losses: only compare when the same registers are shown
        if set(prev.S.keys()) - set(op.S.keys()):
            continue
        destroyed = set(e.split()[1] for e in op.events if e.startswith("D "))
        lost = before - after - destroyed
        if lost:
            out.append(("lost-on-panic", i, "`%s` panicked (nothing was injected) and elements %s are neither exposed by a register any more nor destroyed" % (op.line, sorted(lost, key=lambda x: (not x.isdigit(), int(x) if x.isdigit() else 0, x)))))
    return out

def destroyed_exposed_oracle(ops, text):
    """exactly-once ownership judged on the implementation's own trace, panics or not: an element whose destructor has
    run (`D id`) is not an element of any vector afterwards, and no destructor runs twice. Element ids are never reused
    within a case; classes without per-element identity (`p4`, `p1`: plain data, ids repeat by construction) are skipped."""
    out = []
    if any(l.startswith("!cfg p") for l in text.split("\n")):
        return out
    dead = {}
    for i, op in enumerate(ops):
        for e in op.events:
            if e.startswith("D "):
                x = e.split()[1]
                if not x.isdigit():
                    continue
                if x in dead:
                    out.append(("destroyed-twice", i, "`%s`: the destructor of element %s runs a second time (first during `%s`)" % (op.line, x, ops[dead[x]].line)))
                    return out
                dead[x] = i
        for reg, st in op.S.items():
            for it in st[2]:
                x = it.split(":")[0]
                if x in dead:
                    out.append(("destroyed-exposed", i, "after `%s` (%s) register %s holds element %s, whose destructor already ran during `%s`: %s" % (
                        op.line, op.result, reg, x, ops[dead[x]].line, st[2])))
                    return out
    return out

def iter_drop_oracle(ops, mops):
    """C10's last clause judged on the implementation's own trace: after `drop it` of a Drain or of a Splice with an honest
    replacement (no None, no hint) the vector is the untouched prefix, then the replacement, then the untouched suffix.
    Applied where the model's outcome of the same operation satisfies the clause (a reachable case the clause applies to:
    also when the drop unwinds because a destructor of an element still in the range panicked)."""
    out = []
    live = {}
    for i, op in enumerate(ops):
        a = op.args
        if op.name in ("drain", "splice") and op.result == "ok" and len(a) >= 4:
            (before, _) = T.state_before(ops, i, a[0])
            if before is None or ">" in a[1] or ">" in a[2]:
                continue
            r = T.resolve_range(a[1], a[2], before[0])
            if r is None:
                continue
            vals = []
            if op.name == "splice":
                fill = a[3]
                if not (fill.startswith("it[") and fill.endswith("]")):
                    continue
                vals = [x for x in fill[3:-1].split(",") if x]
                if "N" in vals:
                    continue
            live[a[-1]] = (a[0], r[0], r[1], before[2], vals)
        elif op.name == "forget" and a and a[0] in live:
            live.pop(a[0])
        elif op.name == "drop" and a and a[0] in live and op.result in ("ok", "panic"):
            vreg, st, en, items, vals = live.pop(a[0])
            after = op.S.get(vreg)
            mafter = mops[i].S.get(vreg) if i < len(mops) and mops[i].line == op.line else None
            pre, suf = items[:st], items[en:]
            def holds(S):
                got = S[2]
                return (len(got) == len(pre) + len(vals) + len(suf) and got[:st] == pre and got[len(got) - len(suf):] == suf
                        and [x.split(":")[1] for x in got[st:st + len(vals)]] == vals)
            if after is not None and mafter is not None and holds(mafter) and not holds(after):
                out.append(("iter-drop-outcome", i, "after `%s` (%s) %s is %s: not the untouched prefix %s, the replacement %s, the untouched suffix %s" % (
                    op.line, op.result, vreg, after[2], pre, vals, suf)))
    return out

def views_cases(mode):
    """the borrowed views (Deref, AsRef, Borrow, Index, as_slice, &v / &mut v iteration, Cow) after every single
    operation on every start state and element class; IntoIter's slice views after steps"""
    out = []
    k = 0
    for cls in G.CLASSES:
        for label, pre in G.start_states(cls):
            out.append(G.case("vw-%s-%s-%d" % (cls, label, k), cls, mode, pre + ["views v0"])); k += 1
            for op in G.mutating_ops(args=[0, 1, 5]):
                out.append(G.case("vw-%s-%s-%d" % (cls, label, k), cls, mode, pre + [op, "views v0", "push v0 9", "views v0"])); k += 1
            for steps in ([], ["next it"], ["next_back it"], ["next it", "next_back it", "next it"], ["nth it 9"]):
                out.append(G.case("vwi-%s-%s-%d" % (cls, label, k), cls, mode, pre + ["into_iter v0 it"] + steps + ["iter_views it", "drop it"])); k += 1
    return out

def huge_cases(mode):
    """C09: counts near the representable limits for every size-taking entry point"""
    out = []
    k = 0
    for cls in G.CLASSES:
        sz = SIZES[cls]
        M = (1 << 64) - 1
        I = (1 << 63) - 1
        counts = sorted(set([M, M - 1, M // 2, M // 2 + 1, M // 2 + 2, I, I + 1, I + 2, (1 << 62), (1 << 62) + 1,
                             M // sz, M // sz + 1, M // sz + 2, M // sz - 1, I // sz, I // sz + 1, I // sz - 1, I // sz - 24 // sz - 2,
                             (I - 64) // sz, (1 << 61), (1 << 61) + 1, (1 << 40), (1 << 31), (1 << 30) // sz + 7, 3]))
        for n in counts:
            for pre in (["new v0"], ["macro_list v0 1 2"], ["with_alignment v0 2 64", "push v0 1"]):
                for op in ("reserve v0 %d", "reserve_exact v0 %d", "shrink_to v0 %d"):
                    out.append(G.case("huge-%s-%d" % (cls, k), cls, mode, pre + [op % n, "push v0 9", "spare v0"])); k += 1
            out.append(G.case("huge-%s-%d" % (cls, k), cls, mode, ["with_capacity v0 %d" % n, "push v0 9", "spare v0"])); k += 1
            for a in (8, 64, 4096, 1 << 20, 1 << 40, 1 << 62, 1 << 63):
                out.append(G.case("huge-%s-%d" % (cls, k), cls, mode, ["with_alignment v0 %d %d" % (n, a), "push v0 9"])); k += 1
        # capacity 0 with an alignment whose padded header alone cannot be had: must be refused loudly, not skipped
        for a in (64, 4096, 1 << 20, 1 << 31, 1 << 40, 1 << 48, 1 << 62, 1 << 63):
            out.append(G.case("huge-%s-%d" % (cls, k), cls, mode, ["with_alignment v0 0 %d" % a, "push v0 9", "spare v0"])); k += 1
        # growth boundary of push / insert and the element-creating entry points with sizes that must be refused before anything is created
        for n in (M, I + 1, M // sz + 1, I // sz + 1):
            out.append(G.case("huge-%s-%d" % (cls, k), cls, mode, ["macro_list v0 1", "resize v0 %d 5" % n, "push v0 9"])); k += 1
            out.append(G.case("huge-%s-%d" % (cls, k), cls, mode, ["macro_list v0 1", "resize_with v0 %d g[1]" % n, "push v0 9"])); k += 1
            out.append(G.case("huge-%s-%d" % (cls, k), cls, mode, ["macro_repeat v0 5 %d" % n])); k += 1
    return out

def argument_grid(mode):
    """C11: every index / range argument from the grid x bound kinds x start states"""
    out = []
    k = 0
    M = (1 << 64) - 1
    for cls in ("w4", "s16", "b1"):
        for label, pre in G.start_states(cls):
            vals = [0, 1, 2, 3, 4, 7, 8, 9, M - 1, M]
            # indices whose BYTE offset wraps around the address space back onto a live element (index * size_of::<T>() mod 2^64):
            # a bounds check done on pointers instead of on indices accepts them
            wrap = (1 << 64) // SIZES[cls]
            if SIZES[cls] > 1:
                vals += [wrap, wrap + 1, wrap + 2, 2 * wrap + 1 if 2 * wrap + 1 <= M else wrap + 3, (1 << 63), (1 << 63) + 1]
            for v in vals:
                for op in ("insert v0 %d 5", "remove v0 %d", "swap_remove v0 %d", "split_off v0 %d c1", "truncate v0 %d", "shrink_to v0 %d"):
                    out.append(G.case("arg-%s-%s-%d" % (cls, label, k), cls, mode, pre + [op % v, "push v0 9"])); k += 1
            bs = ["U"] + ["%s%d" % (kind, v) for kind in "IE" for v in (0, 1, 2, 3, 4, 8, M - 1, M)]
            for b1 in bs:
                for b2 in bs:
                    for op in ("drain v0 %s %s it", "splice v0 %s %s it[7,8] it", "extend_from_within v0 %s %s"):
                        tail = ["drop it"] if "it" in op.split()[-1:] else []
                        out.append(G.case("arg-%s-%s-%d" % (cls, label, k), cls, mode, pre + [op % (b1, b2)] + tail + ["push v0 9"])); k += 1
    return out

def boundary_grid(mode):
    """a reduced argument grid around usize::MAX (the optimized profile wraps where the debug profile panics)"""
    out = []
    k = 0
    M = (1 << 64) - 1
    for cls in ("w4", "b1"):
        for label, pre in G.start_states(cls)[:4]:
            for v in (M - 1, M):
                for op in ("insert v0 %d 5", "remove v0 %d", "swap_remove v0 %d", "split_off v0 %d c1", "truncate v0 %d", "resize v0 %d 3", "reserve v0 %d", "reserve_exact v0 %d"):
                    out.append(G.case("bnd-%s-%s-%d" % (cls, label, k), cls, mode, pre + [op % v, "push v0 9"])); k += 1
            bs = ["U", "I0", "E0", "I2", "E2", "I%d" % M, "E%d" % M, "I%d" % (M - 1), "E%d" % (M - 1)]
            for b1 in bs:
                for b2 in bs:
                    for op in ("drain v0 %s %s it", "splice v0 %s %s it[7,8] it", "extend_from_within v0 %s %s"):
                        tail = ["drop it"] if "it" in op.split()[-1:] else []
                        out.append(G.case("bnd-%s-%s-%d" % (cls, label, k), cls, mode, pre + [op % (b1, b2)] + tail + ["push v0 9"])); k += 1
    return out

# -------------------------------------------------------------------------------------------------
def with_directive(cases, directive):
    out = []
    for c in cases:
        lines = c.split("\n")
        # insert after the !mode line
        k = [i for i, l in enumerate(lines) if l.startswith("!mode")][0]
        out.append("\n".join(lines[:k + 1] + [directive] + lines[k + 1:]))
    return out

def rename(cases, suffix):
    out = []
    for c in cases:
        first, rest = c.split("\n", 1)
        out.append(first + suffix + "\n" + rest)
    return out

def short_sequences(tier, seed, mode, classes, hostile=False):
    """short sequences with many callbacks, used for the crash-point / fault-point sweeps"""
    rng = G.Rng(seed ^ 0x51)
    out = []
    n = 40 if tier == "quick" else 300
    for cls in classes:
        for label, pre in G.start_states(cls)[:6]:
            seqs = [[op] for op in G.mutating_ops(args=[0, 1, 2, 5])] + G.two_reg_ops() + G.iter_ops()[::3]
            for j in range(n):
                seq = rng.pick(seqs)
                out.append(G.case("sq-%s-%s-%d" % (cls, label, len(out)), cls, mode, pre + list(seq)))
    return out

CALLBACK_SEQS = [
    ["clear v0"], ["truncate v0 1"], ["truncate v0 0", "push v0 1"], ["dedup v0"], ["dedup_by v0 mod2=0"], ["dedup_by v0 seqFTFTFT"],
    ["dedup_by_key v0 kmod2"], ["retain v0 mod2=0"], ["retain v0 seqTFTFTF"], ["remove_item v0 2"], ["remove_item v0 99"],
    ["resize v0 7 5"], ["resize v0 1 5"], ["resize_with v0 7 g[1,2,3,4,5,6,7]"], ["extend v0 it[7,8,9]"], ["extend_from_slice v0 7 8 9"],
    ["extend_from_within v0 U U"], ["extend_from_within v0 I1 E2"], ["clone v0 c"], ["from_slice c 1 2 3"], ["collect c it[1,2,3,4,5]"],
    ["macro_repeat c 5 3"], ["macro_list c 1 2 3"], ["insert v0 99 5"], ["insert v0 0 5"], ["push v0 5"],
    ["drain v0 U U it", "drop it"], ["drain v0 I1 E3 it", "next it", "drop it"], ["drain v0 I0 E2 it", "next_back it", "drop it"],
    ["splice v0 I1 E2 it[7,8,9] it", "drop it"], ["splice v0 I0 E3 it[7] it", "drop it"], ["splice v0 U U it[] it", "next it", "drop it"],
    ["splice v0 I1 E1 it[7,8] it", "drop it"],
    ["drain_filter v0 mod2=1 it", "drop it"], ["drain_filter v0 mod2=0 it", "next it", "drop it"], ["drain_filter v0 seqTFTF it", "next it", "next it", "drop it"],
    ["into_iter v0 it", "drop it"], ["into_iter v0 it", "next it", "next_back it", "drop it"], ["into_iter v0 it", "next it", "clone_iter it j", "drop j", "drop it"],
    ["drop v0"], ["split_off v0 1 c", "drop c"], ["macro_list c 8 9", "append v0 c", "drop c"],
    ["deserialize c 2 sq[1,2,3]"], ["deserialize c N sq[1,E]"], ["deserialize_in_place v0 N sq[7,8]"], ["deserialize_in_place v0 9 sq[7,8,9,10,11]"],
    ["compare v0 v0"],
    # iterators dropped with two or more elements not yet yielded and a tail behind the range
    ["drain v0 I0 E2 it", "drop it"], ["drain v0 I1 E4 it", "drop it"], ["drain v0 I1 E5 it", "next it", "drop it"], ["drain v0 I0 E4 it", "next_back it", "drop it"],
    ["splice v0 I1 E4 it[7] it", "drop it"], ["splice v0 I1 E4 it[7,8,9,10,11] it", "next it", "drop it"], ["splice v0 I0 E3 it[7,8] it", "next_back it", "drop it"],
    ["drain_filter v0 seqTTTFT it", "drop it"], ["drain_filter v0 seqFTTTF it", "drop it"], ["drain_filter v0 seqTFTTT it", "next it", "drop it"],
    ["retain v0 seqTFTTF"], ["retain v0 seqFTTFT"], ["dedup_by v0 seqFFTFT"],
    # the provided iterator methods (internal iteration: fold / count / nth and whatever overrides them) and clone_from
    ["drain v0 I0 E3 it", "nth it 1", "drop it"], ["drain v0 U U it", "count it"], ["drain v0 I1 U it", "next it", "count it"],
    ["drain v0 I0 E4 it", "nth_back it 1", "drop it"],
    ["into_iter v0 it", "nth it 1", "drop it"], ["into_iter v0 it", "count it"], ["into_iter v0 it", "nth_back it 1", "drop it"],
    ["into_iter v0 it", "next it", "nth it 2", "drop it"],
    ["splice v0 I0 E2 it[7] it", "count it"], ["splice v0 I1 E4 it[7,8] it", "nth it 1", "drop it"],
    ["drain_filter v0 seqTTFT it", "count it"], ["drain_filter v0 seqTTTT it", "nth it 1", "drop it"],
    ["macro_list c 40 41 42", "clone_from v0 c", "drop c"], ["macro_list c 40", "clone_from v0 c", "drop c"],
    ["macro_list c 40 41 42 43 44 45 46 47 48", "clone_from v0 c", "drop c"],
    ["into_iter v0 it", "macro_list c 1 2 3", "into_iter c j", "clone_from_iter it j", "drop j", "drop it"],
    # `last` (a fold that keeps the newest element): a destructor of a replaced accumulator, a predicate or the iterator's
    # own drop may panic
    ["into_iter v0 it", "last it"], ["into_iter v0 it", "next it", "last it"], ["drain v0 I1 E4 it", "last it"], ["drain v0 U U it", "next_back it", "last it"],
    ["splice v0 I1 E4 it[7,8] it", "last it"], ["splice v0 I0 E2 it[7,8,9,10,11,12] it", "last it"], ["drain_filter v0 seqTTFTT it", "last it"],
]

def panic_sweep(tier, seed, mode):
    """every callback-bearing operation x storage state x element class, re-run with the k-th callback
    invocation panicking, then a fixed probe (read all, push, pop, clone, drop)"""
    out = []
    # p4: an element type without drop glue (a duplicated element is then only visible as a duplicated identity)
    classes = ["w4", "s16", "b1", "p4"] if tier == "quick" else ["w4", "s16", "b1", "p4", "a32", "big"]
    ks = range(1, 10) if tier == "quick" else range(1, 26)
    probe = ["push v0 77", "pop v0", "clone v0 probe", "drop probe"]
    n = 0
    for cls in classes:
        for label, pre in G.start_states(cls):
            if label in ("sentinel", "zero", "empty", "over64zero"):
                continue
            for seq in CALLBACK_SEQS:
                for k in ks:
                    out.append(G.case("pn-%s-%s-%d-p%d" % (cls, label, n, k), cls, mode, pre + list(seq) + probe, ["!panic_at %d" % k]))
                n += 1
    if tier != "quick":
        base = short_sequences(tier, seed, mode, ["w4", "s16", "b1"])
        for k in range(1, 13):
            out += rename(with_directive(base, "!panic_at %d" % k), "-p%d" % k)
    return out

def allocfail_sweep(tier, seed, mode):
    base = short_sequences(tier, seed ^ 7, mode, ["w4", "s16", "big", "a32"])
    # systematic part: every operation of the alphabet on the start states that own a block / are exactly full
    k0 = 0
    for cls in ("w4", "s16"):
        for label, pre in G.start_states(cls):
            if label not in ("sentinel", "part", "full", "over64"):
                continue
            for seq in [[op] for op in G.mutating_ops(args=[0, 1, 2, 5])] + G.two_reg_ops() + G.iter_ops()[::5]:
                base.append(G.case("sqa-%s-%s-%d" % (cls, label, k0), cls, mode, pre + list(seq))); k0 += 1
    # the serde entry points size requests from the input's claimed length
    for cls in ("w4", "s16"):
        for pre in (["new v0"], ["macro_list v0 1 2 3"], ["with_capacity v0 4", "push v0 1"], ["macro_list v0 1 2 3 4 5 6 7 8 9"]):
            for h in ("N", "2", "5", "40", "2000"):
                for sq in ("sq[1,2,3,4,5]", "sq[1,2,3,4,5,6,7,8,9,10,11,12,13,14,15,16,17]", "sq[]"):
                    base.append(G.case("sqs-%s-%d" % (cls, k0), cls, mode, pre + ["deserialize w %s %s" % (h, sq), "deserialize_in_place v0 %s %s" % (h, sq), "push v0 5"])); k0 += 1
                    base.append(G.case("sqs-%s-%d" % (cls, k0), cls, mode, pre + ["deserialize_in_place v0 %s %s" % (h, sq), "push v0 5"])); k0 += 1
    out = []
    for k in (range(1, 5) if tier == "quick" else range(1, 9)):
        out += rename(with_directive(base, "!allocfail_at %d" % k), "-a%d" % k)
    return out

def refused_resize_cases(mode):
    """capacity-changing operations whose allocator request is refused: the call must not return as if it had been
    granted (a returned `shrink_to_fit` leaves capacity == len, a returned `reserve(n)` capacity >= len + n)"""
    out = []
    k = 0
    for cls in ("w4", "s16", "b1"):
        for label, pre in G.start_states(cls):
            if label in ("sentinel", "zero"):
                continue
            for op in ("shrink_to_fit v0", "shrink_to v0 0", "shrink_to v0 1", "shrink_to v0 3", "reserve v0 64", "reserve_exact v0 9", "push v0 1"):
                for kk in (1, 2):
                    out.append(G.case("rfr-%s-%s-%d-a%d" % (cls, label, k, kk), cls, mode, pre + ["reserve v0 40", op, "spare v0", "push v0 5"], ["!allocfail_at %d" % (kk + 1)]))
                    out.append(G.case("rfr-%s-%s-%d-b%d" % (cls, label, k, kk), cls, mode, pre + [op, "spare v0", "push v0 5"], ["!allocfail_at %d" % kk]))
                k += 1
    return out

def empty_with_capacity_cases(mode):
    """C18: a vector that is empty but owns a block (never filled, cleared, drained, popped empty, emptied by append),
    natural and over-aligned, then every operation that has to get a bigger block, with that very request refused"""
    out = []
    k = 0
    for cls in ("w4", "s16", "b1", "a32"):
        pres = [["with_capacity v0 4"], ["with_alignment v0 4 64"], ["macro_list v0 1 2 3", "clear v0"], ["macro_list v0 1 2 3", "truncate v0 0"],
                ["macro_list v0 1 2", "drain v0 U U it", "drop it"], ["macro_list v0 1", "pop v0"], ["macro_list v0 1 2", "new c", "append c v0"],
                ["macro_list v0 1 2 3", "into_iter v0 it", "drop it", "with_capacity v0 2"]]
        ops = ["reserve v0 40", "reserve_exact v0 40", "extend_from_slice v0 " + " ".join(str(i % 7) for i in range(20)), "resize v0 30 5",
               "resize_with v0 30 g[1,2,3]", "extend v0 it[" + ",".join(str(i % 7) for i in range(20)) + "]",
               "macro_list c " + " ".join(str(i % 7) for i in range(20)) + "|append v0 c", "splice v0 U U it[" + ",".join(str(i % 7) for i in range(20)) + "] sp|drop sp",
               "shrink_to_fit v0|push v0 1"]
        for pre in pres:
            base_allocs = 1 + sum(1 for l in pre if l.startswith(("macro_list", "with_capacity", "with_alignment")) ) 
            for op in ops:
                for a in range(1, 7):
                    out.append(G.case("ewc-%s-%d-a%d" % (cls, k, a), cls, mode, pre + op.split("|") + ["push v0 9"], ["!allocfail_at %d" % a]))
                k += 1
    return out

def sentinel_sweep(mode):
    out = []
    k = 0
    for cls in G.CLASSES:
        for ctor in (["new v0"], ["default v0"], ["with_capacity v0 0"], ["from_slice v0"], ["collect v0 it[]"], ["macro_empty v0"],
                     ["macro_repeat v0 5 0"], ["new x", "clone x v0"], ["new x", "drain_vec x v0"]):
            for op in G.mutating_ops(args=[0, 1, (1 << 64) - 1]):
                out.append(G.case("sent-%s-%d" % (cls, k), cls, mode, ctor + [op, "push v0 9"])); k += 1
            for seq in G.two_reg_ops() + G.iter_ops():
                out.append(G.case("sent-%s-%d" % (cls, k), cls, mode, ctor + list(seq))); k += 1
            # a never-allocated vector against empty vectors that own storage: equal, same order, same hash
            for other in (["with_capacity e 4"], ["macro_list e 1", "pop e"], ["macro_list e 1 2", "clear e", "shrink_to_fit e"], ["new e"]):
                out.append(G.case("sent-%s-%d" % (cls, k), cls, mode, ctor + other + ["compare v0 e", "compare e v0", "views v0", "serialize v0"])); k += 1
            out.append(G.case("sent-%s-%d" % (cls, k), cls, mode, ctor + ["leak v0"])); k += 1
            out.append(G.case("sent-%s-%d" % (cls, k), cls, mode, ctor + ["from_str 0", "from_str 3", "push v0 1"])); k += 1
            out.append(G.case("sent-%s-%d" % (cls, k), cls, mode, ctor + ["forget v0"])); k += 1
            for sd in (["deserialize_in_place v0 N sq[]"], ["deserialize_in_place v0 0 sq[]"], ["deserialize_in_place v0 0 sq[1,2]"], ["deserialize_in_place v0 N sq[1,2,3]"],
                       ["deserialize_in_place v0 5 sq[E]"], ["serialize v0"], ["deserialize d N sq[]", "compare v0 d"]):
                out.append(G.case("sent-%s-%d" % (cls, k), cls, mode, ctor + sd + ["push v0 9"])); k += 1
            # iterators that yield nothing but advertise a non-zero upper bound
            for it in ("it[]h0-5", "it[N,4]h0-3", "it[]h0-N"):
                out.append(G.case("sent-%s-%d" % (cls, k), cls, mode, ctor + ["extend v0 " + it, "splice v0 U U " + it + " sp", "drop sp", "extend v0 " + it, "push v0 9"])); k += 1
    return out

def forget_cases(tier, seed, mode):
    out = []
    k = 0
    for cls in G.CLASSES:
        for label, pre in G.start_states(cls):
            for seq in G.iter_ops():
                if any(x.startswith("forget") for x in seq):
                    out.append(G.case("fg-%s-%s-%d" % (cls, label, k), cls, mode, pre + list(seq) + ["pop v0", "clear v0"])); k += 1
    # a DrainFilter whose predicate panics at its j-th call; the caller catches the panic, polls again, then forgets
    # (or drops) the iterator: whatever the vector still exposes must be live
    for cls in ("w4", "s16", "b1"):
        for label, pre in G.start_states(cls):
            if label in ("sentinel", "zero", "empty", "over64zero"):
                continue
            for pred in ("seqTFTTFT", "seqFTTFTT", "mod2=0", "seqTTTTTT"):
                for j in range(1, 6):
                    for fin in ("forget it", "drop it"):
                        out.append(G.case("fgp-%s-%s-%d-p%d" % (cls, label, k, j), cls, mode,
                                          pre + ["drain_filter v0 %s it" % pred, "next it", "next it", "next it", fin, "push v0 7", "pop v0", "clear v0"],
                                          ["!panic_at %d" % j])); k += 1
    return out

def forget_range_cases(mode):
    """a Drain / Splice made from a RangeBounds whose answers change between calls (`I0>I3`), stepped, then forgotten or
    dropped: whichever answers the code goes by, the vector left behind exposes only live elements, each once"""
    out = []
    k = 0
    rgs = [("I0>I3", "E4"), ("I0>I2", "U"), ("I1>I0", "E3"), ("I0", "E2>E5"), ("I2>I4", "E4>E2"), ("E0>E2", "I3"), ("I0>I1>I3", "E4>E4>E1")]
    for cls in ("w4", "s16", "b1"):
        for label, pre in G.start_states(cls):
            if label in ("sentinel", "zero", "empty", "over64zero"):
                continue
            for a, b in rgs:
                for steps in ([], ["next it"], ["next it", "next it"], ["next_back it"], ["next it", "next_back it"]):
                    for fin in ("forget it", "drop it"):
                        out.append(G.case("fgr-%s-%s-%d" % (cls, label, k), cls, mode, pre + ["drain v0 %s %s it" % (a, b)] + steps + [fin, "push v0 77", "pop v0", "clear v0"], ["!vecdiff off"])); k += 1
                        out.append(G.case("fgr-%s-%s-%d" % (cls, label, k), cls, mode, pre + ["splice v0 %s %s it[7,8] it" % (a, b)] + steps + [fin, "push v0 77", "pop v0", "clear v0"], ["!vecdiff off"])); k += 1
    return out

def iterator_cases(tier, seed, mode):
    out = []
    k = 0
    rng = G.Rng(seed ^ 0x10)
    for cls in G.CLASSES:
        for label, pre in G.start_states(cls):
            for seq in G.iter_ops():
                out.append(G.case("it-%s-%s-%d" % (cls, label, k), cls, mode, pre + list(seq))); k += 1
    # exhaustive (front, back) prefixes up to exhaustion + 2 on a 5-element vector
    for cls in ("w4", "s16"):
        for b1, b2 in (("U", "U"), ("I1", "E4"), ("I2", "E2"), ("E0", "I3")):
            for f in range(0, 8):
                for bk in range(0, 8 - f):
                    steps = []
                    for i in range(max(f, bk)):
                        if i < f: steps += ["next it", "size_hint it"]
                        if i < bk: steps += ["next_back it", "len it"]
                    out.append(G.case("itx-%s-%d" % (cls, k), cls, mode, ["macro_list v0 1 2 3 4 5", "drain v0 %s %s it" % (b1, b2)] + steps + ["drop it"])); k += 1
                    out.append(G.case("itx-%s-%d" % (cls, k), cls, mode, ["macro_list v0 1 2 3 4 5", "splice v0 %s %s it[7,8] it" % (b1, b2)] + steps + ["drop it"])); k += 1
            for f in range(0, 8):
                for bk in range(0, 8 - f):
                    steps = ["next it", "as_slice it"] * f + ["next_back it", "len it"] * bk
                    out.append(G.case("itx-%s-%d" % (cls, k), cls, mode, ["macro_list v0 1 2 3 4 5", "into_iter v0 it"] + steps + ["size_hint it", "drop it"])); k += 1
    return out

def clone_cases(tier, seed, mode):
    out = []
    k = 0
    for cls in G.CLASSES:
        for label, pre in G.start_states(cls):
            for tail in (["drop v0", "push c 1", "pop c", "drop c"], ["drop c", "push v0 1", "pop v0"], ["push v0 1", "push c 2", "truncate v0 1", "compare v0 c"]):
                out.append(G.case("cl-%s-%s-%d" % (cls, label, k), cls, mode, pre + ["clone v0 c"] + tail)); k += 1
            # the clone is a vector like any other, whatever storage state it got: every kind of operation works on it
            for use in (["spare c", "split_spare c", "fill_spare c 2 60", "views c"], ["fill_split_spare c 3 70", "shrink_to_fit c", "push c 1"],
                        ["into_iter c j", "nth j 0", "nth j 9", "drop j"], ["reserve c 5", "insert c 0 7", "remove c 0"], ["raw_parts c", "push c 2"],
                        ["drain c U U j", "next j", "drop j", "extend c it[1,2]"], ["dedup c", "retain c mod2=0", "truncate c 1", "clone c d", "push d 1"]):
                out.append(G.case("clu-%s-%s-%d" % (cls, label, k), cls, mode, pre + ["clone v0 c"] + use + ["push v0 9"])); k += 1
            # ... and so is the clone of an IntoIter, also of one that has nothing left
            for steps in (["next it"] * 9, ["next_back it"] * 9, [], ["next it"]):
                for use in (["nth j 0", "nth j 3"], ["nth_back j 0"], ["count j"], ["iter_views j", "as_slice j", "next j", "next_back j", "drop j"], ["clone_iter j k2", "next k2", "drop k2", "drop j"]):
                    out.append(G.case("cliu-%s-%s-%d" % (cls, label, k), cls, mode, pre + ["into_iter v0 it"] + steps + ["clone_iter it j"] + use + ["nth it 0", "drop it"])); k += 1
            for other in (["new c"], ["with_capacity c 3"], ["macro_list c 40 41"], ["macro_list c 40 41 42 43 44 45 46 47 48 49"], ["macro_list c 40", "pop c", "shrink_to_fit c"]):
                out.append(G.case("clf-%s-%s-%d" % (cls, label, k), cls, mode, pre + other + ["clone_from c v0", "push c 1", "drop v0", "pop c"])); k += 1
                out.append(G.case("clf-%s-%s-%d" % (cls, label, k), cls, mode, pre + other + ["clone_from v0 c", "drop c", "push v0 1", "pop v0"])); k += 1
            for f in range(0, 4):
                for bk in range(0, 3):
                    steps = ["next it"] * f + ["next_back it"] * bk
                    for tail in (["drop it", "as_slice j", "next j", "next_back j", "drop j"], ["drop j", "next it", "as_slice it", "drop it"],
                                 ["next j", "next it", "next_back j", "as_slice it", "as_slice j"], ["iter_views it", "iter_views j", "drop j", "iter_views it", "drop it"]):
                        out.append(G.case("cli-%s-%s-%d" % (cls, label, k), cls, mode, pre + ["into_iter v0 it"] + steps + ["clone_iter it j"] + tail)); k += 1
            # Clone::clone_from between two IntoIters: the target stepped from either end, sources shorter / longer than
            # what the target has left and than its capacity
            for src in (["new c"], ["macro_list c 40 41"], ["macro_list c 40 41 42 43 44 45 46 47 48 49"], ["with_capacity c 9", "extend c it[40,41,42,43]"]):
                for tsteps in ([], ["next it"], ["next it", "next it"], ["next_back it"], ["next it", "next_back it"]):
                    for ssteps in ([], ["next j"], ["next_back j"]):
                        out.append(G.case("clfi-%s-%s-%d" % (cls, label, k), cls, mode,
                                          pre + src + ["into_iter v0 it", "into_iter c j"] + tsteps + ssteps +
                                          ["clone_from_iter it j", "as_slice it", "as_slice j", "next it", "next_back it", "iter_views it", "drop j", "as_slice it", "next it", "drop it"])); k += 1
    return out

def raw_cases(tier, seed, mode):
    out = []
    k = 0
    for cls in G.CLASSES:
        for label, pre in G.start_states(cls):
            for op in ("raw_parts v0", "raw_part v0"):
                out.append(G.case("raw-%s-%s-%d" % (cls, label, k), cls, mode, pre + [op, "push v0 5", "pop v0", "spare v0"])); k += 1
        for a in (8, 16, 32, 64, 128, 512, 4096, 8192, 65536, 2097152):
            for n in (0, 1, 5):
                for op in ("raw_parts v0", "raw_part v0"):
                    out.append(G.case("rawA-%s-%d" % (cls, k), cls, mode, ["with_alignment v0 %d %d" % (n, a), "push v0 1", "push v0 2", op, "push v0 3", "pop v0"])); k += 1
        # coincidences between the header words: length == capacity == alignment, capacity == alignment, length == alignment
        if cls in ("w4", "s16", "b1", "a16", "a32"):
            for a in (16, 32, 64):
                fill = "extend v0 it[%s]" % ",".join(str(i % 9) for i in range(a))
                for pre in (["with_alignment v0 %d %d" % (a, a), fill], ["with_alignment v0 4 %d" % a, fill],
                            ["with_alignment v0 %d %d" % (a, a), "push v0 1"], ["with_alignment v0 %d %d" % (2 * a, a), fill],
                            ["with_alignment v0 %d %d" % (a, a), fill, "pop v0"]):
                    if cls == "b1" and a > 32:
                        continue
                    for op in ("raw_parts v0", "raw_part v0"):
                        out.append(G.case("rawW-%s-%d" % (cls, k), cls, mode, pre + [op, "pop v0", "push v0 3", "shrink_to_fit v0"])); k += 1
    return out

def clone_panic_cases(mode):
    """a Clone that panics at its k-th call, for every cloning entry point: neither value may be harmed"""
    out = []
    n = 0
    seqs = [["clone v0 c", "drop c"],
            ["into_iter v0 it", "next it", "clone_iter it j", "drop j", "drop it"],
            ["into_iter v0 it", "next_back it", "clone_iter it j", "next j", "drop it", "drop j"],
            ["into_iter v0 it", "clone_iter it j", "drop it", "as_slice j", "drop j"],
            ["macro_list c 40 41 42 43 44 45 46 47 48", "clone_from v0 c", "drop c", "push v0 98"],
            ["macro_list c 40", "clone_from v0 c", "push c 3", "drop c"],
            ["extend_from_slice v0 7 8 9"], ["extend_from_within v0 U U"], ["resize v0 9 5"], ["macro_repeat c 5 4", "drop c"]]
    for cls in ("w4", "s16", "a16"):
        for label, pre in G.start_states(cls):
            if label in ("sentinel", "zero", "empty", "over64zero"):
                continue
            for seq in seqs:
                for k in range(1, 7):
                    out.append(G.case("cp-%s-%s-%d-p%d" % (cls, label, n, k), cls, mode, pre + list(seq) + ["push v0 77", "pop v0"], ["!panic_at %d" % k]))
                n += 1
    return out

def extend_ref_cases(mode):
    """`Extend<&T>` for a Copy element type with honest, lying and non-fused by-reference iterators"""
    out = []
    k = 0
    M = (1 << 64) - 1
    for pre in (0, 1, 4, 8, 9):
        for fill in ("it[]", "it[7]", "it[1,2,3,4,5,6,7,8,9,10,11]", "it[1,2,N,3,4,5,6,7,8,9,10,11,12,13,14,15,16,17,18,19,20]", "it[N,1,2,3]"):
            for h in ("", "h0-0", "h0-1", "h0-3", "h2-2", "h100-N", "h0-N", "h%d-N" % M, "h0-%d" % M, "h5-1"):
                out.append(G.case("er-%d" % k, "w4", mode, ["extend_ref %d %s%s" % (pre, fill, h)])); k += 1
    return out

def huge_hint_cases(mode):
    """source / replacement iterators whose size_hint bounds are near usize::MAX (arithmetic on a hint
    must not wrap in the optimized profile), on vectors that are exactly full, partly filled and never allocated"""
    out = []
    k = 0
    M = (1 << 64) - 1
    for cls in ("w4", "b1", "s16"):
        for label, pre in G.start_states(cls):
            if label not in ("sentinel", "part", "full", "over64"):
                continue
            for fill in ("it[7,8,9]", "it[]", "it[7,8,9,10,11,12,13]"):
                for h in ("h%d-N" % M, "h%d-%d" % (M, M), "h%d-N" % (M - 1), "h%d-N" % (M // 2), "h%d-N" % (M // 2 + 1), "h0-%d" % M):
                    out.append(G.case("hh-%s-%s-%d" % (cls, label, k), cls, mode, pre + ["extend v0 %s%s" % (fill, h), "push v0 77", "splice v0 I0 E1 %s%s it" % (fill, h), "drop it", "collect c %s%s" % (fill, h)], ["!vecdiff off"])); k += 1
    return out

def lying_hint_cases(mode):
    """Splice / extend / collect with replacement iterators whose size_hint is wrong in either direction:
    every item the iterator yields must still arrive (std::vec::Vec is the reference)"""
    out = []
    k = 0
    for cls in ("w4", "s16"):
        for label, pre in G.start_states(cls)[:6]:
            for fill in ("it[7,8,9]", "it[7]", "it[7,8,9,10,11,12,13]"):
                for h in ("h0-0", "h0-1", "h0-N", "h5-5", "h1-2", "h100-N"):
                    for b1, b2 in (("I1", "E2"), ("I0", "E0"), ("U", "U"), ("I2", "U")):
                        out.append(G.case("lh-%s-%s-%d" % (cls, label, k), cls, mode, pre + ["splice v0 %s %s %s%s it" % (b1, b2, fill, h), "next it", "drop it", "push v0 77"])); k += 1
                    out.append(G.case("lh-%s-%s-%d" % (cls, label, k), cls, mode, pre + ["extend v0 %s%s" % (fill, h), "collect c %s%s" % (fill, h), "push v0 77"])); k += 1
    return out

def grow_with_tail_cases(mode):
    """operations that have to move the block while they hold a position inside it: a Splice whose replacement is longer
    than the range, with a tail behind the range and no spare capacity; insert / extend_from_within / append into a full
    vector (the checking allocator never resizes in place and overwrites what it retires: an address computed before
    the request reads the fill pattern afterwards)"""
    out = []
    k = 0
    for cls in ("w4", "s16", "a32"):
        for n in (2, 4, 5, 8):
            pre = ["macro_list v0 " + " ".join(str(i + 1) for i in range(n)), "shrink_to_fit v0"]
            for fill in ("it[7,8,9]", "it[7,8,9,10,11,12,13,14,15]", "it[7,8]h0-0", "it[7,8,9,10]h9-9"):
                for b1, b2 in (("I0", "E1"), ("I1", "E1"), ("I0", "E0"), ("I1", "E2")):
                    for steps in ([], ["next it"], ["next_back it"]):
                        out.append(G.case("gt-%s-%d" % (cls, k), cls, mode, pre + ["splice v0 %s %s %s it" % (b1, b2, fill)] + steps + ["drop it", "push v0 77", "pop v0"])); k += 1
            for op in ("insert v0 0 9", "insert v0 1 9", "extend_from_within v0 U U", "extend_from_within v0 I0 E1", "resize v0 %d 3" % (2 * n + 1), "extend_from_slice v0 7 8 9"):
                out.append(G.case("gt-%s-%d" % (cls, k), cls, mode, pre + [op, "push v0 77", "pop v0"])); k += 1
            out.append(G.case("gt-%s-%d" % (cls, k), cls, mode, pre + ["macro_list c 7 8 9", "append v0 c", "push v0 77", "drop c"])); k += 1
    return out

def mixed_alignment_cases(mode):
    """two-vector operations between vectors of DIFFERENT alignments (one made by with_alignment, the other not, or
    with another value), in both directions and for every relation between the lengths and the capacities: whatever
    block ends up in the destination is resized and released with its own layout"""
    out = []
    k = 0
    mk = {"plain3": ["macro_list %s 1 2 3"], "plain9": ["macro_list %s 1 2 3 4 5 6 7 8 9"], "empty": ["new %s"], "cap16": ["with_capacity %s 16", "push %s 1"],
          "al32": ["with_alignment %s 4 32", "push %s 1", "push %s 2"], "al64full": ["with_alignment %s 2 64", "push %s 1", "push %s 2"],
          "al16empty": ["with_alignment %s 0 16"], "al128big": ["with_alignment %s 12 128", "extend %s it[1,2,3,4,5,6,7,8,9,10]"]}
    for cls in ("w4", "s16", "p4"):
        for da, db in (("al32", "plain3"), ("al32", "plain9"), ("plain3", "al32"), ("plain9", "al64full"), ("empty", "al128big"), ("al16empty", "plain9"),
                       ("al64full", "al128big"), ("al128big", "al32"), ("cap16", "al128big"), ("al64full", "empty"), ("al32", "cap16")):
            for op in (["clone_from a b"], ["append a b"], ["clone_from a b", "push a 7", "clone_from b a"], ["extend_from_slice a 7 8 9 10 11 12 13 14 15", "clone_from a b"]):
                pre = [l % "a" for l in mk[da]] + [l % "b" for l in mk[db]]
                out.append(G.case("mx-%s-%d" % (cls, k), cls, mode, pre + op + ["push a 77", "reserve a 20", "shrink_to_fit a", "push b 78", "drop a", "drop b"])); k += 1
    return out

def iter_drop_panic_cases(mode):
    """an iterator dropped while a destructor of an element still inside its range panics: the vector is still the
    untouched prefix, then the replacement / the retained elements, then the untouched suffix"""
    out = []
    k = 0
    seqs = [["drain v0 I1 E3 it", "drop it"], ["drain v0 I0 E3 it", "next it", "drop it"], ["drain v0 I1 E4 it", "next_back it", "drop it"],
            ["splice v0 I1 E3 it[7,8] it", "drop it"], ["splice v0 I1 E4 it[7] it", "drop it"], ["splice v0 I1 E3 it[7,8,9,10,11] it", "drop it"],
            ["splice v0 I0 E3 it[7,8] it", "next it", "drop it"], ["splice v0 I1 E4 it[7,8,9] it", "next_back it", "drop it"],
            ["drain_filter v0 seqTTFTT it", "drop it"], ["drain_filter v0 seqFTTFT it", "next it", "drop it"],
            ["into_iter v0 it", "next it", "drop it"]]
    for cls in ("w4", "s16"):
        for label, pre in G.start_states(cls):
            if label not in ("part", "full", "over64", "dups"):
                continue
            for seq in seqs:
                for kk in range(1, 7):
                    out.append(G.case("idp-%s-%s-%d-p%d" % (cls, label, k, kk), cls, mode, pre + list(seq) + ["push v0 77", "pop v0"], ["!panic_at %d" % kk]))
                k += 1
        # a tail behind the range and several elements still pending behind the one whose destructor panics
        long = ["macro_list v0 1 2 3 4 5 6 7 8 9"]
        for seq in (["drain v0 I1 E4 it", "drop it"], ["drain v0 I1 E5 it", "next it", "drop it"], ["drain v0 I2 E7 it", "next_back it", "drop it"],
                    ["drain_filter v0 seqFTTTFTTF it", "drop it"], ["drain_filter v0 seqTTFTTFTT it", "next it", "drop it"],
                    ["splice v0 I1 E5 it[7] it", "drop it"], ["splice v0 I1 E5 it[7,8,9,10,11,12] it", "next it", "drop it"],
                    ["into_iter v0 it", "next it", "next_back it", "drop it"]):
            for kk in range(1, 8):
                out.append(G.case("idpL-%s-%d-p%d" % (cls, k, kk), cls, mode, long + list(seq) + ["push v0 77", "pop v0"], ["!panic_at %d" % kk]))
            k += 1
    return out

def serde_many_cases(mode):
    """more elements than the 1024 the deserializer reserves up front, announced truthfully, short or absurdly"""
    M = (1 << 64) - 1
    out = []
    k = 0
    for n in (1025, 1100, 2049):
        many = ",".join(str(i % 7) for i in range(n))
        for cls in ("w4", "s16"):
            for h in (str(n), str(n - 1), "1024", "1025", "2000", str(1 << 40), str(M), "N"):
                out.append(G.case("sdM-%s-%d" % (cls, k), cls, mode, ["deserialize v0 %s sq[%s]" % (h, many), "push v0 5", "pop v0"])); k += 1
    return out

def from_str_cases(mode):
    """From<&str> for MiniVec<u8>, the empty string included (the vector it builds never allocates)"""
    return [G.case("fstr-%d" % n, "b1", mode, ["from_str %d" % n, "new v0", "push v0 1"]) for n in (0, 1, 3, 64, 4096)]

def raw_natural_cases(mode):
    """raw-parts round trips of buffers with the element type's natural alignment (the over-aligned ones are C14's)"""
    out = []
    k = 0
    for cls in G.CLASSES:
        for label, pre in G.start_states(cls):
            if any("with_alignment" in l for l in pre):
                continue
            for op in ("raw_parts v0", "raw_part v0"):
                out.append(G.case("rawN-%s-%s-%d" % (cls, label, k), cls, mode, pre + [op, "push v0 5", "pop v0", "truncate v0 1"])); k += 1
    return out

def hostile_cases(tier, seed, mode):
    out = []
    k = 0
    rng = G.Rng(seed ^ 0x77)
    import itertools
    scripts = []
    for n in range(0, 5 if tier == "quick" else 7):
        for pat in itertools.product(["N", "7"], repeat=n):
            scripts.append("it[" + ",".join(pat) + "]")
    preds = ["seq" + "".join(p) for n in range(0, 5) for p in itertools.product("TF", repeat=n)]
    for cls in ("w4", "s16", "b1"):
        for label, pre in G.start_states(cls)[:6]:
            for sc in scripts:
                for h in ("", "h0-N", "h0-0", "h18446744073709551615-N", "h1-1"):
                    if h and rng.below(4):
                        continue
                    out.append(G.case("hs-%s-%s-%d" % (cls, label, k), cls, mode, pre + ["splice v0 I1 E2 %s%s it" % (sc, h), "drop it", "extend v0 %s%s" % (sc, h), "collect c %s%s" % (sc, h)], ["!vecdiff off"])); k += 1
            for p in preds:
                out.append(G.case("hp-%s-%s-%d" % (cls, label, k), cls, mode, pre + ["retain v0 %s" % p, "dedup_by v0 %s" % p, "drain_filter v0 %s it" % p, "next it", "drop it"], ["!vecdiff off"])); k += 1
            for es in ("T", "F", "TF", "FT", "TTFF", "FTFT"):
                out.append(G.case("he-%s-%s-%d" % (cls, label, k), cls, mode, pre + ["dedup v0", "remove_item v0 2", "compare v0 v0"], ["!vecdiff off", "!eq_script " + es])); k += 1
    # a RangeBounds implementation whose answers change between calls (`I1>I5`: first call I1, later calls I5): whichever
    # answers the operation goes by, it must validate the ones it uses
    rgs = [("I1>I5", "E3>E2"), ("I1", "E3>E9"), ("I0>I4", "E2>E1"), ("I2>I0", "E4>E6"), ("U", "E2>E99"), ("I1>I3", "I2>I0"), ("E0>E5", "U"),
           ("I1>I1>I6", "E3>E3>E0"), ("I0", "E1>E0"), ("I3>I0", "E3"), ("I1>I2", "E3>E4")]
    for cls in ("w4", "s16", "b1"):
        for label, pre in G.start_states(cls)[:6]:
            for a, b in rgs:
                out.append(G.case("hrg-%s-%s-%d" % (cls, label, k), cls, mode, pre + ["splice v0 %s %s it[7,8] it" % (a, b), "drop it", "push v0 1", "drain v0 %s %s j" % (a, b), "next j", "drop j",
                                                                                  "extend_from_within v0 %s %s" % (a, b), "pop v0"], ["!vecdiff off"])); k += 1
    # a SeqAccess whose size_hint is wrong in either direction (serde is user code too)
    for cls in ("w4", "s16"):
        for sq in ("sq[1,2,3,4,5,6,7,8,9,10,11,12,13,14,15,16,17,18,19]", "sq[1,2,3]", "sq[]"):
            for h in ("N", "0", "1", "2", "5", "19", "40", "1024"):
                out.append(G.case("hsd-%s-%d" % (cls, k), cls, mode, ["deserialize v0 %s %s" % (h, sq), "push v0 5", "macro_list w 1 2 3", "deserialize_in_place w %s %s" % (h, sq), "push w 5"], ["!vecdiff off"])); k += 1
    n = 300 if tier == "quick" else 3000
    for i in range(n):
        cls = G.CLASSES[i % len(G.CLASSES)]
        out.append(G.random_case(rng, "hr-%s-%d" % (cls, i), cls, mode, 15 + rng.below(25), directives=["!vecdiff off"], hostile=True))
    return out

def clone_glue_cases(mode):
    """every operation that must go through the element's Clone, on the element classes without drop glue (p4 and the
    one-byte p1: Clone but not Copy; a bitwise copy or a memset instead of a clone shows as the same identity twice) and
    on one with a destructor"""
    out = []
    k = 0
    ops = [["extend_from_slice v0 7 8 9"], ["extend_from_slice v0 7"], ["clone v0 c", "push c 1"], ["resize v0 9 4"], ["from_slice c 1 2 3", "append v0 c"],
           ["from_mut_slice c 4 5 6", "push c 1"], ["extend_from_within v0 U U"], ["extend_from_within v0 I0 E1"], ["macro_repeat c 7 4", "append v0 c"],
           ["macro_list c 5 6 7 8 9 1 2", "clone_from v0 c"], ["macro_list c 5", "clone_from v0 c"], ["into_iter v0 it", "clone_iter it j", "drop j", "drop it"]]
    for cls in ("p4", "w4", "p1"):
        for label, pre in G.start_states(cls):
            for seq in ops:
                out.append(G.case("cg-%s-%s-%d" % (cls, label, k), cls, mode, pre + list(seq) + ["push v0 3", "pop v0"])); k += 1
    return out

def compare_prefix_cases(mode):
    """comparisons between vectors of different lengths, one a prefix of the other, the shorter one never allocated /
    exactly full / with destroyed elements behind its length; also under equality scripts that always answer `equal`"""
    out = []
    k = 0
    longs = [["macro_list a 1 2 3 4"], ["macro_list a 1 2 3 4 5 6 7 8 9"], ["with_capacity a 16", "extend a it[1,2,3]"]]
    shorts = [["new b"], ["with_capacity b 4"], ["macro_list b 1 2 3"], ["macro_list b 1 2 3 9 9", "truncate b 3"], ["macro_list b 1", "shrink_to_fit b"],
              ["macro_list b 1 2 3 4 5", "clear b"], ["macro_list b 1 2", "pop b", "pop b", "shrink_to_fit b"]]
    for cls in ("w4", "s16", "b1", "p4"):
        for lo in longs:
            for sh in shorts:
                for es in (None, "T", "TTTTTTTTTTTT", "F"):
                    out.append(G.case("cpx-%s-%d" % (cls, k), cls, mode, lo + sh + ["compare a b", "compare b a", "compare a a", "push b 1", "compare a b"],
                                      ["!vecdiff off", "!eq_script " + es] if es else [])); k += 1
    return out

def align_cases(tier, seed, mode):
    out = []
    k = 0
    rng = G.Rng(seed ^ 0x88)
    aligns = [1, 2, 4, 8, 16, 32, 64, 128, 256, 512, 1024, 2048, 4096, 3, 6, 12, 24, 48, 96, 100, 4095, 4097, 8192]
    hist = [["push v0 1", "clear v0", "shrink_to_fit v0", "push v0 2", "push v0 3"],
            ["shrink_to_fit v0", "reserve v0 9", "push v0 1"],
            ["push v0 1", "push v0 2", "push v0 3", "push v0 4", "push v0 5", "truncate v0 1", "shrink_to v0 1", "pop v0", "shrink_to_fit v0", "extend v0 it[1,2,3]"],
            ["extend_from_slice v0 1 2 3 4 5 6 7 8 9", "drain v0 I1 E5 it", "drop it", "split_off v0 2 c", "push v0 7", "append v0 c"],
            ["push v0 1", "split_off v0 0 c", "push c 5", "push v0 6", "drain_vec c d", "push d 7"],
            ["push v0 1", "into_iter v0 it", "next it", "drop it"],
            ["resize v0 9 4", "retain v0 mod2=0", "dedup v0", "shrink_to_fit v0", "insert v0 0 5"],
            ["clone v0 c", "push c 1", "reserve_exact v0 17", "push v0 1"],
            ["extend v0 it[1,2,3]", "shrink_to_fit v0", "splice v0 I1 E2 it[7,8,9,10,11,12,13,14,15] it", "drop it", "push v0 1"],
            ["push v0 1", "shrink_to_fit v0", "splice v0 U U it[7,8,9] it", "next it", "drop it"],
            ["extend v0 it[1,2,3,4]", "shrink_to_fit v0", "insert v0 1 9", "shrink_to_fit v0", "extend_from_within v0 U U", "shrink_to_fit v0", "resize v0 30 1"],
            ["push v0 1", "shrink_to_fit v0", "macro_list c 1 2 3 4 5", "append v0 c", "shrink_to_fit v0", "extend_from_slice v0 1 2 3", "shrink_to_fit v0", "resize_with v0 20 g[1]"],
            ["deserialize_in_place v0 N sq[1,2,3,4,5,6,7,8,9]", "shrink_to_fit v0", "collect c it[1,2]", "append v0 c"],
            # append into a destination that owns a zero-capacity over-aligned block, and out of an over-aligned source
            ["macro_list c 1 2 3 4 5", "append v0 c", "push v0 1", "extend v0 it[1,2,3,4,5,6,7,8,9,10,11,12,13,14,15,16,17]"],
            ["extend_from_slice v0 1 2 3", "clear v0", "shrink_to v0 0", "macro_repeat c 7 9", "append v0 c", "push v0 1", "push c 2"],
            ["extend_from_slice v0 1 2 3", "new d", "append d v0", "push v0 1", "extend v0 it[1,2,3,4,5,6,7,8,9,10,11,12,13,14,15,16,17]", "push d 1"],
            ["extend_from_slice v0 1 2 3", "with_capacity d 0", "append d v0", "extend_from_slice v0 4 5 6 7 8 9", "clone_from d v0", "push d 1"],
            # an EMPTY vector that owns over-aligned storage (fresh, or filled and emptied) refilled beyond its capacity by one
            # call: every way of doing that must keep the vector's own (over-aligned) storage class
            ["splice v0 U U it[1,2,3,4,5,6,7,8,9] it", "drop it", "push v0 1", "reserve v0 40"],
            ["push v0 1", "clear v0", "splice v0 U U it[1,2,3,4,5,6,7,8,9] it", "drop it", "push v0 1"],
            ["push v0 1", "pop v0", "splice v0 I0 E0 it[1,2,3,4,5,6,7,8,9] it", "next it", "drop it", "shrink_to_fit v0", "push v0 1"],
            ["deserialize_in_place v0 20 sq[1,2,3,4,5,6,7,8,9]", "push v0 1", "reserve v0 40"],
            ["push v0 1", "truncate v0 0", "deserialize_in_place v0 1000000 sq[1,2,3,4,5,6,7,8,9]", "push v0 1"],
            ["extend v0 it[1,2,3,4,5,6,7,8,9]", "clear v0", "extend_from_slice v0 1 2 3 4 5 6 7 8 9 10 11 12 13 14 15 16 17 18 19 20", "push v0 1"],
            ["resize v0 9 1", "clear v0", "resize_with v0 40 g[1]", "push v0 1"],
            ["macro_list c 1 2 3 4 5 6 7 8 9", "clone_from v0 c", "push v0 1", "clear v0", "collect d it[1,2,3,4,5,6,7,8,9,10,11,12,13,14,15,16,17,18,19,20]", "clone_from v0 d", "push v0 1"],
            ["drain v0 U U it", "drop it", "extend v0 it[1,2,3,4,5,6,7,8,9]", "drain v0 U U it2", "drop it2", "splice v0 U U it[1,2,3,4,5,6,7,8,9,10,11,12,13,14,15,16,17,18,19,20] sp", "drop sp", "push v0 1"]]
    for cls in G.CLASSES:
        for a in aligns:
            for n in (0, 1, 4):
                for h in hist:
                    out.append(G.case("al-%s-%d" % (cls, k), cls, mode, ["with_alignment v0 %d %d" % (n, a)] + h)); k += 1
    # an unacceptable alignment is reported through Err whatever the capacity asked for (also an absurd one)
    M = (1 << 64) - 1
    for cls in ("w4", "b1", "s16"):
        for a in (0, 1, 2, 3, 4, 6, 12, 24, 100, 4095, 4097):
            for n in (M, M - 1, M // 2 + 1, 1 << 62, (1 << 61) + 1):
                out.append(G.case("alx-%s-%d" % (cls, k), cls, mode, ["with_alignment v0 %d %d" % (n, a), "new v0", "push v0 1"])); k += 1
    # a callback that panics must not cost the vector its storage class either: whatever unwinds, the alignment stays
    if mode == "debug":
        ops = [["retain v0 seqTFTFTF"], ["dedup_by v0 seqFTFTF"], ["dedup_by_key v0 kseq1,1,2,2,3,3"], ["drain_filter v0 seqTFTFTF it", "next it", "drop it"],
               ["extend v0 it[7,8,9,10,11,12,13,14,15]"], ["resize_with v0 20 g[1]"], ["resize v0 20 5"], ["extend_from_slice v0 7 8 9 10 11 12 13 14 15"],
               ["splice v0 I1 E3 it[7,8,9,10,11,12,13,14,15] it", "drop it"], ["clone v0 c"], ["extend_from_within v0 U U"], ["truncate v0 1"], ["clear v0"]]
        for cls in ("w4", "s16"):
            for a in (32, 4096):
                for op in ops:
                    for pk in (1, 2, 3, 5):
                        out.append(G.case("alp-%s-%d" % (cls, k), cls, mode, ["with_alignment v0 6 %d" % a] + ["push v0 %d" % i for i in range(1, 7)] + op + ["push v0 77", "reserve v0 40", "push v0 78"],
                                          ["!panic_at %d" % pk])); k += 1
    return out

def growth_cases(mode):
    """n successive pushes (through extend) for each element size class; big: > 1 MiB of storage"""
    out = []
    for cls, n in (("big", 4100), ("s16", 3000), ("w4", 3000), ("b1", 200)):
        items = ",".join(str(i % 7) for i in range(n))
        out.append(G.case("grow-%s" % cls, cls, mode, ["new v0", "extend v0 it[%s]" % items, "spare v0"]))
    return out

def fit_cases(mode):
    """C07 stability clause: every adding operation at every fill level of a vector with known spare room, the
    result still fitting: storage and capacity must stay (also when the iterator's size_hint claims far more than it
    yields, when the destination is empty but owns storage, when the source of an append is roomier)"""
    out = []
    k = 0
    for cls in G.CLASSES:
        for cap in (8, 16):
            for fill in (0, 1, cap // 2, cap - 3, cap - 1):
                pres = [["with_capacity v0 %d" % cap] + ["push v0 %d" % (i % 7) for i in range(fill)],
                        ["with_capacity v0 %d" % cap] + ["push v0 %d" % (i % 7) for i in range(cap)] + ["truncate v0 %d" % fill]]
                if fill == 0:
                    pres.append(["with_capacity v0 %d" % cap, "push v0 1", "clear v0"])
                room = cap - fill
                for pre in pres:
                    adds = []
                    for n in sorted(set((1, 2, room - 1, room))):
                        if n <= 0 or n > room:
                            continue
                        items = ",".join(str((j * 3) % 7) for j in range(n))
                        for h in ("", "h0-100", "h0-N", "h%d-1000" % n, "h0-0", "h0-%d" % (room + 1)):
                            adds.append("extend v0 it[%s]%s" % (items, h))
                        adds.append("extend_from_slice v0 %s" % items.replace(",", " "))
                        adds.append("resize v0 %d 3" % (fill + n))
                        adds.append("resize_with v0 %d g[%s]" % (fill + n, items))
                        adds.append("from_slice w %s|append v0 w" % items.replace(",", " "))
                        adds.append("with_capacity w 64|extend w it[%s]|append v0 w" % items)
                        adds.append("insert v0 0 5")
                        if fill >= n:
                            adds.append("extend_from_within v0 I0 E%d" % n)
                        adds.append("splice v0 I0 E0 it[%s]h0-100 it|drop it" % items)
                        adds.append("splice v0 I0 E%d it[%s] it|next it|drop it" % (min(fill, 1), items))
                    for a in adds:
                        out.append(G.case("fit-%s-%d" % (cls, k), cls, mode, pre + a.split("|") + ["spare v0", "push v0 1"])); k += 1
    return out

def serde_error_cases(mode):
    """ownership on the error paths of deserialization: an element error at every position of a short input, for
    claimed lengths below, at and above the failing position"""
    out = []
    k = 0
    for cls in ("w4", "s16", "b1"):
        for n in range(0, 7):
            for epos in range(0, n + 1):
                items = [str(1 + (j % 5)) for j in range(n)]
                items.insert(epos, "E")
                sq = "sq[%s]" % ",".join(items)
                for h in ("N", "0", "1", str(max(epos, 1)), str(epos + 1), str(n), str(n + 3), "1024", "5000"):
                    out.append(G.case("sde-%s-%d" % (cls, k), cls, mode, ["deserialize v0 %s %s" % (h, sq), "macro_list w 1 2 3", "reserve w 3", "deserialize_in_place w %s %s" % (h, sq), "push w 5", "drop w"])); k += 1
    return out

def serde_cases(tier, seed, mode):
    out = []
    k = 0
    M = (1 << 64) - 1
    rng = G.Rng(seed ^ 0x19)
    seqs = ["sq[]", "sq[1]", "sq[1,2,3]", "sq[1,2,3,4,5,6,7,8,9]", "sq[E]", "sq[1,E]", "sq[1,2,E,3]", "sq[1,2,3,E]", "sq[E,1,2]",
            "sq[1,2,3,4,5,E]", "sq[1,2,3,4,5,6,7,8,9,10,11,12,13,14,15,16,17]"]
    hints = ["N", "0", "1", "3", "9", "1023", "1024", "1025", "4096", str(1 << 32), str(M // 2), str(M - 1), str(M)]
    for cls in G.CLASSES:
        for sq in seqs:
            for h in hints:
                out.append(G.case("sd-%s-%d" % (cls, k), cls, mode, ["deserialize v0 %s %s" % (h, sq), "serialize v0", "push v0 5", "serialize v0"])); k += 1
        for label, pre in G.start_states(cls):
            for sq in seqs:
                for h in (hints if label in ("part", "sentinel") else ["N", "2", "1024", str(M)]):
                    out.append(G.case("sdi-%s-%s-%d" % (cls, label, k), cls, mode, pre + ["serialize v0", "deserialize_in_place v0 %s %s" % (h, sq), "serialize v0", "push v0 5", "pop v0"])); k += 1
    # accesses that are not fused: `Ok(None)` in the middle, then more items that must never be asked for
    for cls in ("w4", "s16"):
        for label, pre in G.start_states(cls):
            for sq in ("sq[N,7,8]", "sq[1,N,7,8]", "sq[1,2,N,7,8,9,10,11,12]", "sq[1,2,3,4,5,6,7,8,9,N,5]", "sq[N,E]", "sq[1,N,E]"):
                for h in ("N", "2", "9"):
                    out.append(G.case("sdn-%s-%s-%d" % (cls, label, k), cls, mode, pre + ["deserialize_in_place v0 %s %s" % (h, sq), "serialize v0", "deserialize w %s %s" % (h, sq), "push v0 5"])); k += 1
    # more than 1024 elements really arrive while the input claims an absurd length: no request may be sized by the claim
    many = ",".join(str(i % 7) for i in range(1100))
    for cls in ("b1", "w4", "s16"):
        if cls == "b1":
            continue      # class b1 has 255 identities
        for h in (str(1 << 30), str(1 << 40), str(M), "2000", "N"):
            out.append(G.case("sdm-%s-%d" % (cls, k), cls, mode, ["deserialize v0 %s sq[%s]" % (h, many), "push v0 5"])); k += 1
            out.append(G.case("sdm-%s-%d" % (cls, k), cls, mode, ["macro_list v0 1 2 3", "deserialize_in_place v0 %s sq[%s]" % (h, many), "push v0 5"])); k += 1
    for nbytes in (0, 1, 3, 8, 100, 1025):
        out.append(G.case("sdu8-%d" % k, "w4", mode, ["serialize_u8 %d" % nbytes])); k += 1
    # every position x injected element error, round trip of random contents
    n = 100 if tier == "quick" else 1000
    for i in range(n):
        cls = G.CLASSES[i % len(G.CLASSES)]
        vals = [str(rng.below(9)) for _ in range(rng.below(12))]
        pos = rng.below(len(vals) + 1)
        items = vals[:pos] + (["E"] if rng.chance(1, 3) else []) + vals[pos:]
        prior = [str(rng.below(9)) for _ in range(rng.below(10))]
        h = rng.pick(["N", str(len(vals)), str(rng.below(5)), str(M), "1024"])
        pre = ["macro_list v0 " + " ".join(prior)] if prior else ["new v0"]
        out.append(G.case("sdr-%s-%d" % (cls, i), cls, mode, pre + ["deserialize_in_place v0 %s sq[%s]" % (h, ",".join(items)), "serialize v0",
                          "deserialize w %s sq[%s]" % (h, ",".join(items)), "compare v0 v0"]))
    return out

def general(tier, seed, pid, modes=("debug",)):
    return [(m, corpus(m, pid) + general_cases(tier, seed, m)) for m in modes]

PROPS = {
    "C01": {"modules": ["MiniVecProof.Props.C10Provided", "MiniVecProof.Props.C01", "MiniVecProof.Props.C01Histories", "MiniVecProof.Props.C01Loops", "MiniVecProof.Props.C01Ctors", "MiniVecProof.Props.C01Append", "MiniVecProof.Props.C01SplitOff", "MiniVecProof.Props.C01MacroRepeat", "MiniVecProof.Props.C01ExtendWithin", "MiniVecProof.Props.C17RemoveItem", "MiniVecProof.Props.C12CloneFrom", "MiniVecProof.Props.C12IntoIter", "MiniVecProof.Props.C10DrainFilter", "MiniVecProof.Props.C10Splice", "MiniVecProof.Props.C10World"],
            "cases": lambda tier, seed: [(m, c + views_cases(m) + panic_prefix_cases(m) + clone_glue_cases(m) + lying_hint_cases(m) + from_str_cases(m)) for m, c in general(tier, seed, "C01")] + [("release", boundary_grid("release") + views_cases("release"))],
            "owned_oracles": ["O vec-mismatch", "O view-mismatch", "O ledger duplicate-id", "O ledger bitwise-copy", "panic-prefix", "macro-evals", "X signal"], "owned_diffs": ["result", "contents", "panic", "crash"],
            "partial_missing": ["refinement to Vec semantics proved for every history over push, pop, insert, remove, swap_remove, truncate, clear, retain (any predicate), reserve, reserve_exact, shrink_to, shrink_to_fit (C01_refines_vec_partial); separately proved value-for-value: extend_from_slice, resize, resize_with (any generator) (C01Loops), From<&[T]> (C01_from_slice_partial), clone, extend/collect, dedup*, Drain, IntoIter, DrainFilter (any predicate); append, split_off, drain_vec, mini_vec![a, b, c], splice (any replacement iterator), extend_from_within, remove_item (any equality), mini_vec![e; n], clone_from; C01_histories_partial composes them over EVERY history of 25 operation kinds incl. the three borrowing iterators created, stepped and dropped; From<&str>, Cow, the Borrow/AsRef/Deref/Index views are tied to Vec and to the model by the correspondence only (views oracle)"]},
    "C02": {"modules": ["MiniVecProof.Props.C10Provided", "MiniVecProof.Props.C02", "MiniVecProof.Props.C02Histories", "MiniVecProof.Props.C02All", "MiniVecProof.Props.C02Splice", "MiniVecProof.Props.C10", "MiniVecProof.Props.C10IntoIter", "MiniVecProof.Props.C10DrainFilter"],
            "cases": lambda tier, seed: [(m, c + raw_natural_cases(m) + serde_error_cases(m) + (serde_cases(tier, seed, m) + panic_sweep(tier, seed, m) if m == "debug" else [])) for m, c in general(tier, seed, "C02")],
            "owned_oracles": ["O ledger", "O view-mismatch", "X signal", "lost-on-panic", "destroyed-exposed", "destroyed-twice"], "owned_diffs": ["own", "crash"],
            "partial_missing": ["exactly-once destruction and conservation proved for every completed history over the 12 operations of POp (incl. retain with any predicate) followed by Drop (C02_exactly_once_partial, C02_no_double_drop, C02_no_leak); for Drain and IntoIter dropped after any interleaving of steps: yielded front ++ destroyed ++ yielded back reversed = the selected range (specSteps_partition + C10_drain_partial / C10_into_iter_partial); DrainFilter: yielded ++ destroyed = accepted, vector = rejected (C10_drain_filter_partial); C02_histories_partial / C02_histories_into_iter_partial: EVERY completed history over the base operations, extend (any source), dedup / dedup_by / dedup_by_key (any relation), drain(range) with any steps then drop, drain_filter(pred) with any steps then drop, ended by dropping the vector or by into_iter() with any steps then drop: one destructor event per element of `dropped`, and dropped ++ everything yielded or returned is a rearrangement of the starting contents ++ everything handed in; C02_every_history_partial (Props/C02All, C02Splice): the same for EVERY completed history over all 25 operation kinds of HOp, by destructor events: the cloning operations (extend_from_slice, resize, extend_from_within: the clones are new elements handed to the vector), resize_with, remove_item and splice (create, any steps, drop: exactly the unyielded part of the range is destroyed; the temporary that collects the rest of the replacement is emptied before it is dropped) included; the multi-register operations and serde by correspondence + per-element ledger"]},
    "C03": {"modules": ["MiniVecProof.Props.C01", "MiniVecProof.Proofs.MemDrop", "MiniVecProof.Props.C09", "MiniVecProof.Props.C03World", "MiniVecProof.Props.C10World"],
            "cases": lambda tier, seed: [(m, c + huge_cases(m) + raw_natural_cases(m) + from_str_cases(m) + extend_ref_cases(m) + lying_hint_cases(m) + grow_with_tail_cases(m) + mixed_alignment_cases(m) + hostile_cases(tier, seed, m)) for m, c in general(tier, seed, "C03", modes=("debug", "release"))],
            "owned_oracles": ["O alloc", "O cap", "X signal"], "owned_diffs": ["alloc", "ub", "crash"],
            "partial_missing": ["layout quoting proved for grow (every caller), Drop and IntoIter::drop; C03_world_all_histories: for EVERY finite sequence of protocol operations of the register machine on any number of registers (every constructor of Op: all four iterators alive across other operations, two-vector operations, serde, raw round trips, spare capacity, count) every register stays well formed and no step is an illegal access, a failed assertion or a hang (non-panicking callbacks); the theorem is about the model, tied to the code by the correspondence + checking allocator"]},
    "C04": {"modules": ["MiniVecProof.Props.C10Provided", "MiniVecProof.Props.C04", "MiniVecProof.Props.C04Drain", "MiniVecProof.Props.C04IntoIter", "MiniVecProof.Props.C04DrainFilter", "MiniVecProof.Props.C04Loops", "MiniVecProof.Props.C04Dedup", "MiniVecProof.Props.C04MacroRepeat", "MiniVecProof.Props.C04Splice", "MiniVecProof.Props.C04Histories", "MiniVecProof.Props.C04Serde", "MiniVecProof.Props.C04World", "MiniVecProof.Props.C01"],
            "cases": lambda tier, seed: [("debug", corpus("debug", "C04") + panic_sweep(tier, seed, "debug") + panic_prefix_cases("debug"))],
            "owned_oracles": ["O ledger", "O alloc", "X signal", "panic-prefix"], "owned_diffs": ["own", "contents", "result", "panic", "alloc", "ub", "crash"],
            "partial_missing": ["proved under an ARBITRARY panic oracle (any subset of the callbacks may panic): truncate, clear (C04_truncate_partial, C04_clear_partial: length cut before the first destructor, every doomed element destroyed once unless the double-panic abort) and retain with a panicking predicate or destructor (C04_retain_partial: what is exposed plus what was destroyed is a rearrangement of the contents); drop_in_place semantics dropAll_any; the drop guard of Drain (C04_drain_drop_partial: a destructor panic while the Drain is dropped — the guard destroys the rest and moves the tail back, a second panic is the abort) and Drop for IntoIter (C04_into_iter_drop_partial); DrainFilter::next with a panicking predicate at any point of the scan (C04_drain_filter_partial: the guard moves the unscanned rest back, the vector exposes kept ++ unscanned and nothing was destroyed); dropping a DrainFilter with any predicate call or destructor panicking (C04_drain_filter_drop_partial: never an abort, every unscanned element exposed or destroyed exactly once); extend / extend_from_slice / resize / resize_with with the callback panicking at any call (C04Loops: the elements produced so far stay), Clone for MiniVec (C12_clone_any: source untouched; C12_clone_from_any: self untouched or the new clones in place); collect and From<&[T]> (C04_collect_any, C04_from_slice_any: the partial result is unwound, the caller's vector untouched), dedup / dedup_by / dedup_by_key with the comparison, predicate or key function panicking at any call (C04_dedup_partial: only swaps, so every element is still there exactly once); mini_vec![e; n] (C04_macro_repeat_any), the Splice drop guard at any point of the iterator's consumption (C04_splice_drop_partial: the destructors of the unyielded elements, the replacement's next() and everything the guard calls while a panic unwinds may panic; C04_splice_drop_default_partial on a never-allocated vector), remove_item (PartialEq panics) and extend_from_within (Clone panics; its guard publishes the clones made so far); C04_histories_partial: EVERY history over the 25 operation kinds of HOp with ANY arguments under ANY panic oracle runs to its end or stops at the first operation that does not return, and unless the process aborted (allocation failure, second panic while unwinding) the vector is well formed, so the history can go on; the multi-register operations and serde under panics are decided by the exhaustive crash-point sweep of the correspondence"]},
    "C05": {"modules": ["MiniVecProof.Props.C05", "MiniVecProof.Props.C05Iters"],
            "cases": lambda tier, seed: [("debug", corpus("debug", "C05") + forget_cases(tier, seed, "debug") + forget_range_cases("debug") + soak(tier, seed, "debug", "C05")),
                                         ("release", forget_cases(tier, seed, "release")[::3] + forget_range_cases("release"))],
            "owned_oracles": ["O ledger", "O alloc", "X signal"], "owned_diffs": ["own", "contents", "result", "ub", "crash"],
            "partial_missing": ["proved: Drain (C05_drain_forget), Splice (C05_splice_forget) and DrainFilter with any predicate (C05_drain_filter_forget) after ANY steps: the vector left behind exposes only the untouched prefix / nothing; IntoIter owns its vector, forgetting it leaks everything (nothing stays observable): correspondence only"]},
    "C06": {"modules": ["MiniVecProof.Props.C06"],
            "cases": lambda tier, seed: [("debug", corpus("debug", "C06") + sentinel_sweep("debug") + soak(tier, seed, "debug", "C06", n=4000)), ("release", corpus("release", "C06") + sentinel_sweep("release"))],
            "owned_oracles": ["X signal", "O ledger", "O alloc", "O vec-mismatch", "O view-mismatch", "O cmp-slice-mismatch", "sentinel-noalloc", "rejected-unchanged"], "owned_diffs": ["result", "contents", "panic", "alloc", "own", "ub", "crash", "cap"]},
    "C07": {"modules": ["MiniVecProof.Props.C07", "MiniVecProof.Props.C07Stable", "MiniVecProof.Props.C01"],
            "cases": lambda tier, seed: [(m, c + growth_cases(m) + fit_cases(m) + huge_cases(m) + refused_resize_cases(m) + serde_many_cases(m)) for m, c in general(tier, seed, "C07", modes=("debug", "release"))],
            "owned_oracles": ["O cap", "reserve-contract", "stable", "log-resizes", "X signal"], "owned_diffs": ["cap", "alloc"],
            "partial_missing": ["stability clause proved (Props/C07Stable: same block identity, same layout, same capacity and alignment, no allocator request, no allocator event) for push, insert, extend (ANY source iterator: only what it yields counts, never its size_hint), extend_from_slice, resize, resize_with (any generator), append (destination empty or not, source roomier or not) whenever the result fits, and for pop, remove, swap_remove, truncate, clear; retain / dedup* / drain / drain_filter keep capacity and block identity in the C17 / C10 theorems; spare_capacity_mut / split_at_spare_mut exact (C07_spare_exact, C07_fill_spare); extend_from_within, splice and clone_from that fit: correspondence + the stability oracle on every adding operation at every fill level (fit_cases)"]},
    "C08": {"modules": ["MiniVecProof.Props.C08"],
            "cases": lambda tier, seed: [("debug", corpus("debug", "C08") + align_cases(tier, seed, "debug")), ("release", align_cases(tier, seed, "release"))],
            "owned_oracles": ["O align", "align-req", "O alloc layout-mismatch", "with-alignment-result", "X signal"], "owned_diffs": ["alloc", "result", "ub", "crash", "panic"]},
    "C09": {
        "modules": ["MiniVecProof.Props.C09"],
        "cases": lambda tier, seed: [("debug", corpus("debug", "C09") + huge_cases("debug")), ("release", corpus("release", "C09") + huge_cases("release"))],
        "owned_oracles": ["O cap", "X ", "= hang", "reserve-contract", "profile-divergence"],
        "owned_diffs": ["result", "panic", "alloc", "cap", "crash", "ub"],
        "partial_missing": ["lifting of the generated-code theorems through the hand model for resize / resize_with / mini_vec![x; n] / extend_from_slice is by correspondence only"],
    },
    "C10": {"modules": ["MiniVecProof.Props.C10Provided", "MiniVecProof.Props.C10", "MiniVecProof.Props.C10IntoIter", "MiniVecProof.Props.C10DrainFilter", "MiniVecProof.Props.C10Splice", "MiniVecProof.Props.C10World", "MiniVecProof.Props.C06"],
            "cases": lambda tier, seed: [("debug", corpus("debug", "C10") + iterator_cases(tier, seed, "debug") + lying_hint_cases("debug") + iter_drop_panic_cases("debug") + soak(tier, seed, "debug", "C10", n=12000)),
                                         ("release", boundary_grid("release"))],
            "owned_oracles": ["O vec-mismatch", "O view-mismatch", "iter-drop-outcome", "destroyed-exposed", "destroyed-twice", "X signal"], "owned_diffs": ["result", "contents", "ub", "crash", "panic"],
            "partial_missing": ["proved for Drain on every storage state (C10_drain_partial): every interleaving of front/back steps yields what the list iterator over es[st..en] yields, exact counts, None for ever after the ends meet, vector untouched by steps, and drop leaves prefix ++ suffix destroying exactly the unyielded elements; proved for IntoIter on every storage state (C10_into_iter_partial): same protocol, exact len(), as_slice() = unyielded elements, drop destroys exactly those and frees the block with its layout; proved for DrainFilter with ANY predicate (C10_drain_filter_partial, C10_drain_filter_default): any number of next() calls yields the accepted elements in order, drop leaves exactly the rejected ones; proved for Splice with ANY replacement iterator (C10_splice_partial, C10_splice_default): steps are those of its embedded Drain, drop leaves prefix ++ (items before the first None) ++ suffix through every path of the drop guard (gap closed, tail moved up after growing); remaining: yielded sequences and counts checked against std's iterators and the model by correspondence only"]},
    "C11": {
        "modules": ["MiniVecProof.Props.C11"],
        "cases": lambda tier, seed: [("debug", corpus("debug", "C11") + argument_grid("debug")), ("release", argument_grid("release"))] if tier == "thorough"
                 else [("debug", corpus("debug", "C11") + argument_grid("debug")), ("release", boundary_grid("release"))],
        "owned_oracles": ["accept-predicate", "rejected-unchanged", "lost-on-panic", "X signal", r"re:O vec-mismatch \S+ result "],
        "owned_diffs": ["panic", "result"],
    },
    "C12": {"modules": ["MiniVecProof.Props.C10Provided", "MiniVecProof.Props.C12", "MiniVecProof.Props.C04Loops", "MiniVecProof.Props.C12IntoIter", "MiniVecProof.Props.C12CloneFrom"],
            "cases": lambda tier, seed: [("debug", corpus("debug", "C12") + clone_cases(tier, seed, "debug") + clone_panic_cases("debug") + soak(tier, seed, "debug", "C12"))],
            "owned_oracles": ["O ledger", "O alloc", "X ", "= hang", "O vec-mismatch", "O view-mismatch"], "owned_diffs": ["own", "contents", "result", "alloc", "ub", "crash", "panic"],
            "partial_missing": ["proved: Clone for MiniVec returns a well-formed vector of value-equal clones in order with the source handle untouched, or stops in a sanctioned way (C12_clone_partial); IntoIter::as_slice (what IntoIter::clone copies) is exactly the unyielded elements (into_as_slice); IntoIter::clone after any steps builds a fresh vector of value-equal clones of exactly the unyielded elements with its own cursor, original untouched (C12_into_iter_clone_partial); clone_from (C12_clone_from_partial: self gets value-equal clones, its old elements destroyed once, source untouched; self untouched if cloning stops); independence under later mutation/drop in either order: correspondence with owning elements only (the model cannot share a block between two handles by construction)"]},
    "C14": {"modules": ["MiniVecProof.Props.C14"],
            "cases": lambda tier, seed: [("debug", corpus("debug", "C14") + raw_cases(tier, seed, "debug") + raw_after_ops(tier, "debug")), ("release", raw_cases(tier, seed, "release") + raw_after_ops(tier, "release"))],
            "owned_oracles": ["O rawparts", "O cap", "O ledger", "X signal", "O vec-mismatch", "rawparts-null", "O alloc"], "owned_diffs": ["ub", "result", "contents", "crash", "panic"]},
    "C17": {"modules": ["MiniVecProof.Props.C17", "MiniVecProof.Props.C01Histories", "MiniVecProof.Props.C17RemoveItem", "MiniVecProof.Props.C17DedupExact", "MiniVecProof.Props.C10DrainFilter", "MiniVecProof.Props.C10Splice", "MiniVecProof.Props.C01Loops"],
            "cases": lambda tier, seed: [("debug", corpus("debug", "C17") + hostile_cases(tier, seed, "debug") + huge_hint_cases("debug") + extend_ref_cases("debug") + clone_glue_cases("debug") + lying_hint_cases("debug") + compare_prefix_cases("debug")),
                                         ("release", huge_hint_cases("release") + extend_ref_cases("release"))],
            "owned_oracles": ["O ledger", "O alloc", "X signal", "hint-panic", "lost-on-panic", "O vec-mismatch"], "owned_diffs": ["own", "contents", "result", "alloc", "ub", "crash"],
            "partial_missing": ["proved: retain under an ARBITRARY (stateful, inconsistent) non-panicking predicate keeps a sublist of live elements, destroys exactly the others once, no allocator traffic (C17_retain_partial, C17_live_distinct); dedup / dedup_by / dedup_by_key under an arbitrary equality script, predicate or key function (C17_dedup_partial); extend / collect with an arbitrary (non-fused) source iterator (C17_extend_partial, C17_collect_partial); clone under an arbitrary Clone (C12_clone_partial); drain_filter with ANY predicate (C10_drain_filter_partial), resize_with with ANY generator (C17_resize_with_partial); splice with ANY replacement iterator incl. non-fused (C10_splice_partial), remove_item with ANY equality script (C17_remove_item_partial); comparisons: scripted callbacks enumerated exhaustively up to length 4 (quick) / 6 (thorough) by the correspondence only"]},
    "C19": {"modules": ["MiniVecProof.Props.C19", "MiniVecProof.Props.C19Mem"],
            "cases": lambda tier, seed: [("debug", serde_cases(tier, seed, "debug")), ("release", serde_cases(tier, seed, "release"))] if tier == "thorough"
                     else [("debug", serde_cases(tier, seed, "debug"))],
            "owned_oracles": ["O vec-mismatch", "O ledger", "O alloc", "serde-prealloc", "X signal"],
            "owned_diffs": ["result", "contents", "alloc", "own", "cap", "panic", "ub", "crash"],
            "partial_missing": ["(a) C19_deserialize_partial / C19_round_trip_partial, (b)+(d) C19_deserialize_in_place_partial are proved on the hand model Model/Serde.lean for ANY scripted SeqAccess (values, an element error anywhere, an early Ok(None) followed by more items) and ANY claimed length; (c) on regenerated code. The hand model of src/serde.rs and of Serialize is tied to the code by the correspondence (std Vec's own serde impl as shadow) only"]},
    "C18": {"modules": ["MiniVecProof.Props.C18"],
            "cases": lambda tier, seed: [("debug", allocfail_sweep(tier, seed, "debug") + huge_cases("debug") + empty_with_capacity_cases("debug")), ("release", allocfail_sweep(tier, seed, "release") + empty_with_capacity_cases("release"))],
            "owned_oracles": ["X signal", "allocfail-outcome", "O alloc"], "owned_diffs": ["alloc", "panic", "result", "crash", "ub"]},
}

import special as S
for _p in ("C01", "C02", "C04", "C17"):
    PROPS[_p]["special"] = S.mutcb
PROPS["C18"]["special"] = S.oom_unwind
PROPS["C01"]["special"] = S.both(S.mutcb, S.shifty)
for _p in ("C07", "C11"):
    PROPS[_p]["special"] = S.shifty
PROPS["C13"] = {"modules": ["MiniVecProof.Props.C13"], "special": S.c13,
                "partial_missing": ["rustc's layout algorithm is modelled (sum of field sizes rounded to the largest alignment, niche if a field has one), not verified; validated by compile-time assertions over a family of element types"]}
PROPS["C15"] = {"modules": ["MiniVecProof.Props.C15"], "special": S.c15,
                "cases": lambda tier, seed: [("debug", [c for c in general_cases(tier, seed, "debug", classes=["w4", "s16"]) if "compare" in c][:3000])],
                "owned_oracles": ["O cmp-slice-mismatch"], "owned_diffs": ["result"]}
PROPS["C16"] = {"modules": ["MiniVecProof.Props.C16"], "special": S.c16,
                "partial_missing": ["rustc's borrow checker and trait solver are modelled by a loan-based stand-in judgement over a mini-language; 'all client programs' is reached only within it; validated against rustc on every run"]}

def diff_category(d):
    a, b = d["impl"], d["model"]
    if b.startswith("! ub") or b == "= ub":
        return "ub"
    if a.startswith("X ") or a == "<end>" or b == "<end>":
        return "crash"
    for x in (a, b):
        if x[:2] in ("A ", "R ", "F ") or x == "Z":
            return "alloc"
    for x in (a, b):
        if x[:2] in ("D ", "C "):
            return "own"
    if a.startswith("= ") or b.startswith("= "):
        if "panic" in (a[2:], b[2:]) or "abort" in a or "abort" in b or "hang" in a or "hang" in b:
            return "panic"
        return "result"
    if a.startswith("S ") and b.startswith("S "):
        pa, pb = a.split(), b.split()
        if pa[:3] == pb[:3] and pa[3] != pb[3]:
            return "cap"
        return "contents"
    return "result"

def correspondence(pid, tier, seed, model_ok=True):
    P = PROPS[pid]
    violations = []
    evaluations = 0
    nontrivial = set()
    opcount = collections.Counter()
    outcomes = collections.Counter()
    diffcats = collections.Counter()
    other_oracles = collections.Counter()
    samples = []
    validated = 0
    problems_all = []
    special_cov = None
    if "special" in P:
        try:
            sv, special_cov = P["special"](tier, seed)
        except Exception as e:
            sv, special_cov = [{"signature": "special-tie-crashed", "concrete": False, "payload": {"what": "the rustc / native tie could not run: %r" % (e,)}}], {"evaluations": 0, "distinct_nontrivial": 0}
        violations += sv
    results_by_profile = {}    # case text without its name / mode -> {mode: [results of the operations]}
    for mode, cases in (P["cases"](tier, seed) if "cases" in P else []):
        texts = {}
        for c in cases:
            name = c.split("\n", 1)[0].split()[1]
            texts[name] = c
        res, problems = R.run_cases(list(texts.values()), mode, tag=pid)
        problems_all += problems
        for name, (h, m) in res.items():
            evaluations += 1
            text = texts.get(name, "")
            if h is not None and "profile-divergence" in P.get("owned_oracles", []):
                key = "\n".join(l for l in text.split("\n") if not l.startswith("!case") and not l.startswith("!mode"))
                results_by_profile.setdefault(key, {})[mode] = ([o.result for o in T.parse(h) if o.name], text)
            if h is None:
                violations.append({"signature": "harness-missing-trace", "concrete": False, "payload": {"case": text, "mode": mode}})
                continue
            ops = T.parse(h)
            cls = ""
            for l in text.split("\n"):
                if l.startswith("!cfg "):
                    cls = l.split()[1]
            nt = False
            for op in ops:
                if op.name:
                    opcount[op.name] += 1
                if op.result:
                    outcomes[op.result.split()[0]] += 1
                    if op.name not in ("new", "drop") and op.result.split()[0] in ("ok", "some"):
                        nt = True
            if nt:
                nontrivial.add(hashlib.sha1("\n".join(l for l in text.split("\n") if not l.startswith("!case")).encode()).hexdigest())
            if len(samples) < 3 and nt:
                samples.append({"case": text.split("\n"), "impl_trace_head": R.strip_harness(h)[:12]})
            # implementation-side oracles
            found = []
            for i, op in enumerate(ops):
                for o in op.O + op.X + (["= " + op.result] if op.result in ("hang",) else []):
                    if any((re.match(p[3:], o) is not None) if p.startswith("re:") else o.startswith(p) for p in P.get("owned_oracles", [])):
                        if o.startswith("X signal 6") and ("allocfail" in o or ((op.result or "").startswith("abort-other") and "!panic_at" in text)):
                            continue      # the documented abort paths: allocation failure; a panic while unwinding (only with an injected panic)
                        found.append((o.split()[1] if o.startswith("O ") else o.split()[0] + "-" + "-".join(o.split()[1:3]), i, o))
                    elif o.startswith("O "):
                        other_oracles[" ".join(o.split()[:2])] += 1
            for kind, i, textv in T.orchestrator_oracles(ops, SIZES.get(cls, 4), {"a32": 32, "a16": 16}.get(cls, 8)) + panic_prefix_oracle(ops, text) + hint_panic_oracle(ops, text) + lost_on_panic_oracle(ops, text) + destroyed_exposed_oracle(ops, text) + iter_drop_oracle(ops, T.parse(m) if m else []):
                if kind in P.get("owned_oracles", []):
                    found.append((kind, i, textv))
                else:
                    other_oracles["orch " + kind] += 1
            d11_from = None   # (D11 was repaired by da60a70: no open finding is matched any more)
            D11SIG = None
            for kind, i, textv in found:
                opname = ops[i].name if i < len(ops) else "?"
                sig = "%s:%s:%s" % (kind, opname, cls)
                if d11_from is not None and i >= d11_from:
                    sig = D11SIG
                violations.append({"signature": sig, "concrete": True,
                                   "payload": {"what": "implementation-side oracle", "oracle": textv, "op": ops[i].line if i < len(ops) else "",
                                               "case": text, "mode": mode, "impl_trace": h}})
            # model vs implementation
            if model_ok:
                if m is None:
                    violations.append({"signature": "model-missing-trace", "concrete": False, "payload": {"case": text, "mode": mode}})
                    continue
                d = R.first_diff(h, m)
                if d is None:
                    validated += 1
                else:
                    cat = diff_category(d)
                    diffcats[cat] += 1
                    if cat in P.get("owned_diffs", []):
                        concrete = bool(found)
                        if not concrete:
                            sig = "model-vs-impl:%s:%s:%s" % (cat, (d["op"].split() + ["?", "?"])[1], cls)
                            if d11_from is not None:
                                sig = D11SIG
                            violations.append({"signature": sig, "concrete": d11_from is not None and cat == "ub",
                                               "payload": {"what": "the model and the implementation disagree (the tie no longer checks)", "diff": d,
                                                           "case": text, "mode": mode, "impl_trace": R.strip_harness(h), "model_trace": m}})
    # the same operations in the two profiles: which operations return, panic or abort must not depend on the profile
    # (an impossible request "is refused by panicking ... identically in debug and optimized builds")
    for key, by in results_by_profile.items():
        if "debug" in by and "release" in by and by["debug"][0] != by["release"][0]:
            rd, rr = by["debug"][0], by["release"][0]
            j = next((i for i in range(min(len(rd), len(rr))) if rd[i] != rr[i]), min(len(rd), len(rr)))
            cls = next((l.split()[1] for l in key.split("\n") if l.startswith("!cfg ")), "")
            violations.append({"signature": "profile-divergence:%s:%s" % (cls, j), "concrete": True,
                               "payload": {"what": "the same operations end differently in the debug and the optimized build",
                                           "operation_index": j, "debug_results": rd, "release_results": rr, "case": by["release"][1]}})
    cov = {
        "evaluations": evaluations,
        "distinct_nontrivial": len(nontrivial),
        "rule": "regression corpus, then the property's enumerated grid / small-scope sequences, then seeded random sequences; a case is non-trivial if at least one operation other than new/drop returned ok/some; distinct = distinct operation text (sha1)",
        "samples": samples,
        "traces_validated_against_impl": validated,
        "operation_histogram": dict(opcount.most_common()),
        "outcome_histogram": dict(outcomes.most_common()),
        "disagreements_by_category": dict(diffcats),
        "oracle_reports_owned_by_other_properties": dict(other_oracles),
        "runner_problems": problems_all[:5],
    }
    if special_cov is not None:
        if evaluations == 0:
            cov = dict(special_cov, runner_problems=problems_all[:5])
        else:
            cov["evaluations"] += special_cov.get("evaluations", 0)
            cov["distinct_nontrivial"] += special_cov.get("distinct_nontrivial", 0)
            cov["traces_validated_against_impl"] += special_cov.get("traces_validated_against_impl", 0)
            cov["native_tie"] = special_cov
    return {"violations": violations, "coverage": cov}

def replay(pid, path):
    data = json.load(open(path))
    if "case" not in data:
        print(json.dumps(data, indent=1)[:4000])
        return 1
    mode = data.get("mode", "debug")
    res, _ = R.run_cases([data["case"]], mode, jobs=1, tag="replay")
    rc = 0
    for name, (h, m) in res.items():
        print("--- implementation"); print("\n".join(h or []))
        print("--- model"); print("\n".join(m or []))
        d = R.first_diff(h or [], m or [])
        if d or R.oracle_lines(h or []):
            rc = 1
            print("--- first difference:", d)
    return rc

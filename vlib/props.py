"""Per-property configuration: theorem modules, case generators, owned oracles."""
import os, json, hashlib, collections
import gen as G, run as R, trace as T

VERIF = "/verif"
SIZES = {"b1": 1, "w4": 4, "p4": 4, "s16": 16, "a32": 32, "big": 2048}

def corpus(mode, pid=None):
    """minimised past disagreements and every defect found on the pinned tree; run first"""
    out = []
    d = VERIF + "/corpus"
    for f in sorted(os.listdir(d)):
        if not f.endswith(".case"):
            continue
        txt = open(d + "/" + f).read()
        cur = []
        for line in txt.split("\n"):
            if line.startswith("#"):
                continue
            if line.startswith("!case"):
                cur = [line]
            elif line.startswith("!end"):
                cur.append(line)
                c = "\n".join(cur) + "\n"
                if ("!mode " + mode) in c and (pid is None or pid in cur[0]):
                    out.append(c)
                cur = []
            elif cur:
                cur.append(line)
    return out

def general_cases(tier, seed, mode, classes=None, hostile=False, directives=()):
    rng = G.Rng(seed ^ (0xABCD if mode == "release" else 0))
    classes = classes or G.CLASSES
    out = []
    depth = 2 if tier == "quick" else 3
    lim = 60 if tier == "quick" else 400
    for cls in classes:
        out += G.small_scope(cls, mode, depth, rng, limit=lim)
    nrand = 1500 if tier == "quick" else 15000
    for k in range(nrand):
        cls = classes[k % len(classes)]
        out.append(G.random_case(rng, "rnd-%s-%d" % (cls, k), cls, mode, 20 + rng.below(40), directives=directives, hostile=hostile))
    return out

def huge_cases(mode):
    """C09: counts near the representable limits for every size-taking entry point"""
    out = []
    k = 0
    for cls in G.CLASSES:
        sz = SIZES[cls]
        M = (1 << 64) - 1
        I = (1 << 63) - 1
        counts = sorted(set([M, M - 1, M // 2, M // 2 + 1, M // 2 + 2, I, I + 1, I + 2, (1 << 62), (1 << 62) + 1,
                             M // sz, M // sz + 1, M // sz + 2, M // sz - 1, I // sz, I // sz + 1, I // sz - 1, I // sz - 24 // sz - 2,
                             (I - 64) // sz, (1 << 61), (1 << 61) + 1, (1 << 40), (1 << 31), (1 << 30) // sz + 7, 3]))
        for n in counts:
            for pre in (["new v0"], ["macro_list v0 1 2"], ["with_alignment v0 2 64", "push v0 1"]):
                for op in ("reserve v0 %d", "reserve_exact v0 %d", "shrink_to v0 %d"):
                    out.append(G.case("huge-%s-%d" % (cls, k), cls, mode, pre + [op % n, "push v0 9", "spare v0"])); k += 1
            out.append(G.case("huge-%s-%d" % (cls, k), cls, mode, ["with_capacity v0 %d" % n, "push v0 9", "spare v0"])); k += 1
            for a in (8, 64, 4096, 1 << 20, 1 << 40, 1 << 62, 1 << 63):
                out.append(G.case("huge-%s-%d" % (cls, k), cls, mode, ["with_alignment v0 %d %d" % (n, a), "push v0 9"])); k += 1
        # growth boundary of push / insert and the element-creating entry points with sizes that must be refused before anything is created
        for n in (M, I + 1, M // sz + 1, I // sz + 1):
            out.append(G.case("huge-%s-%d" % (cls, k), cls, mode, ["macro_list v0 1", "resize v0 %d 5" % n, "push v0 9"])); k += 1
            out.append(G.case("huge-%s-%d" % (cls, k), cls, mode, ["macro_list v0 1", "resize_with v0 %d g[1]" % n, "push v0 9"])); k += 1
            out.append(G.case("huge-%s-%d" % (cls, k), cls, mode, ["macro_repeat v0 5 %d" % n])); k += 1
    return out

def argument_grid(mode):
    """C11: every index / range argument from the grid x bound kinds x start states"""
    out = []
    k = 0
    M = (1 << 64) - 1
    for cls in ("w4", "s16", "b1"):
        for label, pre in G.start_states(cls):
            vals = [0, 1, 2, 3, 4, 7, 8, 9, M - 1, M]
            for v in vals:
                for op in ("insert v0 %d 5", "remove v0 %d", "swap_remove v0 %d", "split_off v0 %d c1", "truncate v0 %d", "shrink_to v0 %d"):
                    out.append(G.case("arg-%s-%s-%d" % (cls, label, k), cls, mode, pre + [op % v, "push v0 9"])); k += 1
            bs = ["U"] + ["%s%d" % (kind, v) for kind in "IE" for v in (0, 1, 2, 3, 4, 8, M - 1, M)]
            for b1 in bs:
                for b2 in bs:
                    for op in ("drain v0 %s %s it", "splice v0 %s %s it[7,8] it", "extend_from_within v0 %s %s"):
                        tail = ["drop it"] if "it" in op.split()[-1:] else []
                        out.append(G.case("arg-%s-%s-%d" % (cls, label, k), cls, mode, pre + [op % (b1, b2)] + tail + ["push v0 9"])); k += 1
    return out

# -------------------------------------------------------------------------------------------------
PROPS = {
    "C09": {
        "modules": ["MiniVecProof.Props.C09"],
        "theorems": ["MV.Props.C09_no_wrap", "MV.Props.C09_refuse_or_back", "MV.Props.C09_profile_independent",
                     "MV.Props.C09_kernel_profile_independent", "MV.Props.C09_reserve_terminates",
                     "MV.Props.C09_len_plus_additional_overflow"],
        "cases": lambda tier, seed: [("debug", corpus("debug", "C09") + huge_cases("debug")), ("release", corpus("release", "C09") + huge_cases("release"))],
        "owned_oracles": ["O cap", "X ", "= hang", "reserve-contract"],
        "owned_diffs": ["result", "panic", "alloc", "cap", "crash", "ub"],
        "partial_missing": ["lifting of the generated-code theorems through the hand model for resize / resize_with / mini_vec![x; n] / extend_from_slice is by correspondence only"],
    },
    "C11": {
        "modules": ["MiniVecProof.Props.C11"],
        "theorems": ["MV.Props.C11_insert", "MV.Props.C11_remove", "MV.Props.C11_swap_remove", "MV.Props.C11_split_off",
                     "MV.Props.C11_drain", "MV.Props.C11_splice", "MV.Props.C11_extend_from_within", "MV.Props.C11_truncate_total",
                     "MV.Props.C11_shrink_to_reject", "MV.Props.C11_shrink_to_accept", "MV.Props.C11_rejected_untouched",
                     "MV.Props.C11_resolve_iff"],
        "cases": lambda tier, seed: [("debug", corpus("debug", "C11") + argument_grid("debug")), ("release", argument_grid("release"))] if tier == "thorough"
                 else [("debug", corpus("debug", "C11") + argument_grid("debug"))],
        "owned_oracles": ["accept-predicate", "rejected-unchanged", "X signal 11"],
        "owned_diffs": ["panic", "result"],
    },
}

def diff_category(d):
    a, b = d["impl"], d["model"]
    if b.startswith("! ub") or b == "= ub":
        return "ub"
    if a.startswith("X ") or a == "<end>" or b == "<end>":
        return "crash"
    for x in (a, b):
        if x[:2] in ("A ", "R ", "F ") or x == "Z":
            return "alloc"
    for x in (a, b):
        if x[:2] in ("D ", "C "):
            return "own"
    if a.startswith("= ") or b.startswith("= "):
        if "panic" in (a[2:], b[2:]) or "abort" in a or "abort" in b or "hang" in a or "hang" in b:
            return "panic"
        return "result"
    if a.startswith("S ") and b.startswith("S "):
        pa, pb = a.split(), b.split()
        if pa[:3] == pb[:3] and pa[3] != pb[3]:
            return "cap"
        return "contents"
    return "result"

def correspondence(pid, tier, seed, model_ok=True):
    P = PROPS[pid]
    violations = []
    evaluations = 0
    nontrivial = set()
    opcount = collections.Counter()
    outcomes = collections.Counter()
    diffcats = collections.Counter()
    other_oracles = collections.Counter()
    samples = []
    validated = 0
    problems_all = []
    for mode, cases in P["cases"](tier, seed):
        texts = {}
        for c in cases:
            name = c.split("\n", 1)[0].split()[1]
            texts[name] = c
        res, problems = R.run_cases(list(texts.values()), mode, tag=pid)
        problems_all += problems
        for name, (h, m) in res.items():
            evaluations += 1
            text = texts.get(name, "")
            if h is None:
                violations.append({"signature": "harness-missing-trace", "concrete": False, "payload": {"case": text, "mode": mode}})
                continue
            ops = T.parse(h)
            cls = ""
            for l in text.split("\n"):
                if l.startswith("!cfg "):
                    cls = l.split()[1]
            nt = False
            for op in ops:
                if op.name:
                    opcount[op.name] += 1
                if op.result:
                    outcomes[op.result.split()[0]] += 1
                    if op.name not in ("new", "drop") and op.result.split()[0] in ("ok", "some"):
                        nt = True
            if nt:
                nontrivial.add(hashlib.sha1("\n".join(l for l in text.split("\n") if not l.startswith("!case")).encode()).hexdigest())
            if len(samples) < 3 and nt:
                samples.append({"case": text.split("\n"), "impl_trace_head": R.strip_harness(h)[:12]})
            # implementation-side oracles
            found = []
            for i, op in enumerate(ops):
                for o in op.O + op.X + (["= " + op.result] if op.result in ("hang",) else []):
                    if any(o.startswith(p) for p in P["owned_oracles"]):
                        if o.startswith("X signal 6") and ("allocfail" in o or (op.result or "").startswith("abort")):
                            continue      # the documented abort paths (allocation failure, double panic)
                        found.append((o.split()[1] if o.startswith("O ") else o.split()[0] + "-" + "-".join(o.split()[1:3]), i, o))
                    elif o.startswith("O "):
                        other_oracles[" ".join(o.split()[:2])] += 1
            for kind, i, textv in T.orchestrator_oracles(ops, SIZES.get(cls, 4)):
                if kind in P["owned_oracles"]:
                    found.append((kind, i, textv))
                else:
                    other_oracles["orch " + kind] += 1
            for kind, i, textv in found:
                opname = ops[i].name if i < len(ops) else "?"
                violations.append({"signature": "%s:%s:%s" % (kind, opname, cls), "concrete": True,
                                   "payload": {"what": "implementation-side oracle", "oracle": textv, "op": ops[i].line if i < len(ops) else "",
                                               "case": text, "mode": mode, "impl_trace": h}})
            # model vs implementation
            if model_ok:
                if m is None:
                    violations.append({"signature": "model-missing-trace", "concrete": False, "payload": {"case": text, "mode": mode}})
                    continue
                d = R.first_diff(h, m)
                if d is None:
                    validated += 1
                else:
                    cat = diff_category(d)
                    diffcats[cat] += 1
                    if cat in P["owned_diffs"]:
                        concrete = bool(found)
                        if not concrete:
                            violations.append({"signature": "model-vs-impl:%s:%s:%s" % (cat, (d["op"].split() + ["?", "?"])[1], cls), "concrete": False,
                                               "payload": {"what": "the model and the implementation disagree (the tie no longer checks)", "diff": d,
                                                           "case": text, "mode": mode, "impl_trace": R.strip_harness(h), "model_trace": m}})
    cov = {
        "evaluations": evaluations,
        "distinct_nontrivial": len(nontrivial),
        "rule": "regression corpus, then the property's enumerated grid / small-scope sequences, then seeded random sequences; a case is non-trivial if at least one operation other than new/drop returned ok/some; distinct = distinct operation text (sha1)",
        "samples": samples,
        "traces_validated_against_impl": validated,
        "operation_histogram": dict(opcount.most_common()),
        "outcome_histogram": dict(outcomes.most_common()),
        "disagreements_by_category": dict(diffcats),
        "oracle_reports_owned_by_other_properties": dict(other_oracles),
        "runner_problems": problems_all[:5],
    }
    return {"violations": violations, "coverage": cov}

def replay(pid, path):
    data = json.load(open(path))
    if "case" not in data:
        print(json.dumps(data, indent=1)[:4000])
        return 1
    mode = data.get("mode", "debug")
    res, _ = R.run_cases([data["case"]], mode, jobs=1, tag="replay")
    rc = 0
    for name, (h, m) in res.items():
        print("--- implementation"); print("\n".join(h or []))
        print("--- model"); print("\n".join(m or []))
        d = R.first_diff(h or [], m or [])
        if d or R.oracle_lines(h or []):
            rc = 1
            print("--- first difference:", d)
    return rc

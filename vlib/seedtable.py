#!/usr/bin/env python3
"""regenerate DESIGN.md §10 from seeded/*/meta.json and seeded/REGRESSION.txt"""
import json, glob, re, os
rows = []
reg = {}
if os.path.exists('/verif/seeded/REGRESSION.txt'):
    for l in open('/verif/seeded/REGRESSION.txt'):
        p = l.split()
        if len(p) >= 4:
            reg[p[0]] = (p[1].split('=')[1], p[2].split('=')[1], p[3].split('=')[1])
def key(f):
    m = re.search(r'/(C\d+)-(\d+)/', f); return (m.group(1), int(m.group(2)))
metas = sorted(glob.glob('/verif/seeded/*/meta.json'), key=key)
n = len(metas); strengthened = 0; conc = 0; det = 0
for f in metas:
    sid = f.split('/')[-2]
    m = json.load(open(f))
    t = re.sub(r'^## (Change|The change)[^\n]*\n', '', m['needs_to_manifest']).strip().replace('\n', ' ').replace('|', '\\|')
    how = m['how'].replace('|', '\\|')
    if m.get('machinery_strengthened'):
        strengthened += 1
        how += " — **strengthened:** " + m['machinery_strengthened'].replace('|', '\\|')
    r = reg.get(sid)
    last = "%s (%s with failing input)" % (("detected" if r[0] == "yes" else "**NOT DETECTED**"), r[2]) if r else "—"
    if r and r[0] == "yes": det += 1
    if r and r[2] != "0": conc += 1
    rows.append("| %s | %s | %s | %s |" % (sid, t[:230], how, last))
head = """## 10. Seeded changes: which check catches which change

%d changes in ten rounds, each written by a fresh sub-agent that saw only one property's text (rounds 2 to 10 also one-line
descriptions of that property's earlier changes, to avoid repeats, and a request for changes that are hard to notice:
release-only, particular element classes, multi-step storage states, allocator refusal, panics at the k-th callback,
boundary arguments, cooperating edits, rarely used APIs) and a scratch worktree. Each was confirmed (the crate's suite passes,
the demonstration fails with / passes without the change), applied to `/repo`, checked, and undone. Where the first attempt
missed a change or found no failing input, the machinery was strengthened — generators, oracles, harness operations, never
a property — and the change re-run (%d of %d; noted per row). `vlib/seedregress.sh` re-runs all of them against the current
machinery; last full re-run (`seeded/REGRESSION.txt`): **%d of %d reported by the check of their property, %d with a concrete
failing input** (the others name the theorem or correspondence that no longer checks).

| seed | the change (agent's words, truncated) | caught by `./check <property>`: how | last re-run |
|---|---|---|---|
""" % (n, strengthened, n, det, len(reg), conc)
d = open('/verif/DESIGN.md').read()
i = d.index("## 10. Seeded changes"); j = d.index("## 11. Interface")
open('/verif/DESIGN.md', 'w').write(d[:i] + head + "\n".join(rows) + "\n\n" + d[j:])
print(n, strengthened, det, conc)

#!/bin/bash
# seedregress.sh [ids...]: apply every recorded seeded change to /repo in turn, run its property's quick check, record whether
# it is (still) detected, and restore /repo. Never run concurrently with other checks.
cd /verif
git -C /repo diff --quiet || { echo "/repo has uncommitted changes"; exit 2; }
ids="$@"; [ -z "$ids" ] && ids=$(ls seeded)
out=seeded/REGRESSION.txt; : > $out.tmp; [ -n "$RESUME" ] && cat $RESUME > $out.tmp
for id in $ids; do
  pid=${id%%-*}
  P=/verif/seeded/$id/patch.diff; [ -f /verif/seeded/$id/patch_rebased.diff ] && P=/verif/seeded/$id/patch_rebased.diff; git -C /repo apply $P 2>/dev/null || { echo "$id patch-does-not-apply" | tee -a $out.tmp; continue; }
  res=$(./check $pid 2>&1 | grep -v "^KNOWN")
  git -C /repo checkout -- . && git -C /repo clean -fdq
  nviol=$(echo "$res" | grep -c "^VIOLATION")
  nconc=$(echo "$res" | grep "^VIOLATION" | grep -vc "no-failing-input-found")
  echo "$id detected=$([ $nviol -gt 0 ] && echo yes || echo NO) violations=$nviol with-failing-input=$nconc" | tee -a $out.tmp
done
mv $out.tmp $out
git -C /repo status --short | head -3

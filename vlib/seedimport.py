#!/usr/bin/env python3
"""seedimport.py <PID> <N> <how> [strengthened]: record wave-2 seeded change /tmp/mutout2-<PID>/<N> as seeded/<PID>-<N+3>"""
import sys, os, shutil, json, re
pid, n, how = sys.argv[1], int(sys.argv[2]), sys.argv[3]
note = sys.argv[4] if len(sys.argv) > 4 else ""
wave = int(os.environ.get("WAVE", "2"))
src = "/tmp/mutout%d-%s/%d" % (wave, pid, n)
dst = "/verif/seeded/%s-%d" % (pid, n + 3 * (wave - 1))
os.makedirs(dst, exist_ok=True)
shutil.copy(src + "/patch.diff", dst + "/patch.diff")
shutil.copy(src + "/demo.rs", dst + "/demo.rs")
shutil.copy(src + "/README.md", dst + "/agent_README.md")
readme = open(src + "/README.md").read()
m = re.search(r"## Change\s*\n(.*?)(\n## |\Z)", readme, re.S)
change = ("## Change\n" + m.group(1).strip()) if m else readme[:600]
meta = {"property": pid, "wave": wave,
        "origin": "written by a fresh sub-agent that saw only the property text, one-line descriptions of the first-round changes to avoid, and a scratch worktree of /repo",
        "needs_to_manifest": change[:1500],
        "confirmed": "WAVE=%d vlib/seedeval.sh" % wave + " %s %d %s: demo passes on the unchanged tree, fails with the patch; the crate's suite passes with the patch" % (pid, n, pid),
        "detected_by": "./check %s" % pid, "how": how}
if note:
    meta["machinery_strengthened"] = note
json.dump(meta, open(dst + "/meta.json", "w"), indent=1)
print(dst)

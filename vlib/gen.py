"""Case generators for the correspondence check (PROTOCOL.md). Every random choice comes from one
SplitMix64 stream seeded by VERIF_SEED, so a disagreement replays exactly."""
import itertools

CLASSES = ["w4", "s16", "b1", "a32", "big", "p4", "a16"]
MAXU = (1 << 64) - 1

class Rng:
    def __init__(self, seed):
        self.s = seed & MAXU
    def next(self):
        self.s = (self.s + 0x9E3779B97F4A7C15) & MAXU
        z = self.s
        z = ((z ^ (z >> 30)) * 0xBF58476D1CE4E5B9) & MAXU
        z = ((z ^ (z >> 27)) * 0x94D049BB133111EB) & MAXU
        return z ^ (z >> 31)
    def below(self, n):
        return self.next() % n
    def pick(self, xs):
        return xs[self.below(len(xs))]
    def chance(self, num, den):
        return self.below(den) < num

def case(name, cls, mode, ops, directives=()):
    lines = ["!case " + name, "!cfg " + cls, "!mode " + mode]
    lines += list(directives)
    lines += ops
    lines.append("!end")
    return "\n".join(lines) + "\n"

# ---- start states: (label, ops building register v0) -------------------------------------
def start_states(cls):
    full = 8 if cls in ("b1", "p1") else (4 if cls != "big" else 2)
    st = [
        ("sentinel", ["new v0"]),
        ("zero", ["with_capacity v0 4", "shrink_to_fit v0"]),
        ("empty", ["with_capacity v0 4"]),
        ("part", ["macro_list v0 1 2 3", "reserve v0 3"]),
        ("full", ["macro_list v0 " + " ".join(str(i + 1) for i in range(full)), "shrink_to_fit v0"]),
        ("over64", ["with_alignment v0 4 64", "push v0 1", "push v0 2"]),
        ("over64zero", ["with_alignment v0 0 64"]),
        ("dups", ["macro_list v0 1 1 2 2 2 3 1"]),
    ]
    return st

GRID = [0, 1, 2, 3, 4, 5, 7, 8, 9, (1 << 63), MAXU - 1, MAXU]
SMALL = [0, 1, 2, 3, 4, 5, 8, 9]
BOUNDS_S = ["U", "I0", "I1", "I3", "E0", "E2", "I%d" % MAXU, "E%d" % MAXU]
BOUNDS_E = ["U", "I0", "I2", "I3", "E0", "E1", "E3", "E4", "E8", "I%d" % MAXU, "E%d" % MAXU]

def mutating_ops(r="v0", args=SMALL):
    """single operations on register r that need no second register"""
    ops = ["push %s 50" % r, "pop %s" % r, "clear %s" % r, "dedup %s" % r, "shrink_to_fit %s" % r,
           "spare %s" % r, "split_spare %s" % r, "views %s" % r, "fill_spare %s 2 60" % r, "fill_split_spare %s 9 70" % r,
           "retain %s mod2=0" % r, "retain %s seqTFTFT" % r, "dedup_by %s mod2=0" % r, "dedup_by_key %s kmod2" % r,
           "remove_item %s 2" % r, "remove_item %s 99" % r,
           "extend %s it[60,61]" % r, "extend %s it[]" % r, "extend_from_slice %s 70 71 72" % r, "extend_from_slice %s" % r,
           "resize_with %s 6 g[80,81,82,83,84,85]" % r, "resize_with %s 1 g[]" % r]
    for a in args:
        ops += ["insert %s %d 51" % (r, a), "remove %s %d" % (r, a), "swap_remove %s %d" % (r, a),
                "truncate %s %d" % (r, a), "reserve %s %d" % (r, a), "reserve_exact %s %d" % (r, a),
                "shrink_to %s %d" % (r, a)]
    for a in (0, 1, 2, 5, 9):
        ops += ["resize %s %d 52" % (r, a)]
    return ops

def two_reg_ops(r="v0"):
    return [["clone %s c1" % r, "push c1 90", "pop %s" % r],
            ["split_off %s 0 c1" % r, "push %s 91" % r, "push c1 92"],
            ["split_off %s 1 c1" % r, "push c1 92"],
            ["split_off %s 9 c1" % r],
            ["drain_vec %s c1" % r, "push %s 93" % r, "push c1 94"],
            ["macro_list c1 40 41", "append %s c1" % r, "push c1 95"],
            ["new c1", "append %s c1" % r],
            ["with_capacity c1 3", "append %s c1" % r, "push %s 96" % r],
            ["macro_list c1 40", "pop c1", "append %s c1" % r, "append c1 %s" % r],
            ["with_capacity c1 3", "append c1 %s" % r],
            ["macro_list c1 40 41", "clone_from c1 %s" % r, "push c1 97", "pop %s" % r],
            ["new c1", "clone_from c1 %s" % r, "push c1 97"],
            ["macro_list c1 40 41 42 43 44 45 46 47 48", "clone_from %s c1" % r, "drop c1", "push %s 98" % r],
            ["macro_list c1 40 41", "append c1 %s" % r],
            ["macro_list c1 1 2 3", "compare %s c1" % r],
            ["clone %s c1" % r, "compare %s c1" % r, "compare c1 %s" % r]]

def iter_ops(r="v0"):
    seqs = []
    for b1, b2 in [("U", "U"), ("I1", "E3"), ("I0", "I1"), ("E0", "U"), ("I2", "E2"), ("U", "E1")]:
        for steps in ([], ["next it"], ["next_back it"], ["next it", "next_back it", "next it", "next it", "next_back it"],
                      ["next_back it", "next_back it", "next_back it", "next it"], ["nth it 1"], ["nth_back it 1", "nth it 9"],
                      ["next_back it", "nth_back it 9"], ["next it", "next_back it", "nth_back it 1"], ["next_back it", "nth it 9"]):
            for fin in ("drop it", "forget it", "count it", "last it"):
                seqs.append(["drain %s %s %s it" % (r, b1, b2)] + steps + ["size_hint it", "len it", fin, "push %s 77" % r])
        for fill in ("it[]", "it[7]", "it[7,8]", "it[7,8,9,10,11,12]"):
            for steps in ([], ["next it"], ["next_back it", "next it"], ["nth_back it 1"]):
                seqs.append(["splice %s %s %s %s it" % (r, b1, b2, fill)] + steps + ["size_hint it", "count it" if steps == ["next it"] else ("last it" if steps == ["nth_back it 1"] else "drop it"), "push %s 77" % r])
        # a Splice that is leaked after stepping, also with a replacement iterator that is not fused
        for fill in ("it[7,8]", "it[N,7,8,9]", "it[7,N,8,9]"):
            for steps in ([], ["next it"], ["next_back it"], ["next it", "next it"], ["next_back it", "next_back it", "next it"]):
                seqs.append(["splice %s %s %s %s it" % (r, b1, b2, fill)] + steps + ["forget it", "push %s 77" % r])
    for p in ("mod2=0", "mod2=1", "seqTTTTTTTT", "seq", "seqFTFTFT"):
        for steps in ([], ["next it"], ["next it", "next it", "next it", "next it", "next it"], ["nth it 1"]):
            for fin in ("drop it", "forget it", "count it", "last it"):
                seqs.append(["drain_filter %s %s it" % (r, p)] + steps + ["size_hint it", fin, "push %s 77" % r])
    for steps in ([], ["next it"], ["next_back it"], ["next it", "next_back it", "next it", "next_back it", "next it", "next it"],
                  ["nth it 1", "nth_back it 0"], ["nth it 9"], ["next it", "nth_back it 7"], ["next it", "nth_back it 1"],
                  ["next_back it", "nth_back it 1", "nth_back it 9"]):
        for fin in (["drop it"], ["forget it"], ["count it"], ["last it"], ["clone_iter it it2", "next it2", "drop it", "as_slice it2", "next_back it2", "drop it2"],
                    ["clone_iter it it2", "drop it2", "next it"]):
            seqs.append(["into_iter %s it" % r] + steps + ["size_hint it", "len it", "as_slice it", "iter_views it"] + fin)
    return seqs

def ctor_ops():
    ops = ["new n0", "default n0", "macro_empty n0", "from_slice n0", "from_slice n0 1 2 3", "from_mut_slice n0 4 5",
           "collect n0 it[]", "collect n0 it[1,2,3,4,5]", "collect n0 it[1,N,2]", "macro_list n0 9",
           "macro_repeat n0 7 0", "macro_repeat n0 7 1", "macro_repeat n0 7 5"]
    for n in (0, 1, 4, 9):
        ops.append("with_capacity n0 %d" % n)
        for a in (1, 2, 4, 8, 16, 24, 32, 48, 64, 4096):
            ops.append("with_alignment n0 %d %d" % (n, a))
    return ops

def small_scope(cls, mode, depth, rng=None, limit=None):
    """start state x sequences of `depth` operations (exhaustive over the single-register alphabet for
    depth 1; a seeded sample of the product for depth >= 2), plus the two-register and iterator scripts"""
    out = []
    k = 0
    for label, pre in start_states(cls):
        singles = mutating_ops()
        for op in singles:
            out.append(case("ss1-%s-%s-%d" % (cls, label, k), cls, mode, pre + [op, "push v0 99"])); k += 1
        for seq in two_reg_ops():
            out.append(case("ss2r-%s-%s-%d" % (cls, label, k), cls, mode, pre + seq)); k += 1
        for seq in iter_ops():
            out.append(case("ssit-%s-%s-%d" % (cls, label, k), cls, mode, pre + seq)); k += 1
        if depth >= 2 and rng is not None:
            n2 = limit or 150
            for _ in range(n2):
                seq = [rng.pick(singles) for _ in range(depth)]
                out.append(case("ss%d-%s-%s-%d" % (depth, cls, label, k), cls, mode, pre + seq + ["push v0 99"])); k += 1
    for op in ctor_ops():
        out.append(case("ctor-%s-%d" % (cls, k), cls, mode, [op, "push n0 5", "pop n0"])); k += 1
    return out

# ---- random long sequences -----------------------------------------------------------------
def random_case(rng, name, cls, mode, nops, directives=(), hostile=False):
    regs = []      # live vector registers
    its = []       # (iterator reg, kind, source reg)
    lent = set()
    nreg = [0]
    ops = []
    def fresh(prefix):
        nreg[0] += 1
        return "%s%d" % (prefix, nreg[0])
    def val():
        return str(rng.below(7))
    def small():
        return rng.pick([0, 0, 1, 1, 2, 3, 4, 5, 8, 9, 17])
    def bound(start):
        k = rng.below(10)
        if k < 3: return "U"
        n = small()
        if k == 9 and rng.chance(1, 4): n = MAXU
        return ("I%d" if rng.chance(1, 2) else "E%d") % n
    def itscript():
        n = rng.below(6)
        items = []
        for _ in range(n):
            if hostile and rng.chance(1, 4): items.append("N")
            else: items.append(val())
        return "it[" + ",".join(items) + "]"
    def pred():
        if hostile or rng.chance(1, 3):
            return "seq" + "".join(rng.pick("TF") for _ in range(rng.below(8)))
        return "mod%d=%d" % (rng.pick([2, 3]), rng.below(2))
    ctor = ["new", "with_capacity", "with_alignment", "macro_list", "from_slice", "collect", "macro_repeat"]
    for _ in range(nops):
        usable = [r for r in regs if r not in lent]
        choice = rng.below(100)
        if not usable or choice < 8:
            r = fresh("v"); c = rng.pick(ctor)
            if c == "new": ops.append("new " + r)
            elif c == "with_capacity": ops.append("with_capacity %s %d" % (r, small()))
            elif c == "with_alignment": ops.append("with_alignment %s %d %d" % (r, small(), rng.pick([8, 16, 32, 64, 128, 4096, 24, 4])))
            elif c == "macro_list": ops.append("macro_list %s %s" % (r, " ".join(val() for _ in range(1 + rng.below(6)))))
            elif c == "from_slice": ops.append("from_slice %s %s" % (r, " ".join(val() for _ in range(rng.below(5)))))
            elif c == "collect": ops.append("collect %s %s" % (r, itscript()))
            else: ops.append("macro_repeat %s %s %d" % (r, val(), rng.below(5)))
            regs.append(r)     # a failed constructor makes later uses bad-op on both sides alike
            continue
        if its and choice < 30:
            it, kind, src = rng.pick(its)
            k = rng.below(10)
            # (the provided-method variants are chosen from the position, not from the generator state)
            if k < 4: ops.append("nth %s %d" % (it, len(ops) % 3) if len(ops) % 7 == 3 else "next " + it)
            elif k < 6 and kind != "df": ops.append("nth_back %s %d" % (it, len(ops) % 3) if len(ops) % 7 == 5 else "next_back " + it)
            elif k < 7: ops.append("size_hint " + it)
            elif k < 8 and kind == "ii": ops.append(("iter_views " if len(ops) % 3 == 1 else "as_slice ") + it)
            elif k == 8 and kind == "ii":
                it2 = fresh("i"); ops.append("clone_iter %s %s" % (it, it2)); its.append((it2, "ii", None))
            else:
                fin = "forget " if rng.chance(1, 5) else "drop "
                ops.append(("count " if fin == "drop " and len(ops) % 5 == 2 else ("last " if fin == "drop " and len(ops) % 5 == 4 else fin)) + it)
                its.remove((it, kind, src))
                if src: lent.discard(src)
            continue
        r = rng.pick(usable)
        k = rng.below(42)
        if k < 8: ops.append("push %s %s" % (r, val()))
        elif k < 10: ops.append("pop " + r)
        elif k < 12: ops.append("insert %s %d %s" % (r, small(), val()))
        elif k < 14: ops.append("remove %s %d" % (r, small()))
        elif k < 15: ops.append("swap_remove %s %d" % (r, small()))
        elif k < 16: ops.append("truncate %s %d" % (r, small()))
        elif k < 17: ops.append("clear " + r)
        elif k < 18: ops.append("resize %s %d %s" % (r, small(), val()))
        elif k < 19: ops.append("resize_with %s %d g[%s]" % (r, small(), ",".join(val() for _ in range(4))))
        elif k < 20: ops.append("extend %s %s" % (r, itscript()))
        elif k < 21: ops.append("extend_from_slice %s %s" % (r, " ".join(val() for _ in range(rng.below(4)))))
        elif k < 22: ops.append("extend_from_within %s %s %s" % (r, bound(True), bound(False)))
        elif k < 23 and len(usable) > 1:
            r2 = rng.pick([x for x in usable if x != r]); ops.append("append %s %s" % (r, r2))
        elif k < 24:
            rn = fresh("v"); ops.append("split_off %s %d %s" % (r, small(), rn)); regs.append(rn)
        elif k < 25:
            rn = fresh("v"); ops.append("drain_vec %s %s" % (r, rn)); regs.append(rn)
        elif k < 26: ops.append("dedup " + r)
        elif k < 27: ops.append("dedup_by %s %s" % (r, pred()))
        elif k < 28: ops.append("dedup_by_key %s %s" % (r, rng.pick(["kmod2", "kmod3", "kseq1,1,2,2,3"])))
        elif k < 29: ops.append("retain %s %s" % (r, pred()))
        elif k < 30: ops.append("remove_item %s %s" % (r, val()))
        elif k < 31: ops.append("reserve %s %d" % (r, small()))
        elif k < 32: ops.append("reserve_exact %s %d" % (r, small()))
        elif k < 33: ops.append("shrink_to %s %d" % (r, small()))
        elif k < 34: ops.append("shrink_to_fit " + r)
        elif k < 35:
            rn = fresh("v"); ops.append("clone %s %s" % (r, rn)); regs.append(rn)
        elif k < 36:
            o = rng.pick(["spare ", "split_spare "])
            if len(ops) % 5 == 3:
                # (chosen from the position, not from the generator state: the random stream stays as it was)
                ops.append("%s %s %d %d" % ("fill_spare" if len(ops) % 2 else "fill_split_spare", r, len(ops) % 4, 60 + len(ops) % 7))
            else:
                ops.append(("views " if len(ops) % 2 == 0 else o) + r)
        elif k < 37:
            it = fresh("i"); ops.append("drain %s %s %s %s" % (r, bound(True), bound(False), it)); its.append((it, "dr", r)); lent.add(r)
        elif k < 38:
            it = fresh("i"); ops.append("splice %s %s %s %s %s" % (r, bound(True), bound(False), itscript(), it)); its.append((it, "sp", r)); lent.add(r)
        elif k < 39:
            it = fresh("i"); ops.append("drain_filter %s %s %s" % (r, pred(), it)); its.append((it, "df", r)); lent.add(r)
        elif k < 40:
            it = fresh("i"); ops.append("into_iter %s %s" % (r, it)); its.append((it, "ii", None)); regs.remove(r)
        elif k < 41:
            ops.append("drop " + r); regs.remove(r)
        else:
            ops.append("push %s %s" % (r, val()))
    return case(name, cls, mode, ops, directives)

"""Run case files through the Rust harness (real code) and the Lean driver (model) and compare."""
import os, subprocess, concurrent.futures, time

VERIF = "/verif"
BUILD = VERIF + "/build"
HARNESS_TARGET = BUILD + "/harness-target"
DRIVER = VERIF + "/lean/.lake/build/bin/driver"

def harness_bin(mode):
    return "%s/%s/harness" % (HARNESS_TARGET, "debug" if mode == "debug" else "release")

def split_traces(text):
    """-> dict name -> list of lines (between #case and #end)"""
    out = {}
    cur = None
    for line in text.split("\n"):
        if line.startswith("#case "):
            cur = line[6:].strip()
            out[cur] = []
        elif line.startswith("#end"):
            cur = None
        elif cur is not None:
            out[cur].append(line)
    return out

def _run_chunk(args):
    idx, text, mode, workdir, timeout_ms = args
    path = "%s/chunk-%s-%d.case" % (workdir, mode, idx)
    with open(path, "w") as f:
        f.write(text)
    h = subprocess.run([harness_bin(mode), path, "--timeout-ms", str(timeout_ms)], capture_output=True, text=True, errors="replace")
    with open(path) as f:
        m = subprocess.run([DRIVER], stdin=f, capture_output=True, text=True, errors="replace")
    os.unlink(path)
    return split_traces(h.stdout), split_traces(m.stdout), h.returncode, m.returncode, m.stderr[-2000:]

def run_cases(cases, mode, jobs=16, timeout_ms=5000, tag="x"):
    """cases: list of case texts (all with the same !mode). Returns dict name -> (harness_lines, model_lines)."""
    workdir = "%s/run-%s-%d" % (BUILD, tag, os.getpid())
    os.makedirs(workdir, exist_ok=True)
    n = max(1, min(jobs * 4, (len(cases) + 49) // 50))
    chunks = [[] for _ in range(n)]
    for i, c in enumerate(cases):
        chunks[i % n].append(c)
    args = [(i, "".join(ch), mode, workdir, timeout_ms) for i, ch in enumerate(chunks) if ch]
    res = {}
    problems = []
    with concurrent.futures.ThreadPoolExecutor(max_workers=jobs) as ex:
        for ht, mt, hrc, mrc, merr in ex.map(_run_chunk, args):
            if mrc != 0:
                problems.append("driver exit %d: %s" % (mrc, merr))
            for name in ht:
                res[name] = (ht[name], mt.get(name))
            for name in mt:
                if name not in res:
                    res[name] = (None, mt[name])
    try:
        os.rmdir(workdir)
    except OSError:
        pass
    return res, problems

def strip_harness(lines):
    return [l for l in lines if not (l.startswith("H ") or l.startswith("O ") or l.startswith("X ") or l == "")]

def oracle_lines(lines):
    return [l for l in lines if l.startswith("O ") or l.startswith("X ")]

def first_diff(h, m):
    h = strip_harness(h)
    m = [l for l in m if l != ""]
    for i in range(max(len(h), len(m))):
        a = h[i] if i < len(h) else "<end>"
        b = m[i] if i < len(m) else "<end>"
        if a != b:
            ctx = ""
            for j in range(i, -1, -1):
                if j < len(h) and h[j].startswith("> "):
                    ctx = h[j]; break
            return {"line": i, "impl": a, "model": b, "op": ctx}
    return None

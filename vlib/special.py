import re
"""Ties that do not go through the line protocol: rustc as the oracle (C13 layout assertions, C16
borrow / lifetime / auto-trait verdicts) and a native slice differential (C15)."""
import os, glob, json, subprocess, concurrent.futures, itertools, hashlib

VERIF = "/verif"
REPO = "/repo"
BUILD = VERIF + "/build"
LEAN = VERIF + "/lean"
DEPS = BUILD + "/harness-target/debug/deps"

def rlib():
    c = sorted(glob.glob(DEPS + "/libminivec-*.rlib"), key=os.path.getmtime)
    return c[-1] if c else None

def rustc(src_path, out_path, emit_metadata=True, extra=()):
    cmd = ["rustc", "--edition", "2021", "--error-format=json", "--extern", "minivec=" + rlib(), "-L", "dependency=" + DEPS,
           "-A", "warnings"]
    if emit_metadata:
        cmd += ["--emit=metadata", "--crate-type", "lib", "-o", out_path]
    else:
        cmd += ["-o", out_path]
    cmd += list(extra) + [src_path]
    p = subprocess.run(cmd, capture_output=True, text=True)
    codes = []
    msgs = []
    for line in p.stderr.split("\n"):
        if line.startswith("{"):
            try:
                d = json.loads(line)
            except ValueError:
                continue
            if d.get("level") == "error":
                if d.get("code"):
                    codes.append(d["code"]["code"])
                msgs.append(d.get("message", "")[:200])
    return p.returncode, codes, msgs

def workdir(tag):
    """scratch directory of this run; removed at exit (the programs a violation refers to are copied into the replay
    payload as text), and stale ones of dead processes are removed first"""
    import atexit, shutil
    for old in glob.glob("%s/special-%s-*" % (BUILD, tag)):
        try:
            pid = int(old.rsplit("-", 1)[1])
        except ValueError:
            continue
        if not os.path.exists("/proc/%d" % pid):
            shutil.rmtree(old, ignore_errors=True)
    d = "%s/special-%s-%d" % (BUILD, tag, os.getpid())
    os.makedirs(d, exist_ok=True)
    atexit.register(shutil.rmtree, d, True)
    return d

# ------------------------------------------------------------------------------------------------ C13
C13_TYPES = ["u8", "u16", "u32", "u64", "u128", "usize", "f32", "f64", "bool", "char", "[u8; 3]", "[u64; 32]", "[u8; 4097]",
             "(u8, u64)", "&'static str", "&'static [u8]", "&'static u8", "Box<u8>", "Box<dyn core::fmt::Debug>", "String", "Vec<u8>",
             "Option<Box<u8>>", "std::rc::Rc<u8>", "std::sync::Arc<u8>", "fn(u8) -> u8", "*const u8", "core::cell::Cell<u8>",
             "A16", "A64", "A4096", "MiniVec<u8>", "Option<MiniVec<u8>>", "core::num::NonZeroU8", "Big"]

CFG_BUILTIN = {"not", "any", "all", "feature", "test", "doc", "doctest", "debug_assertions", "panic", "unix", "windows",
               "target_os", "target_arch", "target_family", "target_env", "target_endian", "target_pointer_width", "target_feature",
               "target_has_atomic", "target_vendor", "target_abi", "overflow_checks", "proc_macro", "version", "accessible", "true", "false"}

def cfg_names():
    """bare names used inside `cfg(..)`, `cfg!(..)` and `cfg_attr(..)` anywhere in the crate's sources"""
    names = set()
    files = glob.glob(REPO + "/src/**/*.rs", recursive=True) + glob.glob(REPO + "/build.rs")
    for f in files:
        try:
            txt = open(f, errors="replace").read()
        except OSError:
            continue
        for m in re.finditer(r"\bcfg(?:_attr)?\s*!?\s*\(", txt):
            depth, j = 1, m.end()
            while j < len(txt) and depth:
                depth += {"(": 1, ")": -1}.get(txt[j], 0)
                j += 1
            inner = txt[m.end():j - 1]
            if m.group(0).lstrip().startswith("cfg_attr"):
                inner = inner.split(",", 1)[0]          # only the predicate of a cfg_attr
            inner = re.sub(r'"[^"]*"', '""', inner)
            for w in re.findall(r"[A-Za-z_][A-Za-z0-9_]*", inner):
                if w not in CFG_BUILTIN:
                    names.add(w)
    return sorted(names)

def env_names():
    """names of environment variables read at compile time anywhere in the crate's sources"""
    names = set()
    for f in glob.glob(REPO + "/src/**/*.rs", recursive=True) + glob.glob(REPO + "/build.rs"):
        try:
            txt = open(f, errors="replace").read()
        except OSError:
            continue
        for m in re.finditer(r'\b(?:option_env|env)\s*!\s*\(\s*"([A-Za-z_][A-Za-z0-9_]*)"', txt):
            names.add(m.group(1))
        for m in re.finditer(r'\benv::var(?:_os)?\s*\(\s*"([A-Za-z_][A-Za-z0-9_]*)"', txt):
            names.add(m.group(1))      # a build script asking at build time
    return sorted(names)

def c13(tier, seed):
    d = workdir("c13")
    src = ["#![allow(dead_code)]", "use minivec::MiniVec;", "use core::mem::{size_of, align_of};",
           "#[repr(align(16))] pub struct A16(u8);", "#[repr(align(64))] pub struct A64([u8; 3]);", "#[repr(align(4096))] pub struct A4096(u8);",
           "pub struct Big([u64; 1000], u8);"]
    n = 0
    for t in C13_TYPES:
        for e in ("size_of::<MiniVec<%s>>() == size_of::<usize>()", "align_of::<MiniVec<%s>>() == align_of::<usize>()",
                  "size_of::<Option<MiniVec<%s>>>() == size_of::<usize>()", "size_of::<Option<Option<MiniVec<%s>>>>() <= 2 * size_of::<usize>()"):
            src.append("const _: () = assert!(%s);" % (e % t)); n += 1
    src.append("pub fn generic<T>() -> usize { size_of::<MiniVec<T>>() + size_of::<Option<MiniVec<T>>>() }")
    path = d + "/c13.rs"
    open(path, "w").write("\n".join(src) + "\n")
    rc, codes, msgs = rustc(path, d + "/c13.rmeta")
    viol = []
    if rc != 0:
        viol.append({"signature": "c13-const-assert", "concrete": True,
                     "payload": {"what": "a compile-time size/alignment assertion on MiniVec<T> / Option<MiniVec<T>> fails", "rustc": msgs[:5], "program": open(path).read()}})
    # the same assertions against the crate compiled in other configurations (the layout must not depend on the
    # profile, on target features or on cargo features): the crate is compiled here directly from /repo/src
    serde = sorted(glob.glob(DEPS + "/libserde-*.rlib"), key=os.path.getmtime)
    configs = [("optimized", ["-C", "opt-level=3", "-C", "debug-assertions=off"]),
               ("avx", ["-C", "target-feature=+avx"]), ("avx2-opt", ["-C", "target-feature=+avx2,+fma", "-C", "opt-level=2"]),
               ("debug-assertions-opt", ["-C", "opt-level=1", "-C", "debug-assertions=on"]),
               ("panic-abort", ["-C", "panic=abort"]), ("panic-abort-opt", ["-C", "panic=abort", "-C", "opt-level=3"]),
               ("native-cpu", ["-C", "target-cpu=native", "-C", "opt-level=2"]), ("debuginfo-opt", ["-C", "opt-level=3", "-g"]),
               ("size-opt", ["-C", "opt-level=s", "-C", "overflow-checks=on"])]
    if serde:
        configs.append(("serde-feature", ["--cfg", 'feature="serde"', "--extern", "serde=" + serde[-1], "-L", "dependency=" + DEPS]))
    # every cfg name the crate's own source (or build script) mentions gets a configuration in which it is set: a layout
    # that depends on a cfg the usual builds never set (miri, loom, fuzzing, a private knob) is still a layout of the crate
    for name in cfg_names():
        configs.append(("cfg-" + name, ["--cfg", name]))
    # ... and every environment variable the sources read at compile time (`option_env!`, `env!`) gets one in which it is set
    build_env = {}
    for name in env_names():
        configs.append(("env-" + name, []))
        build_env["env-" + name] = {name: "1"}
    built = []
    for name, flags in configs:
        lib = "%s/libminivec_%s.rlib" % (d, name.replace("-", "_"))
        p1 = subprocess.run(["rustc", "--edition", "2018", "--crate-type", "rlib", "--crate-name", "minivec", "-A", "warnings", "-o", lib] + flags + [REPO + "/src/lib.rs"],
                            capture_output=True, text=True, env=dict(os.environ, **build_env.get(name, {})))
        if p1.returncode != 0:
            viol.append({"signature": "c13-build-" + name, "concrete": False, "payload": {"what": "the crate does not compile in configuration " + name, "stderr": p1.stderr[-400:]}})
            continue
        # flags that also apply to the program compiled against the library: everything except `--cfg X` / `--extern Y`
        tflags, skip = [], False
        for f in flags:
            if skip:
                skip = False
            elif f in ("--cfg", "--extern"):
                skip = True
            else:
                tflags.append(f)
        built.append((name, " ".join(flags), lib, tflags))
    # ... and as cargo builds it (so that a build script, profile settings and RUSTFLAGS take part): dev, release, release
    # with debug info, dev at opt-level 1, release for the native CPU, and with panic = "abort"
    cargo_cfgs = [("cargo-dev", [], {}), ("cargo-release", ["--release"], {}),
                  ("cargo-release-debuginfo", ["--release"], {"CARGO_PROFILE_RELEASE_DEBUG": "true"}),
                  ("cargo-dev-opt1", [], {"CARGO_PROFILE_DEV_OPT_LEVEL": "1"}),
                  ("cargo-release-native", ["--release"], {"RUSTFLAGS": "-C target-cpu=native"}),
                  ("cargo-release-abort", ["--release"], {"CARGO_PROFILE_RELEASE_PANIC": "abort"}),
                  ("cargo-dev-abort", [], {"CARGO_PROFILE_DEV_PANIC": "abort"})]
    def cargo_one(cfg):
        name, args, env = cfg
        tdir = "%s/%s" % (d, name)
        e = dict(os.environ); e.update(env); e["CARGO_NET_OFFLINE"] = "true"
        if "RUSTFLAGS" not in env:
            e.pop("RUSTFLAGS", None)
        p1 = subprocess.run(["cargo", "build", "--offline", "--lib", "--manifest-path", REPO + "/Cargo.toml", "--target-dir", tdir] + args,
                            capture_output=True, text=True, env=e)
        return name, args, env, tdir, p1
    with concurrent.futures.ThreadPoolExecutor(max_workers=7) as ex:
        for name, args, env, tdir, p1 in ex.map(cargo_one, cargo_cfgs):
            prof = "release" if "--release" in args else "debug"
            lib = "%s/%s/libminivec.rlib" % (tdir, prof)
            if p1.returncode != 0 or not os.path.exists(lib):
                viol.append({"signature": "c13-build-" + name, "concrete": False, "payload": {"what": "cargo does not build the crate in configuration " + name, "stderr": p1.stderr[-400:]}})
                continue
            built.append((name, "cargo build %s %s" % (" ".join(args), " ".join("%s=%s" % kv for kv in env.items())), lib, ["-L", "dependency=%s/%s/deps" % (tdir, prof)]))
    for name, how, lib, tflags in built:
        p2 = subprocess.run(["rustc", "--edition", "2021", "--emit=metadata", "--crate-type", "lib", "-A", "warnings", "--extern", "minivec=" + lib,
                             "-L", "dependency=" + DEPS, "-o", "%s/c13_%s.rmeta" % (d, name)] + tflags + [path],
                            capture_output=True, text=True)
        n += len(C13_TYPES) * 4
        if p2.returncode != 0:
            viol.append({"signature": "c13-const-assert-" + name, "concrete": True,
                         "payload": {"what": "a compile-time size/alignment assertion fails when the crate is built in configuration `%s` (%s)" % (name, how),
                                     "rustc": [l for l in p2.stderr.split("\n") if "error" in l][:5], "program": open(path).read()}})
    cov = {"evaluations": n, "distinct_nontrivial": n, "exhaustive": False,
           "rule": "one const assertion per (element type, fact, build configuration) over %d element types of every size/alignment class (owning, borrowing, fat-pointer, over-aligned) and the crate built as the harness builds it, by rustc directly (optimized without debug assertions, AVX / AVX2 / native-CPU target features, optimized with debug assertions, panic=abort, with debug info, for size, with the serde feature) and by cargo (dev, release, release with debug info, dev at opt-level 1, release for the native CPU, panic = abort in both profiles: a build script and profile-dependent cfgs take part); all distinct" % len(C13_TYPES),
           "samples": src[7:10], "traces_validated_against_impl": n if rc == 0 else 0}
    return viol, cov

# ------------------------------------------------------------------------------------------------ C16
API_CALL = {
    "drain": "v.drain(..)", "splice": "v.splice(.., [9])", "drain_filter": "v.drain_filter(|x| *x > 1)",
    "as_mut_slice": "v.as_mut_slice()", "as_slice": "v.as_slice()", "spare_capacity_mut": "v.spare_capacity_mut()",
    "split_at_spare_mut": "v.split_at_spare_mut()", "len": "v.len()", "capacity": "v.capacity()", "push": "v.push(7)",
    "pop": "v.pop()", "clear": "v.clear()", "truncate": "v.truncate(1)", "reserve": "v.reserve(3)", "is_empty": "v.is_empty()",
    "as_ptr": "v.as_ptr()", "insert": "v.insert(0, 3)", "shrink_to_fit": "v.shrink_to_fit()",
}
TAKE_APIS = ["drain", "splice", "drain_filter", "as_mut_slice", "as_slice", "spare_capacity_mut", "split_at_spare_mut", "len", "as_ptr"]
USE_APIS = ["len", "capacity", "push", "pop", "clear", "truncate", "reserve", "is_empty", "as_slice", "as_mut_slice", "drain", "insert", "shrink_to_fit"]
ELEM = {"plain": ("i32", "1"), "rc": ("std::rc::Rc<i32>", "std::rc::Rc::new(1)"), "cell": ("std::cell::Cell<i32>", "std::cell::Cell::new(1)")}

def render(prog, kind="plain"):
    """mini-language program (list of tokens) -> Rust source"""
    ty, mk = ELEM[kind]
    body = []
    for st in prog:
        if st[0] == "take":
            body.append("let x = %s;" % API_CALL[st[1]])
        elif st[0] == "usevec":
            body.append("let _ = %s;" % API_CALL[st[1]])
        elif st[0] == "usex":
            body.append("drop(x);")
        elif st[0] == "endvec":
            body.append("drop(v);")
    return ("use minivec::{MiniVec, mini_vec};\nfn sink<T>(_: &T) {}\npub fn f() {\n  let mut v: MiniVec<i32> = mini_vec![1, 2, 3];\n  "
            + "\n  ".join(body) + "\n}\n")

def render_thread(holder, mode, kind):
    ty, mk = ELEM[kind]
    pre = "use minivec::{MiniVec, mini_vec};\npub fn f() {\n  let mut v: MiniVec<%s> = mini_vec![%s, %s];\n" % (ty, mk, mk)
    if holder == "vec":
        obj, init = "v", ""
    elif holder == "intoIter":
        obj, init = "it", "  let it = v.into_iter();\n"
    else:
        obj, init = "d", "  let d = v.drain(..);\n"
    if mode == "send":
        body = "  std::thread::scope(|s| { s.spawn(move || { let _o = %s; }); });\n" % obj
    else:
        body = "  let r = &%s;\n  std::thread::scope(|s| { s.spawn(move || { let _o = r; }); });\n" % obj
    return pre + init + body + "}\n"

TUPLE_PROGS = [
    # each half of split_at_spare_mut() is tied to the borrow of the vector
    ("spare-half0-outlives-mutation", False, "use minivec::{MiniVec, mini_vec};\npub fn f() { let mut v: MiniVec<i32> = mini_vec![1]; v.reserve(4); let (a, _b) = v.split_at_spare_mut(); v.push(2); a[0] = 3; }\n"),
    ("spare-half1-outlives-mutation", False, "use minivec::{MiniVec, mini_vec};\nuse core::mem::MaybeUninit;\npub fn f() { let mut v: MiniVec<i32> = mini_vec![1]; v.reserve(4); let (_a, b) = v.split_at_spare_mut(); v.push(2); b[0] = MaybeUninit::new(3); }\n"),
    ("spare-half1-outlives-vec", False, "use minivec::{MiniVec, mini_vec};\nuse core::mem::MaybeUninit;\npub fn f() { let b; { let mut v: MiniVec<i32> = mini_vec![1]; v.reserve(4); b = v.split_at_spare_mut().1; } b[0] = MaybeUninit::new(3); }\n"),
    ("spare-halves-ok", True, "use minivec::{MiniVec, mini_vec};\nuse core::mem::MaybeUninit;\npub fn f() { let mut v: MiniVec<i32> = mini_vec![1]; v.reserve(4); let (a, b) = v.split_at_spare_mut(); a[0] = 3; b[0] = MaybeUninit::new(3); unsafe { v.set_len(2) }; v.push(2); }\n"),
    ("spare-capacity-outlives-mutation", False, "use minivec::{MiniVec, mini_vec};\nuse core::mem::MaybeUninit;\npub fn f() { let mut v: MiniVec<i32> = mini_vec![1]; v.reserve(4); let b = v.spare_capacity_mut(); v.push(2); b[0] = MaybeUninit::new(3); }\n"),
    ("splice-outlives-use", False, "use minivec::{MiniVec, mini_vec};\npub fn f() { let mut v: MiniVec<i32> = mini_vec![1, 2]; let s = v.splice(.., [9]); let _ = v.len(); drop(s); }\n"),
    ("drain-filter-outlives-use", False, "use minivec::{MiniVec, mini_vec};\npub fn f() { let mut v: MiniVec<i32> = mini_vec![1, 2]; let s = v.drain_filter(|x| *x > 1); v.push(3); drop(s); }\n"),
    ("drain-outlives-vec", False, "use minivec::{MiniVec, mini_vec};\npub fn f() { let d; { let mut v: MiniVec<i32> = mini_vec![1, 2]; d = v.drain(..); } drop(d); }\n"),
]

THREAD_PROGS = [
    # the two draining iterators the property does not name own (Splice) or exclusively borrow (DrainFilter) the elements all
    # the same: handing them to, or sharing them with, another thread moves / shares the elements
    ("send-splice-rc", False, "use minivec::{MiniVec, mini_vec};\nuse std::rc::Rc;\npub fn f() { let mut v: MiniVec<Rc<i32>> = mini_vec![Rc::new(1), Rc::new(2)]; let s = v.splice(.., std::iter::empty()); std::thread::scope(|sc| { sc.spawn(move || { let _o = s; }); }); }\n"),
    ("share-splice-cell", False, "use minivec::{MiniVec, mini_vec};\nuse std::cell::Cell;\npub fn f() { let mut v: MiniVec<Cell<i32>> = mini_vec![Cell::new(1)]; let s = v.splice(.., std::iter::empty()); let r = &s; std::thread::scope(|sc| { sc.spawn(move || { let _o = r; }); }); }\n"),
    ("send-drain-filter-rc", False, "use minivec::{MiniVec, mini_vec};\nuse std::rc::Rc;\npub fn f() { let mut v: MiniVec<Rc<i32>> = mini_vec![Rc::new(1), Rc::new(2)]; let s = v.drain_filter(|_| true); std::thread::scope(|sc| { sc.spawn(move || { let _o = s; }); }); }\n"),
    ("send-mut-ref-rc", False, "use minivec::{MiniVec, mini_vec};\nuse std::rc::Rc;\npub fn f() { let mut v: MiniVec<Rc<i32>> = mini_vec![Rc::new(1)]; let r = &mut v; std::thread::scope(|sc| { sc.spawn(move || { r.clear(); }); }); }\n"),
    # the legitimate twins: element types that are thread-safe but BORROW (not 'static) move and share like any other
    ("send-borrowed-vec-ok", True, "use minivec::MiniVec;\npub fn f() { let words = String::from(\"a b c\"); let v: MiniVec<&str> = words.split(' ').collect(); std::thread::scope(|sc| { sc.spawn(move || v.len()); }); }\n"),
    ("share-borrowed-vec-ok", True, "use minivec::MiniVec;\npub fn f() { let words = String::from(\"a b c\"); let v: MiniVec<&str> = words.split(' ').collect(); let r = &v; std::thread::scope(|sc| { sc.spawn(move || r.len()); sc.spawn(move || r.len()); }); }\n"),
    ("send-borrowed-into-iter-ok", True, "use minivec::MiniVec;\npub fn f() { let data = [1u64, 2, 3]; let v: MiniVec<&u64> = data.iter().collect(); let it = v.into_iter(); std::thread::scope(|sc| { sc.spawn(move || it.count()); }); }\n"),
    ("send-borrowed-drain-ok", True, "use minivec::MiniVec;\npub fn f() { let data = [1u64, 2, 3]; let mut v: MiniVec<&u64> = data.iter().collect(); let d = v.drain(..); std::thread::scope(|sc| { sc.spawn(move || d.count()); }); }\n"),
    ("send-mut-ref-borrowed-ok", True, "use minivec::MiniVec;\nuse std::borrow::Cow;\npub fn f() { let s = String::from(\"x\"); let mut v: MiniVec<Cow<'_, str>> = MiniVec::new(); v.push(Cow::Borrowed(&s)); let r = &mut v; std::thread::scope(|sc| { sc.spawn(move || r.clear()); }); }\n"),
    # element types that may be SHARED but not SENT (lock guards): sharing a vector of them needs `T: Sync` and nothing more
    ("share-sync-not-send-ok", True, "use minivec::MiniVec;\nuse std::sync::Mutex;\npub fn f() { let m = Mutex::new(1i32); let mut v: MiniVec<std::sync::MutexGuard<'_, i32>> = MiniVec::new(); v.push(m.lock().unwrap()); let r = &v; std::thread::scope(|sc| { sc.spawn(move || r.len()); }); }\n"),
    ("send-sync-not-send", False, "use minivec::MiniVec;\nuse std::sync::Mutex;\npub fn f() { let m = Mutex::new(1i32); let mut v: MiniVec<std::sync::MutexGuard<'_, i32>> = MiniVec::new(); v.push(m.lock().unwrap()); std::thread::scope(|sc| { sc.spawn(move || v.len()); }); }\n"),
    ("send-static-spawn-ok", True, "use minivec::{MiniVec, mini_vec};\npub fn f() { let v: MiniVec<String> = mini_vec![String::new()]; std::thread::spawn(move || v.len()).join().unwrap(); }\n"),
]

LIFETIME_PROGS = [
    ("leak-lengthen", False, "use minivec::{MiniVec, mini_vec};\npub fn f() { let x = 5; let s: &'static mut [&i32] = MiniVec::leak(mini_vec![&x]); let _ = s.len(); }\n"),
    ("leak-short-ok", True, "use minivec::{MiniVec, mini_vec};\npub fn f() { let x = 5; let s: &mut [&i32] = MiniVec::leak(mini_vec![&x]); let _ = s.len(); }\n"),
    ("leak-same", True, "use minivec::{MiniVec, mini_vec};\npub fn f<'s>(x: &'s i32) -> &'s mut [&'s i32] { MiniVec::leak(mini_vec![x]) }\n"),
    ("leak-static", True, "use minivec::{MiniVec, mini_vec};\npub fn f() -> &'static mut [i32] { MiniVec::leak(mini_vec![1, 2]) }\n"),
    ("lengthen-elem", False, "use minivec::MiniVec;\npub fn f<'s>(v: MiniVec<&'s i32>) -> MiniVec<&'static i32> { v }\n"),
    ("shorten-elem", True, "use minivec::MiniVec;\npub fn f<'s>(v: MiniVec<&'static i32>) -> MiniVec<&'s i32> { v }\n"),
    ("drain-outlives-vec", False, "use minivec::{MiniVec, mini_vec};\npub fn f() -> minivec::Drain<'static, i32> { let mut v: MiniVec<i32> = mini_vec![1]; v.drain(..) }\n"),
    ("slice-outlives-vec", False, "use minivec::{MiniVec, mini_vec};\npub fn f() -> &'static [i32] { let v: MiniVec<i32> = mini_vec![1]; v.as_slice() }\n"),
    ("elem-ref-outlives-mutation", False, "use minivec::{MiniVec, mini_vec};\npub fn f() { let mut v: MiniVec<i32> = mini_vec![1]; let r = &v[0]; v.push(2); let _ = *r; }\n"),
    ("elem-ref-ok", True, "use minivec::{MiniVec, mini_vec};\npub fn f() { let mut v: MiniVec<i32> = mini_vec![1]; let r = &v[0]; let _ = *r; v.push(2); }\n"),
    ("iter-outlives-mutation", False, "use minivec::{MiniVec, mini_vec};\npub fn f() { let mut v: MiniVec<i32> = mini_vec![1]; let it = v.iter(); v.clear(); for _ in it {} }\n"),
    ("iter-mut-two", False, "use minivec::{MiniVec, mini_vec};\npub fn f() { let mut v: MiniVec<i32> = mini_vec![1]; let a = v.iter_mut(); let b = v.iter_mut(); drop(a); drop(b); }\n"),
    ("short-borrow-escapes", False, "use minivec::{MiniVec, mini_vec};\npub fn f() -> MiniVec<&'static i32> { let x = 5; let v = mini_vec![&x]; v }\n"),
    ("dropck-dangling", False, "use minivec::{MiniVec, mini_vec};\nstruct D<'a>(&'a i32);\nimpl<'a> Drop for D<'a> { fn drop(&mut self) { let _ = *self.0; } }\npub fn f() { let mut v: MiniVec<D> = MiniVec::new(); let x = 5; v.push(D(&x)); }\n"),
    # a reference handed to a callback cannot escape the call (the callbacks take higher-ranked borrows: no public method
    # but `leak` names a lifetime), and the crate's internal modules (the iterator constructors, whose lifetime parameter is
    # tied to nothing) cannot be named by a client
    ('escape-retain', False, 'use minivec::{MiniVec, mini_vec};\npub fn f() { let mut v: MiniVec<i32> = mini_vec![1, 2]; let mut keep: Vec<&i32> = vec![]; v.retain(|x| { keep.push(x); true }); let _ = keep.len(); }\n'),
    ('escape-retain-ok', True, 'use minivec::{MiniVec, mini_vec};\npub fn f() { let mut v: MiniVec<i32> = mini_vec![1, 2]; let mut keep: Vec<i32> = vec![]; v.retain(|x| { keep.push(*x); true }); let _ = keep.len(); }\n'),
    ('escape-dedup-by', False, 'use minivec::{MiniVec, mini_vec};\npub fn f() { let mut v: MiniVec<i32> = mini_vec![1, 2]; let mut keep: Vec<&mut i32> = vec![]; v.dedup_by(|a, _b| { keep.push(a); false }); let _ = keep.len(); }\n'),
    ('escape-dedup-by-ok', True, 'use minivec::{MiniVec, mini_vec};\npub fn f() { let mut v: MiniVec<i32> = mini_vec![1, 2]; let mut keep: Vec<i32> = vec![]; v.dedup_by(|a, _b| { keep.push(*a); false }); let _ = keep.len(); }\n'),
    ('escape-dedup-by-key', False, 'use minivec::{MiniVec, mini_vec};\npub fn f() { let mut v: MiniVec<i32> = mini_vec![1, 2]; let mut keep: Vec<&mut i32> = vec![]; v.dedup_by_key(|x| { keep.push(x); 0 }); let _ = keep.len(); }\n'),
    ('escape-dedup-by-key-ok', True, 'use minivec::{MiniVec, mini_vec};\npub fn f() { let mut v: MiniVec<i32> = mini_vec![1, 2]; let mut keep: Vec<i32> = vec![]; v.dedup_by_key(|x| { keep.push(*x); 0 }); let _ = keep.len(); }\n'),
    ('escape-dedup-by-key-returned', False, 'use minivec::{MiniVec, mini_vec};\npub fn f() { let mut v: MiniVec<i32> = mini_vec![1, 2]; v.dedup_by_key(|x| -> &mut i32 { x }); }\n'),
    ('escape-drain-filter', False, 'use minivec::{MiniVec, mini_vec};\npub fn f() { let mut v: MiniVec<i32> = mini_vec![1, 2]; let mut keep: Vec<&mut i32> = vec![]; { let d = v.drain_filter(|x| { keep.push(x); false }); drop(d); } let _ = keep.len(); }\n'),
    ('escape-drain-filter-ok', True, 'use minivec::{MiniVec, mini_vec};\npub fn f() { let mut v: MiniVec<i32> = mini_vec![1, 2]; let mut keep: Vec<i32> = vec![]; { let d = v.drain_filter(|x| { keep.push(*x); false }); drop(d); } let _ = keep.len(); }\n'),
    ('internal-drain-ctor', False, 'pub use minivec::r#impl::drain::make_drain_iterator;\n'),
    ('internal-splice-ctor', False, 'pub use minivec::r#impl::splice::make_splice_iterator;\n'),
    ('internal-drain-filter-ctor', False, 'pub use minivec::r#impl::drain_filter::make_drain_filter_iterator;\n'),
    ('internal-root-ctor', False, 'pub use minivec::make_drain_iterator;\n'),
    ('internal-helpers', False, 'pub use minivec::r#impl::helpers::next_capacity;\n'),
    ('public-iterator-types-ok', True, "pub fn f(_: minivec::Drain<'_, i32>, _: minivec::IntoIter<i32>) {}\n"),
]

def lean_verdicts(progs):
    """ask the Lean stand-in judgement (Props/C16.lean `check`) for its verdict on each program"""
    lines = []
    for kind, prog in progs:
        toks = []
        for st in prog:
            toks.append(" ".join(st))
        lines.append(kind + " | " + " ; ".join(toks))
    p = subprocess.run(["lake", "env", "lean", "--run", "C16Run.lean"], cwd=LEAN, input="\n".join(lines) + "\n", capture_output=True, text=True)
    out = [l.strip() for l in p.stdout.split("\n") if l.strip()]
    return out, p.returncode, p.stderr[-500:]

def c16(tier, seed):
    import gen as G
    rng = G.Rng(seed ^ 0x16)
    d = workdir("c16")
    progs = []
    # the fixed must-fail / twin corpus: one per borrowing rule per API
    for t in TAKE_APIS:
        for u in USE_APIS:
            progs.append(("plain", [("take", t), ("usevec", u), ("usex",)]))
            progs.append(("plain", [("take", t), ("usex",), ("usevec", u)]))
        progs.append(("plain", [("take", t), ("endvec",), ("usex",)]))
        progs.append(("plain", [("take", t), ("usex",), ("endvec",)]))
    n_rand = 60 if tier == "quick" else 600
    for _ in range(n_rand):
        k = 2 + rng.below(4)
        prog = [("take", rng.pick(TAKE_APIS))]
        ended = False
        have_x = True
        for _ in range(k):
            c = rng.below(10)
            if c < 5: prog.append(("usevec", rng.pick(USE_APIS)))
            elif c < 8:
                if have_x:
                    prog.append(("usex",)); have_x = False
            elif c == 8:
                prog.append(("take", rng.pick(TAKE_APIS))); have_x = True
            elif not ended:
                prog.append(("endvec",)); ended = True; break
        progs.append(("plain", prog))
    threads = [(h, m, k) for h in ("vec", "intoIter", "drain") for m in ("send", "share") for k in ("plain", "rc", "cell")]
    allp = progs + [(k, [(m, h)]) for (h, m, k) in threads]
    verdicts, rc, err = lean_verdicts(allp)
    viol = []
    pin_path = VERIF + "/vlib/c16_pinned.json"
    key = lambda kp: kp[0] + " | " + " ; ".join(" ".join(st) for st in kp[1])
    if os.environ.get("C16_PIN") == "1" and rc == 0 and len(verdicts) == len(allp):
        json.dump({key(kp): v for kp, v in zip(allp, verdicts)}, open(pin_path, "w"), indent=0, sort_keys=True)
    if rc != 0 or len(verdicts) != len(allp):
        # the stand-in judgement does not build (its facts changed): fall back, for the search of a failing
        # input, on the verdicts it gave on the pinned tree for the fixed corpus
        try:
            pinned = json.load(open(pin_path))
        except Exception:
            pinned = {}
        verdicts = [pinned.get(key(kp), "?") for kp in allp]
    jobs = []
    for i, (kind, prog) in enumerate(progs):
        path = "%s/p%d.rs" % (d, i)
        open(path, "w").write(render(prog, kind))
        jobs.append((path, verdicts[i], " ; ".join(" ".join(s) for s in prog)))
    for j, (h, m, k) in enumerate(threads):
        path = "%s/t%d.rs" % (d, j)
        open(path, "w").write(render_thread(h, m, k))
        jobs.append((path, verdicts[len(progs) + j], "%s %s %s" % (m, h, k)))
    for name, must_compile, src in LIFETIME_PROGS + TUPLE_PROGS + THREAD_PROGS:
        path = "%s/l-%s.rs" % (d, name)
        open(path, "w").write(src)
        jobs.append((path, "accept" if must_compile else "reject", name))
    def one(job):
        path, verdict, desc = job
        rc, codes, msgs = rustc(path, path + ".rmeta")
        return (path, verdict, desc, rc, codes, msgs)
    agree = 0
    hist = {"accept": 0, "reject": 0}
    codes_hist = {}
    with concurrent.futures.ThreadPoolExecutor(max_workers=16) as ex:
        for path, verdict, desc, rc, codes, msgs in ex.map(one, jobs):
            rust = "accept" if rc == 0 else "reject"
            hist[rust] += 1
            for c in codes:
                codes_hist[c] = codes_hist.get(c, 0) + 1
            if verdict == rust:
                agree += 1
            elif verdict != "?":
                kind = "compiles-but-must-not" if rust == "accept" else "rejected-but-legitimate"
                viol.append({"signature": "c16:%s:%s" % (kind, desc.split()[0] + ":" + (desc.split()[1] if len(desc.split()) > 1 else "")), "concrete": True,
                             "payload": {"what": "rustc and the stand-in judgement / the expected verdict disagree: " + kind, "program": open(path).read(),
                                         "program_desc": desc, "expected": verdict, "rustc": rust, "codes": codes, "messages": msgs[:3]}})
    cov = {"evaluations": len(jobs), "distinct_nontrivial": len(set(open(j[0]).read() for j in jobs)), "traces_validated_against_impl": agree,
           "rule": "programs of the mini-language (fixed must-fail/twin corpus per API and rule, then seeded random ones), thread-safety programs per holder x element kind, and fixed lifetime programs; each rendered to Rust and compiled with rustc --emit=metadata against the current crate; distinct = distinct source text",
           "samples": [{"program": jobs[0][2], "lean_verdict": jobs[0][1]}, {"program": jobs[1][2], "lean_verdict": jobs[1][1]}],
           "rustc_verdicts": hist, "rustc_error_codes": codes_hist}
    return viol, cov

# ------------------------------------------------------------------------------------------------ C15
C15_SRC = r'''
use minivec::{MiniVec, mini_vec};
use std::collections::{HashMap, BTreeMap, hash_map::DefaultHasher};
use std::hash::{Hash, Hasher};
fn h<T: Hash + ?Sized>(t: &T) -> u64 { let mut s = DefaultHasher::new(); t.hash(&mut s); s.finish() }
/// a hasher that records every `write` call separately: the same bytes fed in different pieces are a different hash for
/// hashers that are sensitive to call boundaries (Fx, ahash), so `Borrow<[T]>` lookups need the identical call sequence
#[derive(Default)] struct Rec(Vec<Vec<u8>>);
impl Hasher for Rec { fn finish(&self) -> u64 { 0 } fn write(&mut self, b: &[u8]) { self.0.push(b.to_vec()); } }
fn rec<T: Hash + ?Sized>(t: &T) -> Vec<Vec<u8>> { let mut s = Rec::default(); t.hash(&mut s); s.0 }
struct R(u64);
impl R { fn next(&mut self) -> u64 { self.0 = self.0.wrapping_add(0x9E3779B97F4A7C15); let mut z = self.0; z = (z ^ (z >> 30)).wrapping_mul(0xBF58476D1CE4E5B9); z = (z ^ (z >> 27)).wrapping_mul(0x94D049BB133111EB); z ^ (z >> 31) } }
/// the same element sequence held in vectors with different histories / capacities / alignments
fn variants<T: Clone>(xs: &[T]) -> Vec<MiniVec<T>> {
  let mut out = vec![];
  out.push(MiniVec::from(xs));
  let mut a = MiniVec::with_capacity(xs.len() + 17); a.extend_from_slice(xs); out.push(a);
  if let Ok(mut b) = MiniVec::with_alignment(3, 256) { b.extend_from_slice(xs); out.push(b); }
  let mut c: MiniVec<T> = MiniVec::new();
  for x in xs { c.push(x.clone()); c.push(x.clone()); }
  let mut i = 0; c.retain(|_| { i += 1; i % 2 == 0 }); out.push(c);
  let mut d = MiniVec::from(xs); for x in xs { d.push(x.clone()); } d.truncate(xs.len()); d.shrink_to_fit(); out.push(d);
  let mut e: MiniVec<T> = xs.iter().cloned().collect(); let t = e.split_off(0); e.extend_from_slice(&t); out.push(e);
  out
}
fn check_pair<T: Clone + PartialOrd + std::fmt::Debug>(a: &[T], b: &[T], n: &mut u64, bad: &mut Vec<String>) {
  for va in variants(a) { for vb in variants(b) {
    *n += 1;
    if (va == vb) != (a == b) { bad.push(format!("== {:?} {:?}", a, b)); }
    if (va != vb) != (a != b) { bad.push(format!("!= {:?} {:?}", a, b)); }
    if va.partial_cmp(&vb) != a.partial_cmp(b) { bad.push(format!("partial_cmp {:?} {:?}", a, b)); }
    if (va < vb) != (a < b) || (va >= vb) != (a >= b) { bad.push(format!("< >= {:?} {:?}", a, b)); }
    if (va == *b) != (a == b) || (va == b) != (a == b) || (b == va) != (b == a) { bad.push(format!("mixed == slice {:?} {:?}", a, b)); }
    if (va == b.to_vec()) != (a == b) { bad.push(format!("mixed == Vec {:?} {:?}", a, b)); }
    if format!("{:?}", va) != format!("{:?}", a) { bad.push(format!("debug {:?}", a)); }
    if format!("{:#?}", va) != format!("{:#?}", a) || format!("{:.1?}", va) != format!("{:.1?}", a) || format!("{:+?}", va) != format!("{:+?}", a)
       || format!("{:8?}", va) != format!("{:8?}", a) { bad.push(format!("debug-options {:?}", a)); }
    if format!("{:#?}", (1, &va)) != format!("{:#?}", (1, a)) { bad.push(format!("debug-nested {:?}", a)); }
  }
    // aliased operands: a vector against itself and against a slice borrowed from itself
    #[allow(clippy::eq_op)]
    { if (va == va) != (a == a) || (va != va) != (a != a) { bad.push(format!("self == {:?}", a)); }
      let sl: &[T] = &va[..];
      if (va == sl) != (a == a) || (sl == va) != (a == a) || (va == *sl) != (a == a) { bad.push(format!("self-slice == {:?}", a)); }
      if va.partial_cmp(&va) != a.partial_cmp(a) { bad.push(format!("self partial_cmp {:?}", a)); } }
  }
}
fn check_ord<T: Clone + Ord + Hash + std::fmt::Debug>(a: &[T], b: &[T], n: &mut u64, bad: &mut Vec<String>) {
  for va in variants(a) { for vb in variants(b) {
    *n += 1;
    if va.cmp(&vb) != a.cmp(b) { bad.push(format!("cmp {:?} {:?}", a, b)); }
    if h(&va) != h(a) || h(&vb) != h(b) { bad.push(format!("hash {:?} {:?}", a, b)); }
    if rec(&va) != rec(a) { bad.push(format!("hash-call-sequence {:?}", a)); }
    if h(&(3u8, &va, 4u8)) != h(&(3u8, a, 4u8)) { bad.push(format!("nested hash {:?}", a)); }
    if format!("{:x?}", va) != format!("{:x?}", a) || format!("{:#06X?}", va) != format!("{:#06X?}", a) { bad.push(format!("debug-hex {:?}", a)); }
    let mut m: HashMap<MiniVec<T>, u32> = HashMap::new(); m.insert(va.clone(), 1);
    if m.get(a) != Some(&1) || (m.get(b).is_some() != (a == b)) { bad.push(format!("HashMap lookup by slice {:?} {:?}", a, b)); }
    let mut t: BTreeMap<MiniVec<T>, u32> = BTreeMap::new(); t.insert(va.clone(), 1);
    if t.get(a) != Some(&1) || (t.get(b).is_some() != (a == b)) { bad.push(format!("BTreeMap lookup by slice {:?} {:?}", a, b)); }
    // vectors hashed / compared as ELEMENTS of a slice (the provided `Hash::hash_slice`, nested vectors)
    let mut s1 = Rec::default(); Hash::hash_slice(&[va.clone(), vb.clone()], &mut s1);
    let mut s2 = Rec::default(); Hash::hash_slice(&[a, b], &mut s2);
    if s1.0 != s2.0 { bad.push(format!("hash_slice {:?} {:?}", a, b)); }
    let nested: MiniVec<MiniVec<T>> = mini_vec![va.clone(), vb.clone(), va.clone()];
    let nref: Vec<Vec<T>> = vec![a.to_vec(), b.to_vec(), a.to_vec()];
    if rec(&nested) != rec(&nref) || h(&nested) != h(&nref) { bad.push(format!("nested-vectors hash {:?} {:?}", a, b)); }
    let nested2: MiniVec<MiniVec<T>> = mini_vec![va.clone(), va.clone(), vb.clone()];
    let nref2: Vec<Vec<T>> = vec![a.to_vec(), a.to_vec(), b.to_vec()];
    if nested.cmp(&nested2) != nref.cmp(&nref2) || (nested == nested2) != (nref == nref2) { bad.push(format!("nested-vectors cmp {:?} {:?}", a, b)); }
  } }
}
/// element types whose `Ord` is not the function their `PartialOrd` computes
#[derive(Clone, Debug, PartialEq, Eq, Hash)] struct Prio(u8);
impl PartialOrd for Prio { fn partial_cmp(&self, o: &Self) -> Option<std::cmp::Ordering> { self.0.partial_cmp(&o.0) } }
impl Ord for Prio { fn cmp(&self, o: &Self) -> std::cmp::Ordering { o.0.cmp(&self.0) } }
#[derive(Clone, Debug)] struct F(f64);
impl PartialEq for F { fn eq(&self, o: &Self) -> bool { self.0 == o.0 } }
impl Eq for F {}
impl PartialOrd for F { fn partial_cmp(&self, o: &Self) -> Option<std::cmp::Ordering> { self.0.partial_cmp(&o.0) } }
impl Ord for F { fn cmp(&self, o: &Self) -> std::cmp::Ordering { self.0.total_cmp(&o.0) } }
fn check_cmp_only<T: Clone + Ord + std::fmt::Debug>(a: &[T], b: &[T], n: &mut u64, bad: &mut Vec<String>) {
  let (va, vb) = (MiniVec::from(a), MiniVec::from(b));
  *n += 1;
  let r = std::panic::catch_unwind(std::panic::AssertUnwindSafe(|| (va.cmp(&vb), va.partial_cmp(&vb), va.clone().max(vb.clone()) == vb)));
  let e = (a.cmp(b), a.partial_cmp(b), a.to_vec().max(b.to_vec()) == b.to_vec());
  match r { Ok(r) if r == e => {}, Ok(r) => bad.push(format!("cmp-vs-partial_cmp {:?} {:?}: {:?} instead of {:?}", a, b, r, e)), Err(_) => bad.push(format!("cmp-panics {:?} {:?}", a, b)) }
}
/// two element types whose cross comparisons depend on the DIRECTION and are counted: `[L] == [R]` asks `L::eq(&l, &r)` once
/// per pair when the lengths agree (until the first difference) and asks NOTHING when they differ; every offered operand
/// combination of a `MiniVec` must give the slice's answer by making the slice's calls
use std::sync::atomic::{AtomicU64, Ordering as AO};
static LR: AtomicU64 = AtomicU64::new(0);
static RL: AtomicU64 = AtomicU64::new(0);
#[derive(Clone, Debug)] struct L(u8);
#[derive(Clone, Debug)] struct Rr(u8);
impl PartialEq<Rr> for L { fn eq(&self, o: &Rr) -> bool { LR.fetch_add(1, AO::SeqCst); self.0 == o.0 } }
impl PartialEq<L> for Rr { fn eq(&self, o: &L) -> bool { RL.fetch_add(1, AO::SeqCst); self.0 / 2 == o.0 / 2 } }
fn probe(f: impl FnOnce() -> bool) -> (bool, u64, u64) {
  LR.store(0, AO::SeqCst); RL.store(0, AO::SeqCst);
  let r = f();
  (r, LR.load(AO::SeqCst), RL.load(AO::SeqCst))
}
fn check_directed(a: &[u8], b: &[u8], n: &mut u64, bad: &mut Vec<String>) {
  let la: Vec<L> = a.iter().map(|x| L(*x)).collect();
  let rb: Vec<Rr> = b.iter().map(|x| Rr(*x)).collect();
  let (vl, vr): (MiniVec<L>, MiniVec<Rr>) = (MiniVec::from(&la[..]), MiniVec::from(&rb[..]));
  let want = probe(|| la[..] == rb[..]);
  let want_ne = probe(|| la[..] != rb[..]);
  let mut la2 = la.clone(); let mut rb2 = rb.clone();
  let got: Vec<(&str, (bool, u64, u64), (bool, u64, u64))> = vec![
    ("MiniVec<L> == MiniVec<R>", probe(|| vl == vr), want),
    ("MiniVec<L> != MiniVec<R>", probe(|| vl != vr), want_ne),
    ("MiniVec<L> == [R]", probe(|| vl == rb[..]), want),
    ("MiniVec<L> == &[R]", probe(|| vl == &rb[..]), want),
    ("MiniVec<L> != &[R]", probe(|| vl != &rb[..]), want_ne),
    ("MiniVec<L> == &mut [R]", probe(|| vl == &mut rb2[..]), want),
    ("&[L] == MiniVec<R>", probe(|| &la[..] == vr), want),
    ("&[L] != MiniVec<R>", probe(|| &la[..] != vr), want_ne),
    ("&mut [L] == MiniVec<R>", probe(|| &mut la2[..] == vr), want),
    ("MiniVec<L> == Vec<R>", probe(|| vl == rb), want),
  ];
  for (what, g, w) in got {
    *n += 1;
    if g != w { bad.push(format!("directed {} on {:?} {:?}: (answer, L::eq calls, R::eq calls) = {:?}, the slices give {:?}", what, a, b, g, w)); }
  }
  if b.len() == 3 {
    let arr: [Rr; 3] = [rb[0].clone(), rb[1].clone(), rb[2].clone()];
    for (what, g) in [("MiniVec<L> == [R; 3]", probe(|| vl == arr)), ("MiniVec<L> == &[R; 3]", probe(|| vl == &arr))] {
      *n += 1;
      if g != want { bad.push(format!("directed {} on {:?} {:?}: {:?}, the slices give {:?}", what, a, b, g, want)); }
    }
  }
}
/// comparisons across element TYPES of different sizes (`String` with `&str`, `Cow<str>` with `&str`, nested vectors with
/// arrays) and hashes of long vectors (more than 1024 elements)
fn check_cross_and_long(n: &mut u64, bad: &mut Vec<String>) {
  use std::borrow::Cow;
  let words = ["a", "bc", "", "def"];
  for k in 0..=words.len() {
    for alt in [false, true] {
      let s: Vec<String> = words[..k].iter().map(|w| w.to_string()).collect();
      let mut t: Vec<&str> = words[..k].to_vec();
      if alt && k > 0 { t[k - 1] = "zz"; }
      let (vs, vt): (MiniVec<String>, MiniVec<&str>) = (MiniVec::from(&s[..]), MiniVec::from(&t[..]));
      *n += 1;
      if (vs == vt) != (s[..] == t[..]) || (vs != vt) != (s[..] != t[..]) { bad.push(format!("cross-type MiniVec<String> == MiniVec<&str> on {:?} {:?}", s, t)); }
      if (vt == vs) != (t[..] == s[..]) { bad.push(format!("cross-type MiniVec<&str> == MiniVec<String> on {:?} {:?}", t, s)); }
      let c: Vec<Cow<'_, str>> = t.iter().map(|w| Cow::Borrowed(*w)).collect();
      let vc: MiniVec<Cow<'_, str>> = MiniVec::from(&c[..]);
      if (vc == vt) != (c[..] == t[..]) || (vc == vs) != (c[..] == s[..]) { bad.push(format!("cross-type MiniVec<Cow<str>> on {:?}", t)); }
      let nested: MiniVec<MiniVec<u8>> = t.iter().map(|w| MiniVec::from(w.as_bytes())).collect();
      let nref: Vec<Vec<u8>> = t.iter().map(|w| w.as_bytes().to_vec()).collect();
      let nested2: MiniVec<Vec<u8>> = nref.iter().cloned().collect();
      if (nested == nested2) != (nref[..] == nref[..]) { bad.push(format!("cross-type MiniVec<MiniVec<u8>> == MiniVec<Vec<u8>> on {:?}", t)); }
    }
  }
  for len in [1023usize, 1024, 1025, 1500, 3000] {
    let a: Vec<u8> = (0..len).map(|i| (i * 7 % 251) as u8).collect();
    let mut b = a.clone(); b[len / 2] ^= 1;
    let (va, vb) = (MiniVec::from(&a[..]), MiniVec::from(&b[..]));
    *n += 1;
    if h(&va) != h(&a[..]) || h(&vb) != h(&b[..]) || rec(&va) != rec(&a[..]) { bad.push(format!("hash of a vector of {} bytes differs from the slice's", len)); }
    let mut m: HashMap<MiniVec<u8>, u32> = HashMap::new(); m.insert(va.clone(), 1);
    if m.get(&a[..]) != Some(&1) || m.get(&b[..]).is_some() { bad.push(format!("HashMap lookup by slice, key of {} bytes", len)); }
    let w: Vec<u64> = (0..len as u64).collect();
    if h(&MiniVec::from(&w[..])) != h(&w[..]) { bad.push(format!("hash of a vector of {} words differs from the slice's", len)); }
  }
}
fn main() {
  std::panic::set_hook(Box::new(|_| {}));
  { let (mut n0, mut bad0) = (0u64, vec![]); check_cross_and_long(&mut n0, &mut bad0);
    if !bad0.is_empty() { for b in bad0.iter().take(3) { println!("MISMATCH {}", b); } std::process::exit(1); } }
  for a in [&[][..], &[1u8][..], &[2, 3], &[2, 3, 4], &[2, 3, 5], &[3, 3, 4], &[2, 3, 4, 5]] {
    for b in [&[][..], &[1u8][..], &[0], &[2, 3], &[3, 2], &[2, 3, 4], &[2, 2, 4], &[2, 3, 4, 5], &[9, 3, 4]] {
      let (mut n0, mut bad0) = (0u64, vec![]);
      check_directed(a, b, &mut n0, &mut bad0);
      if !bad0.is_empty() { for b in bad0.iter().take(3) { println!("MISMATCH {}", b); } std::process::exit(1); }
    }
  }
  let seed: u64 = std::env::args().nth(1).and_then(|s| s.parse().ok()).unwrap_or(1);
  let rounds: usize = std::env::args().nth(2).and_then(|s| s.parse().ok()).unwrap_or(100);
  let mut r = R(seed); let mut n = 0u64; let mut bad = vec![];
  let fv = [0.0f64, -0.0, 1.0, -1.0, f64::NAN, f64::INFINITY, 2.5];
  for _ in 0..rounds {
    let la = (r.next() % 5) as usize; let lb = (r.next() % 5) as usize;
    let mut a: Vec<f64> = (0..la).map(|_| fv[(r.next() % 7) as usize]).collect();
    let b: Vec<f64> = if r.next() % 3 == 0 { let mut b = a.clone(); if !b.is_empty() && r.next() % 2 == 0 { let k = (r.next() as usize) % b.len(); b[k] = fv[(r.next() % 7) as usize]; } if r.next() % 3 == 0 { b.push(1.0); } b }
                      else { (0..lb).map(|_| fv[(r.next() % 7) as usize]).collect() };
    if r.next() % 7 == 0 { a.clear(); }
    check_pair(&a, &b, &mut n, &mut bad);
    let ia: Vec<i64> = a.iter().map(|x| if x.is_nan() { 9 } else { *x as i64 }).collect();
    let ib: Vec<i64> = b.iter().map(|x| if x.is_nan() { 9 } else { *x as i64 }).collect();
    check_ord(&ia, &ib, &mut n, &mut bad);
    let sa: Vec<String> = ia.iter().map(|x| x.to_string()).collect(); let sb: Vec<String> = ib.iter().map(|x| x.to_string()).collect();
    check_ord(&sa, &sb, &mut n, &mut bad);
    // one-byte element types whose order is not the order of their bytes
    let ba: Vec<i8> = ia.iter().map(|x| (*x as i8).wrapping_mul(if *x % 2 == 0 { -1 } else { 1 })).collect();
    let bb: Vec<i8> = ib.iter().map(|x| (*x as i8).wrapping_mul(if *x % 3 == 0 { -1 } else { 1 })).collect();
    check_ord(&ba, &bb, &mut n, &mut bad);
    let ra: Vec<std::cmp::Reverse<u8>> = ia.iter().map(|x| std::cmp::Reverse(*x as u8)).collect();
    let rb: Vec<std::cmp::Reverse<u8>> = ib.iter().map(|x| std::cmp::Reverse(*x as u8)).collect();
    check_ord(&ra, &rb, &mut n, &mut bad);
    let ua: Vec<u8> = ia.iter().map(|x| *x as u8).collect(); let ub: Vec<u8> = ib.iter().map(|x| *x as u8).collect();
    check_ord(&ua, &ub, &mut n, &mut bad);
    let pa: Vec<Prio> = ua.iter().map(|x| Prio(*x)).collect(); let pb: Vec<Prio> = ub.iter().map(|x| Prio(*x)).collect();
    check_ord(&pa, &pb, &mut n, &mut bad);
    let fa: Vec<F> = a.iter().map(|x| F(*x)).collect(); let fb: Vec<F> = b.iter().map(|x| F(*x)).collect();
    check_cmp_only(&fa, &fb, &mut n, &mut bad);
  }
  let e: MiniVec<i64> = mini_vec![];
  if e != MiniVec::<i64>::new() || h(&e) != h(&[0i64; 0][..]) { bad.push("empty".into()); }
  println!("comparisons {}", n);
  for b in bad.iter().take(5) { println!("MISMATCH {}", b); }
  std::process::exit(if bad.is_empty() { 0 } else { 1 });
}
'''

def c15(tier, seed):
    d = workdir("c15")
    path = d + "/c15.rs"
    open(path, "w").write(C15_SRC)
    rc, codes, msgs = rustc(path, d + "/c15bin", emit_metadata=False)
    viol = []
    n = 0
    out = ""
    if rc != 0:
        viol.append({"signature": "c15-build", "concrete": False, "payload": {"what": "the slice-differential program no longer compiles against the crate", "rustc": msgs[:5]}})
    else:
        rounds = 150 if tier == "quick" else 2000
        p = subprocess.run([d + "/c15bin", str(seed % (1 << 63)), str(rounds)], capture_output=True, text=True)
        out = p.stdout
        for l in out.split("\n"):
            if l.startswith("comparisons"):
                n = int(l.split()[1])
            if l.startswith("MISMATCH"):
                viol.append({"signature": "c15:" + l.split()[1], "concrete": True,
                             "payload": {"what": "a MiniVec operator differs from the slice operator", "detail": l, "replay": "%s %d %d" % (path, seed, rounds)}})
        if p.returncode not in (0, 1):
            viol.append({"signature": "c15-crash", "concrete": True, "payload": {"what": "differential program crashed", "rc": p.returncode, "stderr": p.stderr[-300:]}})
    cov = {"evaluations": n, "distinct_nontrivial": n, "traces_validated_against_impl": n if not viol else 0,
           "rule": "seeded pairs of element sequences (f64 incl. NaN/-0.0/inf, i64, String, i8 with negatives, Reverse<u8>, u8, a type whose Ord is the reverse of its PartialOrd, a float wrapper ordered by total_cmp; equal, prefix-related, differing at one position, empty), each held in 6 vectors with different histories/capacities/alignments; every operator, the Hasher call sequence, Hash::hash_slice over vectors, nested vectors (hash and order) and HashMap/BTreeMap lookup by slice compared with the slice result; each (pair, variant a, variant b) counted once",
           "samples": [out[:200]]}
    return viol, cov


def mutcb(tier, seed):
    """callbacks that WRITE through the `&mut T` they are handed (drain_filter, dedup_by, dedup_by_key): MiniVec against
    the reference on every scripted callback over small vectors (harness/src/mutcb.rs), both profiles"""
    import run as RUN
    viol = []
    n = 0
    for mode in ("debug", "release"):
        p = subprocess.run([RUN.harness_bin(mode), "--mutcb"], capture_output=True, text=True, errors="replace")
        tot = [l for l in p.stdout.split("\n") if l.startswith("MUTCB ")]
        if tot:
            n += int(tot[-1].split()[1])
        mism = [l for l in p.stdout.split("\n") if l.startswith("MISMATCH ")]
        for l in mism[:4]:
            scen, what = l[9:].split(" :: ", 1)
            viol.append({"signature": "mutcb-" + scen.split()[0], "concrete": True,
                         "payload": {"what": "a callback that writes through its `&mut T` argument: MiniVec and the reference disagree (yields / contents by identity / destructor runs per element)",
                                     "profile": mode, "scenario": scen, "observed": what[:1500], "replay": "build/harness-target/%s/harness --mutcb" % mode}})
        if not tot or (p.returncode not in (0, 1)):
            viol.append({"signature": "mutcb-crash", "concrete": True,
                         "payload": {"what": "the mutating-callback battery did not finish", "profile": mode, "rc": p.returncode, "stdout": p.stdout[-600:], "stderr": p.stderr[-600:]}})
    cov = {"evaluations": n, "distinct_nontrivial": n, "traces_validated_against_impl": n if not viol else 0,
           "mutating_callback_scenarios": n}
    return viol, cov


def shifty(tier, seed):
    """`drain` / `splice` with a `RangeBounds` whose answers change between calls (whatever is validated must be what is
    used), and growth with element types from 1 to 70 000 bytes (harness/src/mutcb.rs, `--shifty`), both profiles"""
    import run as RUN
    viol = []
    n = 0
    for mode in ("debug", "release"):
        try:
            p = subprocess.run([RUN.harness_bin(mode), "--shifty"], capture_output=True, text=True, errors="replace", timeout=60)
            rc, so, se = p.returncode, p.stdout, p.stderr
        except subprocess.TimeoutExpired as e:
            rc, so, se = "hang (60 s)", (e.stdout or b"").decode(errors="replace") if isinstance(e.stdout, bytes) else (e.stdout or ""), ""
        lines = so.split("\n")
        tot = [l for l in lines if l.startswith("SHIFTY ")]
        if tot:
            n += int(tot[-1].split()[1])
        for l in [l for l in lines if l.startswith("MISMATCH ")][:4]:
            scen, what = l[9:].split(" :: ", 1)
            viol.append({"signature": "shifty-" + scen.split()[0], "concrete": True,
                         "payload": {"what": "range bounds that answer differently each time they are asked / growth of a vector of wide elements: the outcome is none that Vec produces for the answers given",
                                     "profile": mode, "scenario": scen, "observed": what[:1500], "replay": "build/harness-target/%s/harness --shifty" % mode}})
        if not tot or (rc not in (0, 1)):
            last = [l for l in lines if l.startswith("SCEN ")]
            viol.append({"signature": "shifty-crash", "concrete": True,
                         "payload": {"what": "the battery crashed or hung in (or shortly after) the scenario named", "profile": mode, "rc": rc, "scenario": last[-1][5:] if last else "?",
                                     "stderr": se[-400:], "replay": "build/harness-target/%s/harness --shifty" % mode}})
    cov = {"evaluations": n, "distinct_nontrivial": n, "traces_validated_against_impl": n if not viol else 0, "shifty_scenarios": n}
    return viol, cov

def both(*fs):
    def run(tier, seed):
        viol, cov = [], {"evaluations": 0, "distinct_nontrivial": 0, "traces_validated_against_impl": 0}
        for f in fs:
            v, c = f(tier, seed)
            viol += v
            for k, x in c.items():
                if k in ("evaluations", "distinct_nontrivial", "traces_validated_against_impl"):
                    cov[k] += x
                else:
                    cov[k] = x
        if viol:
            cov["traces_validated_against_impl"] = 0
        return viol, cov
    return run

OOM_SRC = r"""
// C18, "never frees or loses the old block before diverging": with an allocation-error hook that PANICS instead of
// aborting (unstable `alloc_error_hook`, compiled with RUSTC_BOOTSTRAP=1), every block a vector owned when a request was
// refused must still have an owner while the stack unwinds — so that, once every handle is dropped, the allocator has
// got every block back exactly once and nothing was freed twice.
#![feature(alloc_error_hook)]
use minivec::{MiniVec, mini_vec};
use std::alloc::{GlobalAlloc, Layout, System};
use std::sync::atomic::{AtomicBool, AtomicI64, AtomicU64, Ordering::SeqCst};
static ON: AtomicBool = AtomicBool::new(false);     // requests are counted (and may be refused)
static TRACK: AtomicBool = AtomicBool::new(false);  // blocks obtained are entered into the table
static COUNT: AtomicU64 = AtomicU64::new(0);
static FAIL_AT: AtomicU64 = AtomicU64::new(0);
static mut TABLE: [usize; 64] = [0; 64];
static mut PRE: [usize; 2] = [0; 2];                // the blocks the two vectors owned before the operation (followed through reallocs)
static FREED_PRE: AtomicBool = AtomicBool::new(false); // one of them was handed back while requests could still be refused
unsafe fn enter(p: usize) { for s in TABLE.iter_mut() { if *s == 0 { *s = p; return; } } }
unsafe fn leave(p: usize) -> bool { for s in TABLE.iter_mut() { if *s == p { *s = 0; return true; } } false }
unsafe fn live() -> usize { TABLE.iter().filter(|s| **s != 0).count() }
struct A;
unsafe impl GlobalAlloc for A {
  unsafe fn alloc(&self, l: Layout) -> *mut u8 {
    if ON.load(SeqCst) {
      let n = COUNT.fetch_add(1, SeqCst) + 1;
      if n == FAIL_AT.load(SeqCst) { ON.store(false, SeqCst); TRACK.store(false, SeqCst); return std::ptr::null_mut(); }
    }
    let p = System.alloc(l);
    if TRACK.load(SeqCst) && !p.is_null() { enter(p as usize); }
    p
  }
  unsafe fn dealloc(&self, p: *mut u8, l: Layout) {
    if ON.load(SeqCst) { for s in PRE.iter_mut() { if *s == p as usize && *s != 0 { *s = 0; FREED_PRE.store(true, SeqCst); } } }
    leave(p as usize);
    System.dealloc(p, l)
  }
  unsafe fn realloc(&self, p: *mut u8, l: Layout, n: usize) -> *mut u8 {
    if ON.load(SeqCst) {
      let k = COUNT.fetch_add(1, SeqCst) + 1;
      if k == FAIL_AT.load(SeqCst) { ON.store(false, SeqCst); TRACK.store(false, SeqCst); return std::ptr::null_mut(); }
    }
    let q = System.realloc(p, l, n);
    if !q.is_null() && leave(p as usize) { enter(q as usize); }
    if !q.is_null() { for s in PRE.iter_mut() { if *s == p as usize && *s != 0 { *s = q as usize; } } }
    q
  }
}
#[global_allocator] static G: A = A;
static DROPS: AtomicU64 = AtomicU64::new(0);
struct E(u64, [u64; 2]);
impl Drop for E { fn drop(&mut self) { DROPS.fetch_add(1, SeqCst); } }
impl Clone for E { fn clone(&self) -> E { E(self.0, self.1) } }
fn filled(n: u64) -> MiniVec<E> { let mut v = MiniVec::new(); for i in 0..n { v.push(E(i, [i, i])); } v.shrink_to_fit(); v }
type Scen = (&'static str, fn(&mut MiniVec<E>, &mut MiniVec<E>));
fn block_of(v: &MiniVec<E>) -> usize { if v.capacity() == 0 { 0 } else { v.as_ptr() as usize - 24 } }
fn scenarios() -> Vec<Scen> {
  vec![
    ("push when full", |v, _| v.push(E(9, [9, 9]))),
    ("insert when full", |v, _| v.insert(1, E(9, [9, 9]))),
    ("reserve", |v, _| v.reserve(40)),
    ("reserve_exact", |v, _| v.reserve_exact(40)),
    ("shrink_to_fit after pop", |v, _| { v.pop(); v.shrink_to_fit(); }),
    ("split_off(0)", |v, o| { *o = v.split_off(0); }),
    ("split_off(2)", |v, o| { *o = v.split_off(2); }),
    ("drain_vec + push", |v, o| { *o = v.drain_vec(); v.push(E(1, [1, 1])); }),
    ("clone", |v, o| { *o = v.clone(); }),
    ("clone_from", |v, o| { o.clone_from(v); }),
    ("clone_from into a smaller vector", |v, o| { o.truncate(2); o.shrink_to_fit(); o.clone_from(v); }),
    ("clone_from into a vector with room", |v, o| { o.reserve(8); o.clone_from(v); }),
    ("insert at the front when full", |v, _| v.insert(0, E(9, [9, 9]))),
    ("split_off(1)", |v, o| { *o = v.split_off(1); }),
    ("extend_from_within", |v, _| v.extend_from_within(..)),
    ("resize_with", |v, _| v.resize_with(20, || E(7, [7, 7]))),
    ("append", |v, o| { let mut t = filled(5); v.append(&mut t); *o = t; }),
    ("extend", |v, _| v.extend((0..9).map(|i| E(i, [i, i])))),
    ("extend_from_slice", |v, _| { let t = filled(6); v.extend_from_slice(&t); }),
    ("resize", |v, _| v.resize(20, E(7, [7, 7]))),
    ("splice longer", |v, _| { let _ = v.splice(1..2, (0..7).map(|i| E(i, [i, i]))); }),
    ("into_iter clone", |v, o| { let it = std::mem::replace(v, MiniVec::new()).into_iter(); let c = it.clone(); *o = c.collect(); drop(it); }),
    ("collect", |_, o| { *o = (0..9).map(|i| E(i, [i, i])).collect(); }),
    ("with_capacity", |_, o| { *o = MiniVec::with_capacity(13); }),
    ("macro repeat", |_, o| { *o = mini_vec![E(1, [1, 1]); 6]; }),
  ]
}
fn main() {
  std::alloc::set_alloc_error_hook(|l| panic!("refused {} bytes", l.size()));
  std::panic::set_hook(Box::new(|_| {}));
  let mut total = 0u64; let mut bad = 0u64;
  for (name, f) in scenarios() {
    for k in 1..=4u64 {
      unsafe { TABLE = [0; 64]; }
      COUNT.store(0, SeqCst); FAIL_AT.store(0, SeqCst);
      TRACK.store(true, SeqCst);
      let mut v = filled(4);                       // its block is in the table
      let mut o: MiniVec<E> = if name.starts_with("clone_from into") { filled(3) } else { MiniVec::new() };
      unsafe { PRE = [block_of(&v), block_of(&o)]; }
      FREED_PRE.store(false, SeqCst);
      COUNT.store(0, SeqCst); FAIL_AT.store(k, SeqCst); ON.store(true, SeqCst);
      let r = std::panic::catch_unwind(std::panic::AssertUnwindSafe(|| f(&mut v, &mut o)));
      let refused = !ON.swap(false, SeqCst);
      TRACK.store(false, SeqCst);
      drop(v); drop(o);
      total += 1;
      // every block in the table (the one owned before the operation and those obtained by it) must have been handed back
      let left = unsafe { live() };
      if refused && left != 0 {
        bad += 1;
        println!("MISMATCH {} with request no. {} refused (the hook panics, the stack unwinds, every handle is dropped): {} block(s) were never handed back to the allocator: nobody owned them while the operation diverged",
                 name, k, left);
      }
      if refused && FREED_PRE.load(SeqCst) {
        bad += 1;
        println!("MISMATCH {} with request no. {} refused: a block one of the vectors owned before the operation was handed back to the allocator BEFORE the refused request was made (freed before diverging: with the aborting handler its contents are gone and nothing replaced them)", name, k);
      }
      let _ = r;
    }
  }
  println!("OOMUNWIND {} {}", total, bad);
  std::process::exit(if bad == 0 { 0 } else { 1 });
}
"""

def oom_unwind(tier, seed):
    """C18: ownership of the old block at the moment of divergence, made observable by an allocation-error hook that panics"""
    d = workdir("oom")
    path = d + "/oom.rs"
    open(path, "w").write(OOM_SRC)
    env = dict(os.environ, RUSTC_BOOTSTRAP="1")
    p0 = subprocess.run(["rustc", "--edition", "2021", "--extern", "minivec=" + rlib(), "-L", "dependency=" + DEPS, "-A", "warnings", "-o", d + "/oombin", path],
                        capture_output=True, text=True, env=env)
    viol = []
    n = 0
    if p0.returncode != 0:
        # the unstable hook is not available with this toolchain: the battery cannot run (recorded, not a violation)
        return [], {"evaluations": 0, "distinct_nontrivial": 0, "traces_validated_against_impl": 0, "oom_unwind": "not run: " + p0.stderr[-300:]}
    p = subprocess.run([d + "/oombin"], capture_output=True, text=True, errors="replace")
    tot = [l for l in p.stdout.split("\n") if l.startswith("OOMUNWIND ")]
    if tot:
        n = int(tot[-1].split()[1])
    for l in [l for l in p.stdout.split("\n") if l.startswith("MISMATCH ")][:4]:
        viol.append({"signature": "oom-unwind-" + l[9:].split(" with request")[0].replace(" ", "_"), "concrete": True,
                     "payload": {"what": "a block the vector owned when the allocator refused a request has no owner while the operation diverges", "scenario": l[9:],
                                 "replay": "RUSTC_BOOTSTRAP=1 rustc vlib/special.py:OOM_SRC against the crate, run it"}})
    if not tot or p.returncode not in (0, 1):
        viol.append({"signature": "oom-unwind-crash", "concrete": True, "payload": {"what": "the battery did not finish", "rc": p.returncode, "stdout": p.stdout[-500:], "stderr": p.stderr[-500:]}})
    return viol, {"evaluations": n, "distinct_nontrivial": n, "traces_validated_against_impl": n if not viol else 0, "oom_unwind_scenarios": n}

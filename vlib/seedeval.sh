#!/bin/bash
# seedeval.sh <PID> <N> [checks...]: confirm a seeded change (suite passes, demo fails with / passes without), then run the checks against it
set -u
PID=$1; N=$2; shift 2
W=${WAVE:-}
OUT=/tmp/mutout$W-$PID/$N
WT=/tmp/mut$W-$PID
DF=${DEMO_FLAGS:-}
export CARGO_TARGET_DIR=$WT/target
cd $WT && git checkout -q -- . && rm -f tests/demo_*.rs
cp $OUT/demo.rs tests/demo_seed.rs
echo "== demo on unchanged tree"; cargo test --offline $DF --test demo_seed 2>&1 | grep -E "^test result|panicked|error|signal" | head -3
git apply $OUT/patch.diff || { echo "PATCH DOES NOT APPLY"; exit 2; }
echo "== demo with patch"; cargo test --offline $DF --test demo_seed 2>&1 | grep -E "^test result|panicked|error|signal|SIG" | head -4
rm -f tests/demo_seed.rs
echo "== suite with patch"; cargo test --offline 2>&1 | grep -E "^test result|FAILED" | head -6
git checkout -q -- . && git clean -fdq
cd /verif
git -C /repo apply $OUT/patch.diff || { echo "PATCH DOES NOT APPLY TO /repo"; exit 2; }
for c in "$@"; do echo "== check $c"; ./check $c 2>&1 | grep -v KNOWN | tail -12 | cut -c1-220; done
git -C /repo checkout -- . && git -C /repo clean -fdq
git -C /repo status --short | head -3

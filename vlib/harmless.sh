#!/bin/bash
# harmless.sh [ids...]: apply each behaviour-preserving rewrite of harmless/<id>.diff to /repo, run every quick check, record which
# checks stay green (they all should: a broken proof obligation on a harmless rewrite is reported as `no-failing-input-found`).
# Never run concurrently with other checks.
cd /verif
git -C /repo diff --quiet || { echo "/repo has uncommitted changes"; exit 2; }
ids="$@"; [ -z "$ids" ] && ids=$(ls harmless | grep '\.diff$' | sed 's/\.diff$//')
out=${OUT:-harmless/RESULTS.txt}; : > $out.tmp
for id in $ids; do
  git -C /repo apply /verif/harmless/$id.diff || { echo "$id patch-does-not-apply" | tee -a $out.tmp; continue; }
  line="$id"
  for p in ${CHECKS:-C01 C02 C03 C04 C05 C06 C07 C08 C09 C10 C11 C12 C13 C14 C15 C16 C17 C18 C19}; do
    res=$(./check $p 2>&1 | grep -v "^KNOWN")
    if echo "$res" | grep -q "^VIOLATION"; then
      nconc=$(echo "$res" | grep "^VIOLATION" | grep -vc "no-failing-input-found")
      line="$line $p=ALARM($([ $nconc -gt 0 ] && echo with-input || echo no-failing-input-found))"
    fi
  done
  git -C /repo checkout -- . && git -C /repo clean -fdq
  [ "$line" = "$id" ] && line="$id all-green(${CHECKS:-all 19})"
  echo "$line" | tee -a $out.tmp
done
mv $out.tmp $out
git -C /repo status --short | head -3

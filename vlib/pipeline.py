"""The fixed pipeline every check runs (DESIGN.md §2)."""
import os, sys, json, re, subprocess, time, hashlib, shutil, filecmp, glob
import run as R

VERIF = "/verif"
REPO = "/repo"
LEAN = VERIF + "/lean"
GEN = LEAN + "/MiniVecProof/Gen"
BUILD = VERIF + "/build"
MVTRANS = BUILD + "/mvtrans-target/release/mvtrans"
ALLOWED_AXIOMS = {"propext", "Classical.choice", "Quot.sound"}
ENV = dict(os.environ, CARGO_NET_OFFLINE="true", CARGO_TARGET_DIR=BUILD + "/harness-target")

TRUSTED_BASE = [
    "Lean 4.33.0 kernel (thorough tier re-checks the property modules with leanchecker)",
    "axioms: at most propext, Classical.choice, Quot.sound per theorem (audited with #print axioms on every run); no native_decide, bv_decide, sorry, admit or own axioms",
    "mvtrans (Rust->Lean translator of the integer kernel, decision programs and syntactic facts) and its support library Model/Basic.lean, Model/GM.lean (usize semantics per profile, Layout::from_size_align, header machine)",
    "hand-written memory model Model/{Mem,Vec,Iter,World}.lean for all pointer-manipulating code: tied to the code only by the trace correspondence check on generated inputs (not proved)",
    "the harness (checking allocator, element ledger, std Vec shadow, canonicaliser), the Lean driver's parser/printer, rustc/LLVM, std, the System allocator",
    "configuration: x86-64, 64-bit usize, Header = 24 bytes / align 8",
]

def sh(cmd, cwd=None, env=None, timeout=None):
    p = subprocess.run(cmd, cwd=cwd, env=env or ENV, capture_output=True, text=True, errors="replace", timeout=timeout)
    return p.returncode, p.stdout + p.stderr

# ---------------------------------------------------------------------------------------------
def regen():
    """mvtrans /repo/src -> Gen (files are replaced only when their content changed, so that lake
    rebuilds exactly what depends on a changed definition). Returns (exit status, meta dict)."""
    tmp = BUILD + "/gen-tmp-%d" % os.getpid()
    os.makedirs(tmp, exist_ok=True)
    # the translator itself is rebuilt when it is missing or older than its sources (setup.sh builds it first)
    srcs = glob.glob(VERIF + "/mvtrans/src/*.rs") + [VERIF + "/mvtrans/Cargo.toml"]
    if not os.path.exists(MVTRANS) or any(os.path.getmtime(f) > os.path.getmtime(MVTRANS) for f in srcs):
        e = dict(ENV); e["CARGO_TARGET_DIR"] = BUILD + "/mvtrans-target"
        sh(["cargo", "build", "--offline", "--release"], cwd=VERIF + "/mvtrans", env=e)
    rc, out = sh([MVTRANS, REPO + "/src", tmp])
    meta = {}
    try:
        meta = json.load(open(tmp + "/meta.json"))
    except Exception as e:
        meta = {"error": "meta.json unreadable: %s; mvtrans said: %s" % (e, out[-500:])}
    os.makedirs(GEN, exist_ok=True)
    for f in ("Kernel.lean", "Facts.lean", "meta.json"):
        src, dst = tmp + "/" + f, GEN + "/" + f
        if os.path.exists(src) and not (os.path.exists(dst) and filecmp.cmp(src, dst, shallow=False)):
            shutil.copyfile(src, dst)
    shutil.rmtree(tmp, ignore_errors=True)
    return rc, meta

def lake_build(targets, timeout=1500):
    return sh(["lake", "build"] + targets, cwd=LEAN, timeout=timeout)

AX_RE = re.compile(r"'([^']+)' depends on axioms: \[([^\]]*)\]")
NOAX_RE = re.compile(r"'([^']+)' does not depend on any axioms")

def audit_axioms(output):
    res = {}
    for m in AX_RE.finditer(output):
        res[m.group(1)] = [a.strip() for a in m.group(2).split(",") if a.strip()]
    for m in NOAX_RE.finditer(output):
        res[m.group(1)] = []
    return res

def print_axioms(modules):
    """#print axioms output is only produced when a module is (re)compiled; to have it on every run we
    re-elaborate the (small) property files directly."""
    out_all = ""
    rc_all = 0
    for mod in modules:
        path = LEAN + "/" + mod.replace(".", "/") + ".lean"
        rc, out = sh(["lake", "env", "lean", path], cwd=LEAN, timeout=1500)
        out_all += out
        rc_all = rc_all or rc
    return rc_all, out_all

FORBIDDEN = re.compile(r"\b(sorry|admit|native_decide|bv_decide|implemented_by)\b|^\s*axiom\s|^\s*unsafe\s|maxHeartbeats\s+0", re.M)

def strip_comments(text):
    text = re.sub(r"/-.*?-/", "", text, flags=re.S)
    return re.sub(r"--.*", "", text)

def grep_forbidden():
    hits = []
    for root, _, files in os.walk(LEAN):
        if "/.lake" in root:
            continue
        for f in files:
            if f.endswith(".lean"):
                p = os.path.join(root, f)
                for m in FORBIDDEN.finditer(strip_comments(open(p).read())):
                    hits.append("%s: %s" % (p, m.group(0).strip()))
    return hits

def build_harness():
    outs = []
    for extra in ([], ["--release"]):
        rc, out = sh(["cargo", "build", "--offline"] + extra, cwd=VERIF + "/harness", timeout=1500)
        if rc != 0:
            return rc, out
        outs.append(out[-300:])
    return 0, "\n".join(outs)

# ---------------------------------------------------------------------------------------------
def load_known():
    try:
        return json.load(open(VERIF + "/known_findings.json"))["findings"]
    except Exception:
        return []

def write_replay(pid, kind, payload):
    d = VERIF + "/replays"
    os.makedirs(d, exist_ok=True)
    h = hashlib.sha1(json.dumps(payload, sort_keys=True).encode()).hexdigest()[:10]
    path = "%s/%s-%s-%s.json" % (d, pid, kind, h)
    payload = dict(payload, property=pid, kind=kind)
    json.dump(payload, open(path, "w"), indent=1)
    return path

def write_evidence(pid, ev):
    os.makedirs(VERIF + "/evidence", exist_ok=True)
    json.dump(ev, open("%s/evidence/%s.json" % (VERIF, pid), "w"), indent=1)

# ---------------------------------------------------------------------------------------------
def run_check(pid, tier, seed, replay):
    import props
    t0 = time.time()
    if pid not in props.PROPS:
        print("unknown property " + pid)
        return 64
    P = props.PROPS[pid]
    if replay:
        return props.replay(pid, replay)
    violations = []     # (signature, replay payload, found_input: bool)
    notes = []
    # 1. regenerate
    rc_gen, meta = regen()
    translation_failures = [f for f in meta.get("functions", []) if f.get("mode") == "failed"]
    # 2. theorems
    modules = P["modules"]
    rc_b, out_b = lake_build(modules + ["driver"])
    rc_a, out_a = print_axioms(modules) if rc_b == 0 else (1, "")
    axioms = audit_axioms(out_a)
    obligations = sorted(axioms.keys()) if axioms else list(P.get("theorems", []))
    bad_ax = {t: [a for a in ax if a not in ALLOWED_AXIOMS] for t, ax in axioms.items()}
    bad_ax = {t: a for t, a in bad_ax.items() if a}
    forbidden = grep_forbidden()
    expected = []
    for mod in modules:
        try:
            src = open(LEAN + "/" + mod.replace(".", "/") + ".lean").read()
            expected += re.findall(r"^#print axioms (\S+)", src, re.M)
        except OSError:
            pass
    if not obligations:
        obligations = expected
    missing = [t for t in expected if t not in axioms]
    proof_ok = rc_b == 0 and rc_a == 0 and not bad_ax and not forbidden and not missing
    discharged = len([t for t in obligations if t in axioms and t not in bad_ax]) if rc_b == 0 else 0
    broken = []
    if rc_gen != 0 and P.get("needs_translation", True):
        broken.append({"what": "translation", "detail": translation_failures or meta.get("error")})
    if rc_b != 0:
        errs = [l for l in out_b.split("\n") if "error" in l][:12]
        broken.append({"what": "theorem", "detail": "lake build failed", "messages": errs})
    elif rc_a != 0:
        broken.append({"what": "theorem", "detail": "re-elaboration of property module failed", "messages": out_a[-1500:]})
    if bad_ax:
        broken.append({"what": "axioms", "detail": bad_ax})
    if forbidden:
        broken.append({"what": "forbidden-construct", "detail": forbidden[:10]})
    if missing and rc_b == 0:
        broken.append({"what": "theorem-missing", "detail": missing})
    lc = None
    if tier == "thorough" and rc_b == 0:
        rcs = []
        for m in modules:
            rc_l, out_l = sh(["lake", "env", "leanchecker", m], cwd=LEAN, timeout=3000)
            rcs.append((m, rc_l, out_l[-300:]))
            if rc_l != 0:
                broken.append({"what": "leanchecker", "detail": out_l[-500:]})
        lc = rcs
    # 3. correspondence + oracles (needs a driver; if the model does not build, the search for a
    #    failing input runs the implementation-side oracles alone)
    rc_h, out_h = build_harness()
    corr = None
    if rc_h != 0:
        broken.append({"what": "harness-build", "detail": out_h[-1500:]})
    else:
        corr = props.correspondence(pid, tier, seed, model_ok=(rc_b == 0))
        violations += corr["violations"]
    # 4./5. verdict
    known = load_known()
    new_violations = []
    known_hits = []
    for v in violations:
        k = [f for f in known if f.get("status") == "known" and f["property"] == pid and f["signature"] == v["signature"]]
        if k:
            known_hits.append((k[0], v))
        else:
            new_violations.append(v)
    printed = set()
    for f, v in known_hits:
        if f["signature"] not in printed:
            print("KNOWN-FINDING: property=%s %s" % (pid, f["what"]))
            printed.add(f["signature"])
    exit_code = 0
    reported = 0
    concrete = [v for v in new_violations if v.get("concrete")]
    if concrete or broken or new_violations:
        # one VIOLATION line per distinct signature (bounded)
        sigs = {}
        for v in new_violations:
            sigs.setdefault(v["signature"], v)
        if broken and not concrete:
            # a proof obligation / the tie no longer checks and no failing input was found
            path = write_replay(pid, "broken", {"broken": broken, "note": "no failing input found by the implementation-side oracles on this run's cases", "tier": tier, "seed": seed})
            print("VIOLATION property=%s replay=%s no-failing-input-found" % (pid, path))
            reported += 1
        # (failing inputs first: a disagreement between model and code is only the fallback)
        for sig, v in sorted(sigs.items(), key=lambda kv: 0 if kv[1].get("concrete") else 1)[:8]:
            payload = dict(v["payload"], signature=sig, broken=broken, tier=tier, seed=seed)
            path = write_replay(pid, "input" if v.get("concrete") else "corr", payload)
            tail = "" if v.get("concrete") else " no-failing-input-found"
            print("VIOLATION property=%s replay=%s%s" % (pid, path, tail))
            reported += 1
        exit_code = 1
    wall = time.time() - t0
    cov = {
        "obligations": max(1, len(obligations)),
        "discharged": discharged,
        "checker_cmd": "cd /verif/lean && lake build %s && lake env lean <module>.lean (#print axioms)%s" % (" ".join(modules), " && lake env leanchecker <module>" if tier == "thorough" else ""),
        "trusted_base": TRUSTED_BASE,
        "theorems": obligations,
        "axioms": axioms,
        "translation": {"mvtrans_exit": rc_gen, "failed": translation_failures,
                        "functions": {f["name"]: f.get("mode") for f in meta.get("functions", []) if "name" in f}},
        "proof_ok": proof_ok,
        "broken": broken,
        "partial_missing": P.get("partial_missing", []),
        "leanchecker": lc,
    }
    if discharged == 0:
        # the schema wants discharged >= 1 for a proof-level record; a run in which no obligation checks
        # records that under another key and falls back to the exploration-style counts
        cov["discharged_none"] = True
        del cov["discharged"]
    if corr:
        cov.update(corr["coverage"])
    else:
        cov.update({"evaluations": 0, "distinct_nontrivial": 0, "rule": "correspondence did not run", "samples": []})
    ev = {"property_id": pid, "tier": tier, "seed": seed, "level": "proof", "coverage": cov,
          "assumptions": P.get("assumptions", []) + ["see coverage.trusted_base"],
          "wall_s": round(wall, 2), "violations": reported}
    write_evidence(pid, ev)
    print("%s: %s theorems %d/%d, correspondence %s cases, %d violation(s), %.1fs" % (
        pid, "OK" if exit_code == 0 else "FAIL", discharged, len(obligations),
        cov.get("evaluations"), reported, wall))
    return exit_code

//! Shadow semantics of iterators, drop/forget and the two-register operations.
#![allow(static_mut_refs)]
use crate::interp::Out;
use crate::script::{self, It, Pred};
use crate::shadow::{range, Ctx, Sh};
use std::collections::hash_map::DefaultHasher;
use std::collections::VecDeque;
use std::hash::{Hash, Hasher};

const ITER_OPS: &[&str] = &[
  "drop", "forget", "drain", "splice", "drain_filter", "into_iter", "next", "next_back", "size_hint",
  "len", "as_slice", "clone_iter", "nth", "nth_back", "count", "last", "iter_views", "clone_from_iter",
];

/// outer None: not handled here
pub fn run(c: &mut Ctx, t: &[&str]) -> Option<Option<Out>> {
  if ITER_OPS.contains(&t[0]) { Some(iter_op(c, t)) } else { None }
}

fn set_vec(c: &mut Ctx, i: usize, v: Vec<i64>) {
  c.sh[i] = Sh::Vec(v);
}

fn iter_op(c: &mut Ctx, t: &[&str]) -> Option<Out> {
  let op = t[0];
  let i = c.idx(t[1])?;
  Some(match op {
    "drop" | "forget" => {
      let forget = op == "forget";
      match std::mem::replace(&mut c.sh[i], Sh::Gone) {
        Sh::Drain { src, tail, .. } => {
          if !forget {
            c.vec(&c.names[src].clone())?.extend(tail);
          }
        }
        Sh::Splice { src, tail, mut repl, .. } => {
          if !forget {
            let v = c.vec(&c.names[src].clone())?;
            v.extend(repl.until_none());
            v.extend(tail);
          }
        }
        Sh::Filter { src, mut kept, rest, mut pred } => {
          if forget {
            // std leaks everything here; any memory-safe outcome is accepted: resynchronise
            c.sh[src] = Sh::Pending;
          } else {
            kept.extend(rest.into_iter().filter(|&x| !pred.ask(x)));
            set_vec(c, src, kept);
          }
        }
        Sh::Pending => return None,
        _ => {}
      }
      Out::Unit
    }
    "drain" | "splice" => {
      let v = c.vec(t[1])?;
      let Some((s, e)) = range(script::bound(t[2])?, script::bound(t[3])?, v.len()) else {
        return Some(Out::Panic);
      };
      let tail = v.split_off(e);
      let mid: VecDeque<i64> = v.split_off(s).into();
      if op == "drain" {
        c.put(t[4], Sh::Drain { src: i, mid, tail });
      } else {
        c.put(t[5], Sh::Splice { src: i, mid, tail, repl: It::parse(t[4])? });
      }
      Out::Unit
    }
    "drain_filter" => {
      let rest: VecDeque<i64> = std::mem::take(c.vec(t[1])?).into();
      c.put(t[3], Sh::Filter { src: i, kept: vec![], rest, pred: Pred::parse(t[2])? });
      Out::Unit
    }
    "into_iter" => {
      let all: VecDeque<i64> = std::mem::take(c.vec(t[1])?).into();
      c.sh[i] = Sh::Gone;
      c.put(t[2], Sh::Into(all));
      Out::Unit
    }
    "next" | "next_back" => {
      let back = op == "next_back";
      match &mut c.sh[i] {
        Sh::Drain { mid, .. } | Sh::Splice { mid, .. } | Sh::Into(mid) => {
          Out::Opt(if back { mid.pop_back() } else { mid.pop_front() })
        }
        Sh::Filter { kept, rest, pred, .. } => {
          let mut res = None;
          while let Some(x) = rest.pop_front() {
            if pred.ask(x) {
              res = Some(x);
              break;
            }
            kept.push(x);
          }
          Out::Opt(res)
        }
        _ => return None,
      }
    }
    "nth" | "nth_back" => {
      let k: usize = t[2].parse().ok()?;
      let mut res = None;
      for j in 0..=k {
        res = match iter_op(c, &[if op == "nth" { "next" } else { "next_back" }, t[1]])? {
          Out::Opt(o) => o,
          _ => return None,
        };
        if res.is_none() {
          break;
        }
        let _ = j;
      }
      Out::Opt(res)
    }
    "count" => {
      let mut n = 0u64;
      while let Out::Opt(Some(_)) = iter_op(c, &["next", t[1]])? {
        n += 1;
      }
      iter_op(c, &["drop", t[1]])?;
      Out::Nums(vec![n])
    }
    "last" => {
      let mut last = None;
      while let Out::Opt(Some(x)) = iter_op(c, &["next", t[1]])? {
        last = Some(x);
      }
      iter_op(c, &["drop", t[1]])?;
      Out::Opt(last)
    }
    "size_hint" | "len" => match &c.sh[i] {
      Sh::Drain { mid, .. } | Sh::Splice { mid, .. } | Sh::Into(mid) => {
        let n = mid.len() as u64;
        Out::Nums(if op == "len" { vec![n] } else { vec![n, n] })
      }
      Sh::Filter { rest, .. } => Out::Nums(vec![0, rest.len() as u64]),
      _ => return None,
    },
    "as_slice" => match &c.sh[i] {
      Sh::Into(mid) => Out::List(mid.iter().copied().collect()),
      _ => return None,
    },
    "clone_from_iter" => {
      let j = c.idx(t[2])?;
      let Sh::Into(mid) = &c.sh[j] else { return None };
      let copy = mid.clone();
      match &c.sh[i] {
        Sh::Into(_) => c.sh[i] = Sh::Into(copy),
        _ => return None,
      }
      Out::Unit
    }
    "iter_views" => match &c.sh[i] {
      Sh::Into(_) => Out::Unit,
      _ => return None,
    },
    "clone_iter" => {
      let Sh::Into(mid) = &c.sh[i] else { return None };
      let copy = mid.clone();
      c.put(t[2], Sh::Into(copy));
      Out::Unit
    }
    _ => return None,
  })
}

fn hash_of(v: &[i64]) -> u64 {
  let mut h = DefaultHasher::new();
  v.hash(&mut h);
  h.finish()
}
fn ord(o: std::cmp::Ordering) -> &'static str {
  match o {
    std::cmp::Ordering::Less => "lt",
    std::cmp::Ordering::Equal => "eq",
    std::cmp::Ordering::Greater => "gt",
  }
}

/// remaining vector operations (two registers / consuming)
pub fn run2(c: &mut Ctx, t: &[&str]) -> Option<Out> {
  let op = t[0];
  let i = c.idx(t[1])?;
  let a = c.vec(t[1])?.clone();
  Some(match op {
    "append" => {
      let mut b = std::mem::take(c.vec(t[2])?);
      c.vec(t[1])?.append(&mut b);
      Out::Unit
    }
    "split_off" => {
      let n = script::num(t[2])?;
      if n > a.len() {
        return Some(Out::Panic);
      }
      let tail = c.vec(t[1])?.split_off(n);
      c.put(t[3], Sh::Vec(tail));
      Out::Unit
    }
    "drain_vec" => {
      let all = std::mem::take(c.vec(t[1])?);
      c.put(t[2], Sh::Vec(all));
      Out::Unit
    }
    "clone" => {
      c.put(t[2], Sh::Vec(a));
      Out::Unit
    }
    "clone_from" => {
      let b = c.vec(t[2])?.clone();
      *c.vec(t[1])? = b;
      Out::Unit
    }
    "compare" => {
      if unsafe { !crate::elem::EQ_SCRIPT.is_empty() } {
        return None;
      }
      let b = c.vec(t[2])?.clone();
      let o = a.cmp(&b);
      Out::Text(format!("{} {} {} {}", a == b, ord(o), ord(o), hash_of(&a) == hash_of(&b)))
    }
    "leak" => {
      c.sh[i] = Sh::Gone;
      Out::List(a)
    }
    _ => return None,
  })
}

//! harness <casefile> [--timeout-ms N] | harness --selftest | harness --mutcb | harness --shifty
mod alloc;
mod classes;
mod elem;
mod interp;
mod interp_ctor;
mod interp_vec;
mod interp_vec2;
mod interp_iter;
mod interp_serde;
mod interp_ops;
mod mutcb;
mod parent;
mod script;
mod selftest;
mod serde_script;
mod serde_ser;
mod shadow;
mod shadow_iter;
mod trace;

#[global_allocator]
static GLOBAL: alloc::Checking = alloc::Checking;

#[derive(Default, Clone)]
pub struct Case {
  pub name: String,
  pub cfg: String,
  pub mode: String,
  pub panic_at: u64,
  pub allocfail_at: u64,
  pub eq_script: Vec<bool>,
  pub vecdiff_off: bool,
  pub ops: Vec<String>,
  pub err: Option<String>,
}

/// Parse a case file. Blank lines and lines starting with `#` are ignored.
pub fn parse_cases(text: &str) -> Vec<Case> {
  let mut out = Vec::new();
  let mut cur: Option<Case> = None;
  for raw in text.lines() {
    let line = raw.trim_end_matches('\r');
    if line.trim().is_empty() || line.starts_with('#') {
      continue;
    }
    if let Some(rest) = line.strip_prefix('!') {
      let mut w = rest.split_whitespace();
      let (d, a) = (w.next().unwrap_or(""), w.next().unwrap_or(""));
      if d == "case" {
        if let Some(c) = cur.take() {
          out.push(c); // missing !end: run what we have
        }
        cur = Some(Case { name: a.to_string(), ..Default::default() });
        continue;
      }
      let Some(c) = cur.as_mut() else { continue };
      let bad = |c: &mut Case| c.err = Some(format!("bad directive: {}", line));
      match d {
        "cfg" => c.cfg = a.to_string(),
        "mode" => c.mode = a.to_string(),
        "panic_at" => match script::num(a) { Some(k) => c.panic_at = k as u64, None => bad(c) },
        "allocfail_at" => match script::num(a) { Some(k) => c.allocfail_at = k as u64, None => bad(c) },
        "eq_script" => match script::tf_script(a) { Some(v) => c.eq_script = v, None => bad(c) },
        "vecdiff" => if a == "off" { c.vecdiff_off = true } else { bad(c) },
        "end" => out.push(cur.take().unwrap()),
        _ => bad(c),
      }
    } else if let Some(c) = cur.as_mut() {
      c.ops.push(line.to_string());
    }
  }
  if let Some(c) = cur.take() {
    out.push(c);
  }
  out
}

pub fn my_mode() -> &'static str {
  if cfg!(debug_assertions) { "debug" } else { "release" }
}

fn main() {
  let args: Vec<String> = std::env::args().skip(1).collect();
  let mut file = None;
  let mut timeout_ms = 5000u64;
  let mut i = 0;
  while i < args.len() {
    match args[i].as_str() {
      "--selftest" => std::process::exit(selftest::run()),
      "--mutcb" => std::process::exit(mutcb::run()),
      "--shifty" => std::process::exit(mutcb::run_shifty()),
      "--timeout-ms" => {
        i += 1;
        timeout_ms = args.get(i).and_then(|s| s.parse().ok()).unwrap_or(5000);
      }
      s => file = Some(s.to_string()),
    }
    i += 1;
  }
  let Some(file) = file else {
    eprintln!("usage: harness <casefile> [--timeout-ms N] | harness --selftest");
    std::process::exit(2);
  };
  let text = match std::fs::read_to_string(&file) {
    Ok(t) => t,
    Err(e) => {
      eprintln!("harness: cannot read {}: {}", file, e);
      std::process::exit(2);
    }
  };
  let mut out = Vec::new();
  for c in parse_cases(&text) {
    out.clear();
    parent::run_case_forked(&c, timeout_ms, &mut out);
    use std::io::Write;
    let so = std::io::stdout();
    let mut so = so.lock();
    let _ = so.write_all(&out);
    let _ = so.flush();
  }
}

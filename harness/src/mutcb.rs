//! `harness --mutcb`: callbacks that receive `&mut T` and WRITE through it — replace the element, swap it with a value
//! the closure owns, change it in place — in `drain_filter`, `dedup_by` and `dedup_by_key`.
//!
//! The register protocol's predicates only read their argument; this battery is the tie for the other half of the
//! `&mut T` contract. Every scenario runs the same scripted callback on a `MiniVec` and on the reference (`std::Vec`
//! for the two `dedup`s; a ten-line loop for `drain_filter`, whose drop — unlike `Vec::extract_if`'s — goes on
//! filtering), and compares: what is yielded, what the vector holds afterwards (identity and value), and how often
//! every element's destructor ran once everything has been dropped (exactly once each).
//!
//! Output: one line `MISMATCH <scenario> :: <what>` per disagreement, then `MUTCB <scenarios> <mismatches>`.
use minivec::MiniVec;
use std::cell::{Cell, RefCell};

thread_local! {
  static DROPS: RefCell<Vec<u32>> = RefCell::new(Vec::new());
}

struct E {
  id: usize,
  val: i64,
}
impl Drop for E {
  fn drop(&mut self) {
    DROPS.with(|d| {
      let mut d = d.borrow_mut();
      if self.id < d.len() {
        d[self.id] += 1;
      }
    })
  }
}
fn fresh(val: i64) -> E {
  let id = DROPS.with(|d| {
    let mut d = d.borrow_mut();
    d.push(0);
    d.len() - 1
  });
  E { id, val }
}
fn reset() {
  DROPS.with(|d| d.borrow_mut().clear());
}
fn drops() -> Vec<u32> {
  DROPS.with(|d| d.borrow().clone())
}
fn show(v: &[E]) -> Vec<(usize, i64)> {
  v.iter().map(|e| (e.id, e.val)).collect()
}

/// what one callback invocation does to the element it is handed, before it answers
/// 0: reads it; 1: `*x = fresh`; 2: swaps it with a value the closure owns; 3: changes it in place
fn act(x: &mut E, a: u32, owned: &mut E) {
  match a {
    1 => *x = fresh(x.val + 100),
    2 => core::mem::swap(x, owned),
    3 => x.val += 1000,
    _ => {}
  }
}

#[derive(Debug, PartialEq)]
struct Outcome {
  yields: Vec<(usize, i64)>,
  contents: Vec<(usize, i64)>,
  drops: Vec<u32>,
}

/// the script: for the k-th callback invocation, digit k of `code` in base `base`
fn digit(code: u64, k: usize, base: u64) -> u32 {
  ((code / base.pow(k as u32)) % base) as u32
}

// ---------- drain_filter ----------
/// `pk`: the predicate call (0-based) that panics AFTER it has done what the script says to its argument (usize::MAX: none).
/// The element it was looking at stays in the vector as the predicate left it, and so does everything behind it; the
/// iterator's drop then only closes the gap.
fn df_reference(n: usize, code: u64, take: usize, pk: usize) -> Outcome {
  reset();
  let mut v: Vec<E> = (0..n as i64).map(fresh).collect();
  let mut owned = fresh(-1);
  let mut yields: Vec<E> = Vec::new();
  let mut kept: Vec<E> = Vec::new();
  let mut calls = 0usize;
  let mut stopped = false;
  for mut e in v.drain(..) {
    if stopped {
      kept.push(e);
      continue;
    }
    let d = digit(code, calls, 8);
    let this_call = calls;
    calls += 1;
    act(&mut e, d % 4, &mut owned);
    if this_call == pk {
      stopped = true;
      kept.push(e);
      continue;
    }
    if d / 4 == 1 {
      if yields.len() < take {
        yields.push(e); // handed to the caller, who keeps it until the end
      } else {
        drop(e); // accepted while the iterator is being dropped: destroyed there
      }
    } else {
      kept.push(e);
    }
  }
  let out_y = show(&yields);
  let out_c = show(&kept);
  drop(yields);
  drop(kept);
  drop(owned);
  drop(v);
  Outcome { yields: out_y, contents: out_c, drops: drops() }
}
fn df_minivec(n: usize, code: u64, take: usize, pk: usize) -> Outcome {
  reset();
  let mut v: MiniVec<E> = MiniVec::new();
  for i in 0..n as i64 {
    v.push(fresh(i));
  }
  let mut owned = fresh(-1);
  let mut yields: Vec<E> = Vec::new();
  {
    let mut calls = 0usize;
    let owned_ref = &mut owned;
    let yields_ref = &mut yields;
    let vref = &mut v;
    let _ = std::panic::catch_unwind(std::panic::AssertUnwindSafe(move || {
      let mut it = vref.drain_filter(|x: &mut E| {
        let d = digit(code, calls, 8);
        let this_call = calls;
        calls += 1;
        act(x, d % 4, owned_ref);
        if this_call == pk {
          panic!("scripted predicate panic");
        }
        d / 4 == 1
      });
      while yields_ref.len() < take {
        match it.next() {
          Some(e) => yields_ref.push(e),
          None => break,
        }
      }
      drop(it);
    }));
  }
  let out_y = show(&yields);
  let out_c = show(&v);
  drop(yields);
  drop(v);
  drop(owned);
  Outcome { yields: out_y, contents: out_c, drops: drops() }
}

// ---------- dedup_by ----------
/// digit: answer = d / 5; d % 5: 0 nothing, 1 replace the current element, 2 replace the previous kept one,
/// 3 swap the two, 4 change both in place
fn dd_cb(a: &mut E, b: &mut E, d: u32) -> bool {
  match d % 5 {
    1 => *a = fresh(a.val + 100),
    2 => *b = fresh(b.val + 200),
    3 => core::mem::swap(a, b),
    4 => {
      a.val += 1000;
      b.val += 2000;
    }
    _ => {}
  }
  d / 5 == 1
}
fn dd_reference(n: usize, code: u64) -> Outcome {
  reset();
  let mut v: Vec<E> = (0..n as i64).map(fresh).collect();
  let mut calls = 0usize;
  v.dedup_by(|a, b| {
    let d = digit(code, calls, 10);
    calls += 1;
    dd_cb(a, b, d)
  });
  let out_c = show(&v);
  drop(v);
  Outcome { yields: vec![], contents: out_c, drops: drops() }
}
fn dd_minivec(n: usize, code: u64) -> Outcome {
  reset();
  let mut v: MiniVec<E> = MiniVec::new();
  for i in 0..n as i64 {
    v.push(fresh(i));
  }
  let mut calls = 0usize;
  v.dedup_by(|a, b| {
    let d = digit(code, calls, 10);
    calls += 1;
    dd_cb(a, b, d)
  });
  let out_c = show(&v);
  drop(v);
  Outcome { yields: vec![], contents: out_c, drops: drops() }
}

// ---------- dedup_by_key ----------
/// digit: key = d / 3; d % 3: 0 nothing, 1 replace the element, 2 change it in place
fn dk_cb(x: &mut E, d: u32) -> u32 {
  match d % 3 {
    1 => *x = fresh(x.val + 100),
    2 => x.val += 1000,
    _ => {}
  }
  d / 3
}
fn dk_reference(n: usize, code: u64) -> Outcome {
  reset();
  let mut v: Vec<E> = (0..n as i64).map(fresh).collect();
  let mut calls = 0usize;
  v.dedup_by_key(|x| {
    let d = digit(code, calls, 6);
    calls += 1;
    dk_cb(x, d)
  });
  let out_c = show(&v);
  drop(v);
  Outcome { yields: vec![], contents: out_c, drops: drops() }
}
fn dk_minivec(n: usize, code: u64) -> Outcome {
  reset();
  let mut v: MiniVec<E> = MiniVec::new();
  for i in 0..n as i64 {
    v.push(fresh(i));
  }
  let mut calls = 0usize;
  v.dedup_by_key(|x| {
    let d = digit(code, calls, 6);
    calls += 1;
    dk_cb(x, d)
  });
  let out_c = show(&v);
  drop(v);
  Outcome { yields: vec![], contents: out_c, drops: drops() }
}


// ---------- elements without drop glue, equality that answers by script ----------
// `P` is neither `Copy` nor `Drop`: a vector holding the same `P` twice has duplicated a value it was given once.
// Its `==` / `!=` answer by script (one digit per call), so `dedup`, `dedup_by`, `dedup_by_key`, `retain` and
// `remove_item` see a relation that is inconsistent between calls. The contents are then unspecified, but they are
// distinct elements of the original vector, in their original order.
thread_local! {
  static EQ_SCRIPT: Cell<(u64, u32)> = Cell::new((0, 0));
}
struct P {
  id: usize,
}
fn eq_answer() -> bool {
  EQ_SCRIPT.with(|c| {
    let (code, k) = c.get();
    c.set((code, k + 1));
    (code >> (k % 64)) & 1 == 1
  })
}
impl PartialEq for P {
  fn eq(&self, _o: &P) -> bool {
    eq_answer()
  }
  #[allow(clippy::partialeq_ne_impl)]
  fn ne(&self, _o: &P) -> bool {
    eq_answer()
  }
}
fn plain(total: &mut u64, bad: &mut u64) {
  for n in 0..=5usize {
    for code in 0..(1u64 << (2 * n).min(10)) {
      for which in 0..4 {
        let mut v: MiniVec<P> = MiniVec::new();
        for id in 0..n {
          v.push(P { id });
        }
        EQ_SCRIPT.with(|c| c.set((code, 0)));
        let name = ["dedup", "dedup_by", "remove_item", "retain"][which];
        match which {
          0 => v.dedup(),
          1 => v.dedup_by(|a, b| a == b),
          2 => {
            let _ = v.remove_item(&P { id: 99 });
          }
          _ => v.retain(|x| *x == P { id: 98 }),
        }
        *total += 1;
        let ids: Vec<usize> = if v.len() <= v.capacity() { v.iter().map(|p| p.id).collect() } else { vec![usize::MAX] };
        let ok = ids.windows(2).all(|w| w[0] < w[1]) && ids.iter().all(|i| *i < n);
        if !ok {
          *bad += 1;
          if *bad <= 40 {
            println!("MISMATCH {} plain-data n={} equality-script={:b} :: the vector of the distinct elements 0..{} now holds {:?} (an element twice, out of order, or one that was never in it)", name, n, code, n, ids);
          }
        }
        core::mem::forget(v); // no drop glue: nothing to run; a corrupted length must not be walked
      }
    }
  }
}

fn report(name: &str, r: &Outcome, m: &Outcome, total: &mut u64, bad: &mut u64) {
  *total += 1;
  let once = m.drops.iter().all(|&c| c == 1);
  if r != m || !once {
    *bad += 1;
    if *bad <= 40 {
      println!(
        "MISMATCH {} :: reference yields {:?} contents {:?} destructor runs {:?} / MiniVec yields {:?} contents {:?} destructor runs {:?}",
        name, r.yields, r.contents, r.drops, m.yields, m.contents, m.drops
      );
    }
  }
}

pub fn run() -> i32 {
  std::panic::set_hook(Box::new(|_| {}));
  let (mut total, mut bad) = (0u64, 0u64);
  // drain_filter: n elements, one script digit per predicate call (n calls), `take` elements consumed before the drop
  for n in 0..=4usize {
    for code in 0..8u64.pow(n as u32) {
      for take in [0usize, 1, 2, 9] {
        // without a panic, and with the predicate panicking (after its write) at each of its calls
        for pk in std::iter::once(usize::MAX).chain(0..n) {
          let r = df_reference(n, code, take, pk);
          let m = df_minivec(n, code, take, pk);
          report(&format!("drain_filter n={} script={:o} take={} predicate-panics-at-call={}", n, code, take, if pk == usize::MAX { -1 } else { pk as i64 }),
                 &r, &m, &mut total, &mut bad);
        }
      }
    }
  }
  // dedup_by: n elements, n - 1 callback invocations
  for n in 0..=4usize {
    let calls = n.saturating_sub(1);
    for code in 0..10u64.pow(calls as u32) {
      let r = dd_reference(n, code);
      let m = dd_minivec(n, code);
      report(&format!("dedup_by n={} script={}", n, code), &r, &m, &mut total, &mut bad);
    }
  }
  // dedup_by_key: n elements, 2 (n - 1) key invocations
  for n in 0..=4usize {
    let calls = 2 * n.saturating_sub(1);
    for code in 0..6u64.pow(calls as u32) {
      let r = dk_reference(n, code);
      let m = dk_minivec(n, code);
      report(&format!("dedup_by_key n={} script={}", n, code), &r, &m, &mut total, &mut bad);
    }
  }
  plain(&mut total, &mut bad);
  println!("MUTCB {} {}", total, bad);
  if bad == 0 { 0 } else { 1 }
}

// ---------- `--shifty`: arguments that do not sit still, and elements wider than a page ----------
//
// (1) `drain` / `splice` take any `RangeBounds<usize>`; the trait does not promise that `start_bound()` / `end_bound()`
// answer the same thing twice. Whatever is validated must be what is used: for every scripted pair of answer sequences
// the outcome on the `MiniVec` (panic or not, what is yielded, what the vector holds, destructor runs) must be the
// outcome `Vec` produces for ONE (start answer, end answer) pair out of the answers given — any pair, so an
// implementation is free to ask more than once as long as it validates what it uses.
// (2) growth: element types of 1 byte up to 70 000 bytes; after every push `len() <= capacity()`, the contents are the
// `Vec`'s, `reserve(k)` returns with `capacity() >= len() + k`.
use core::ops::{Bound, RangeBounds};

struct Shifty {
  starts: [Bound<usize>; 2],
  ends: [Bound<usize>; 2],
  s: Cell<usize>,
  e: Cell<usize>,
}
fn as_ref(b: &Bound<usize>) -> Bound<&usize> {
  match b {
    Bound::Included(n) => Bound::Included(n),
    Bound::Excluded(n) => Bound::Excluded(n),
    Bound::Unbounded => Bound::Unbounded,
  }
}
impl RangeBounds<usize> for Shifty {
  fn start_bound(&self) -> Bound<&usize> {
    let k = self.s.get();
    self.s.set(k + 1);
    as_ref(&self.starts[k.min(1)])
  }
  fn end_bound(&self) -> Bound<&usize> {
    let k = self.e.get();
    self.e.set(k + 1);
    as_ref(&self.ends[k.min(1)])
  }
}

#[derive(Debug, PartialEq)]
struct ROutcome {
  panicked: bool,
  yields: Vec<(usize, i64)>,
  contents: Vec<(usize, i64)>,
  drops: Vec<u32>,
}

/// ids are allocated in the same order on both sides: n elements, then `repl` replacements
fn range_reference(n: usize, s: Bound<usize>, e: Bound<usize>, splice: bool, consume: bool) -> ROutcome {
  reset();
  let mut v: Vec<E> = Vec::with_capacity(n);
  for i in 0..n as i64 {
    v.push(fresh(i));
  }
  let repl: Vec<E> = if splice { vec![fresh(70), fresh(71), fresh(72)] } else { vec![] };
  let mut yields: Vec<E> = Vec::new();
  let panicked = {
    let vref = &mut v;
    let yref = &mut yields;
    std::panic::catch_unwind(std::panic::AssertUnwindSafe(move || {
      if splice {
        let mut it = vref.splice((s, e), repl);
        if consume {
          for x in &mut it {
            yref.push(x);
          }
        }
      } else {
        let mut it = vref.drain((s, e));
        if consume {
          for x in &mut it {
            yref.push(x);
          }
        }
      }
    }))
    .is_err()
  };
  let out_y = show(&yields);
  let out_c = show(&v);
  drop(yields);
  drop(v);
  ROutcome { panicked, yields: out_y, contents: out_c, drops: drops() }
}
fn range_minivec(n: usize, r: Shifty, splice: bool, consume: bool) -> ROutcome {
  reset();
  let mut v: MiniVec<E> = MiniVec::with_capacity(n);
  for i in 0..n as i64 {
    v.push(fresh(i));
  }
  let repl: Vec<E> = if splice { vec![fresh(70), fresh(71), fresh(72)] } else { vec![] };
  let mut yields: Vec<E> = Vec::new();
  let panicked = {
    let vref = &mut v;
    let yref = &mut yields;
    std::panic::catch_unwind(std::panic::AssertUnwindSafe(move || {
      if splice {
        let mut it = vref.splice(r, repl);
        if consume {
          for x in &mut it {
            yref.push(x);
          }
        }
      } else {
        let mut it = vref.drain(r);
        if consume {
          for x in &mut it {
            yref.push(x);
          }
        }
      }
    }))
    .is_err()
  };
  let out_y = show(&yields);
  let out_c = if v.len() <= v.capacity() { show(&v) } else { vec![(usize::MAX, v.len() as i64)] };
  if v.len() > v.capacity() {
    // the block does not hold what the length claims: do not walk it
    core::mem::forget(v);
  } else {
    drop(v);
  }
  drop(yields);
  ROutcome { panicked, yields: out_y, contents: out_c, drops: drops() }
}

fn bound_options(n: usize) -> Vec<Bound<usize>> {
  let mut o = vec![Bound::Unbounded, Bound::Included(0), Bound::Excluded(n), Bound::Excluded(n + 2), Bound::Included(1)];
  if n > 2 {
    o.push(Bound::Excluded(n - 2));
  }
  o
}

fn growth<const N: usize>(total: &mut u64, bad: &mut u64) {
  println!("SCEN growth elem-bytes={}", N);
  let mut fail = |what: String| {
    *bad += 1;
    println!("MISMATCH growth elem-bytes={} :: {}", N, what);
  };
  *total += 1;
  let mut v: MiniVec<[u8; N]> = MiniVec::new();
  let mut r: Vec<[u8; N]> = Vec::new();
  for i in 0..7u8 {
    let mut x = [i; N];
    x[N - 1] = i.wrapping_mul(3);
    if v.len() == v.capacity() {
      // what the next push is about to ask of the growth policy
      let before = v.capacity();
      v.reserve(1);
      if v.capacity() <= before {
        fail(format!("reserve(1) on a full vector of capacity {} left capacity {}", before, v.capacity()));
        return;
      }
    }
    v.push(x);
    r.push(x);
    if v.len() > v.capacity() {
      fail(format!("after {} pushes len {} > capacity {}", i + 1, v.len(), v.capacity()));
      core::mem::forget(v);
      return;
    }
    if v.as_slice() != r.as_slice() {
      fail(format!("after {} pushes the contents differ from Vec's", i + 1));
      return;
    }
  }
  // the same without the reserve in front: push alone has to make room
  let mut w: MiniVec<[u8; N]> = MiniVec::with_capacity(1);
  for i in 0..5u8 {
    let cap = w.capacity();
    if w.len() == cap {
      // predicted by the public contract only: after the push there must be room for it
    }
    w.push([i; N]);
    if w.len() > w.capacity() {
      fail(format!("with_capacity(1) then {} pushes: len {} > capacity {}", i + 1, w.len(), w.capacity()));
      core::mem::forget(w);
      return;
    }
  }
  if w.iter().enumerate().any(|(i, x)| x[0] != i as u8 || x[N - 1] != i as u8) {
    fail("with_capacity(1) then 5 pushes: contents differ".to_string());
  }
}

pub fn run_shifty() -> i32 {
  std::panic::set_hook(Box::new(|_| {}));
  let (mut total, mut bad) = (0u64, 0u64);
  growth::<1>(&mut total, &mut bad);
  growth::<24>(&mut total, &mut bad);
  growth::<1024>(&mut total, &mut bad);
  growth::<1025>(&mut total, &mut bad);
  growth::<4096>(&mut total, &mut bad);
  growth::<4097>(&mut total, &mut bad);
  growth::<5000>(&mut total, &mut bad);
  growth::<70000>(&mut total, &mut bad);
  'outer: for n in [0usize, 3, 8] {
    let opts = bound_options(n);
    for splice in [false, true] {
      for consume in [true, false] {
        for s0 in &opts {
          for s1 in &opts {
            for e0 in &opts {
              for e1 in &opts {
                let name = format!("{} n={} start-answers=[{:?},{:?}] end-answers=[{:?},{:?}] consume={}",
                                   if splice { "splice" } else { "drain" }, n, s0, s1, e0, e1, consume);
                println!("SCEN {}", name);
                total += 1;
                let m = range_minivec(n, Shifty { starts: [*s0, *s1], ends: [*e0, *e1], s: Cell::new(0), e: Cell::new(0) }, splice, consume);
                let mut ok = false;
                let mut refs = Vec::new();
                for s in [s0, s1] {
                  for e in [e0, e1] {
                    let r = range_reference(n, *s, *e, splice, consume);
                    if r == m {
                      ok = true;
                    }
                    refs.push(r);
                  }
                }
                // whoever panicked may have leaked (a destructor count of 0 is fine then); nobody is dropped twice
                let once = m.drops.iter().all(|&c| c == 1 || (m.panicked && c == 0));
                if !ok && m.panicked && refs.iter().any(|r| r.panicked) {
                  // a refusal is a refusal: which elements a refused call leaks is not compared
                  ok = m.contents == refs.iter().find(|r| r.panicked).unwrap().contents;
                }
                if !ok || !once {
                  bad += 1;
                  println!("MISMATCH {} :: MiniVec {:?} / Vec on the first answers {:?}", name, m, refs[0]);
                  if bad >= 8 {
                    break 'outer;
                  }
                }
              }
            }
          }
        }
      }
    }
  }
  println!("SHIFTY {} {}", total, bad);
  if bad == 0 { 0 } else { 1 }
}

//! `harness --mutcb`: callbacks that receive `&mut T` and WRITE through it — replace the element, swap it with a value
//! the closure owns, change it in place — in `drain_filter`, `dedup_by` and `dedup_by_key`.
//!
//! The register protocol's predicates only read their argument; this battery is the tie for the other half of the
//! `&mut T` contract. Every scenario runs the same scripted callback on a `MiniVec` and on the reference (`std::Vec`
//! for the two `dedup`s; a ten-line loop for `drain_filter`, whose drop — unlike `Vec::extract_if`'s — goes on
//! filtering), and compares: what is yielded, what the vector holds afterwards (identity and value), and how often
//! every element's destructor ran once everything has been dropped (exactly once each).
//!
//! Output: one line `MISMATCH <scenario> :: <what>` per disagreement, then `MUTCB <scenarios> <mismatches>`.
use minivec::MiniVec;
use std::cell::RefCell;

thread_local! {
  static DROPS: RefCell<Vec<u32>> = RefCell::new(Vec::new());
}

struct E {
  id: usize,
  val: i64,
}
impl Drop for E {
  fn drop(&mut self) {
    DROPS.with(|d| {
      let mut d = d.borrow_mut();
      if self.id < d.len() {
        d[self.id] += 1;
      }
    })
  }
}
fn fresh(val: i64) -> E {
  let id = DROPS.with(|d| {
    let mut d = d.borrow_mut();
    d.push(0);
    d.len() - 1
  });
  E { id, val }
}
fn reset() {
  DROPS.with(|d| d.borrow_mut().clear());
}
fn drops() -> Vec<u32> {
  DROPS.with(|d| d.borrow().clone())
}
fn show(v: &[E]) -> Vec<(usize, i64)> {
  v.iter().map(|e| (e.id, e.val)).collect()
}

/// what one callback invocation does to the element it is handed, before it answers
/// 0: reads it; 1: `*x = fresh`; 2: swaps it with a value the closure owns; 3: changes it in place
fn act(x: &mut E, a: u32, owned: &mut E) {
  match a {
    1 => *x = fresh(x.val + 100),
    2 => core::mem::swap(x, owned),
    3 => x.val += 1000,
    _ => {}
  }
}

#[derive(Debug, PartialEq)]
struct Outcome {
  yields: Vec<(usize, i64)>,
  contents: Vec<(usize, i64)>,
  drops: Vec<u32>,
}

/// the script: for the k-th callback invocation, digit k of `code` in base `base`
fn digit(code: u64, k: usize, base: u64) -> u32 {
  ((code / base.pow(k as u32)) % base) as u32
}

// ---------- drain_filter ----------
/// `pk`: the predicate call (0-based) that panics AFTER it has done what the script says to its argument (usize::MAX: none).
/// The element it was looking at stays in the vector as the predicate left it, and so does everything behind it; the
/// iterator's drop then only closes the gap.
fn df_reference(n: usize, code: u64, take: usize, pk: usize) -> Outcome {
  reset();
  let mut v: Vec<E> = (0..n as i64).map(fresh).collect();
  let mut owned = fresh(-1);
  let mut yields: Vec<E> = Vec::new();
  let mut kept: Vec<E> = Vec::new();
  let mut calls = 0usize;
  let mut stopped = false;
  for mut e in v.drain(..) {
    if stopped {
      kept.push(e);
      continue;
    }
    let d = digit(code, calls, 8);
    let this_call = calls;
    calls += 1;
    act(&mut e, d % 4, &mut owned);
    if this_call == pk {
      stopped = true;
      kept.push(e);
      continue;
    }
    if d / 4 == 1 {
      if yields.len() < take {
        yields.push(e); // handed to the caller, who keeps it until the end
      } else {
        drop(e); // accepted while the iterator is being dropped: destroyed there
      }
    } else {
      kept.push(e);
    }
  }
  let out_y = show(&yields);
  let out_c = show(&kept);
  drop(yields);
  drop(kept);
  drop(owned);
  drop(v);
  Outcome { yields: out_y, contents: out_c, drops: drops() }
}
fn df_minivec(n: usize, code: u64, take: usize, pk: usize) -> Outcome {
  reset();
  let mut v: MiniVec<E> = MiniVec::new();
  for i in 0..n as i64 {
    v.push(fresh(i));
  }
  let mut owned = fresh(-1);
  let mut yields: Vec<E> = Vec::new();
  {
    let mut calls = 0usize;
    let owned_ref = &mut owned;
    let yields_ref = &mut yields;
    let vref = &mut v;
    let _ = std::panic::catch_unwind(std::panic::AssertUnwindSafe(move || {
      let mut it = vref.drain_filter(|x: &mut E| {
        let d = digit(code, calls, 8);
        let this_call = calls;
        calls += 1;
        act(x, d % 4, owned_ref);
        if this_call == pk {
          panic!("scripted predicate panic");
        }
        d / 4 == 1
      });
      while yields_ref.len() < take {
        match it.next() {
          Some(e) => yields_ref.push(e),
          None => break,
        }
      }
      drop(it);
    }));
  }
  let out_y = show(&yields);
  let out_c = show(&v);
  drop(yields);
  drop(v);
  drop(owned);
  Outcome { yields: out_y, contents: out_c, drops: drops() }
}

// ---------- dedup_by ----------
/// digit: answer = d / 5; d % 5: 0 nothing, 1 replace the current element, 2 replace the previous kept one,
/// 3 swap the two, 4 change both in place
fn dd_cb(a: &mut E, b: &mut E, d: u32) -> bool {
  match d % 5 {
    1 => *a = fresh(a.val + 100),
    2 => *b = fresh(b.val + 200),
    3 => core::mem::swap(a, b),
    4 => {
      a.val += 1000;
      b.val += 2000;
    }
    _ => {}
  }
  d / 5 == 1
}
fn dd_reference(n: usize, code: u64) -> Outcome {
  reset();
  let mut v: Vec<E> = (0..n as i64).map(fresh).collect();
  let mut calls = 0usize;
  v.dedup_by(|a, b| {
    let d = digit(code, calls, 10);
    calls += 1;
    dd_cb(a, b, d)
  });
  let out_c = show(&v);
  drop(v);
  Outcome { yields: vec![], contents: out_c, drops: drops() }
}
fn dd_minivec(n: usize, code: u64) -> Outcome {
  reset();
  let mut v: MiniVec<E> = MiniVec::new();
  for i in 0..n as i64 {
    v.push(fresh(i));
  }
  let mut calls = 0usize;
  v.dedup_by(|a, b| {
    let d = digit(code, calls, 10);
    calls += 1;
    dd_cb(a, b, d)
  });
  let out_c = show(&v);
  drop(v);
  Outcome { yields: vec![], contents: out_c, drops: drops() }
}

// ---------- dedup_by_key ----------
/// digit: key = d / 3; d % 3: 0 nothing, 1 replace the element, 2 change it in place
fn dk_cb(x: &mut E, d: u32) -> u32 {
  match d % 3 {
    1 => *x = fresh(x.val + 100),
    2 => x.val += 1000,
    _ => {}
  }
  d / 3
}
fn dk_reference(n: usize, code: u64) -> Outcome {
  reset();
  let mut v: Vec<E> = (0..n as i64).map(fresh).collect();
  let mut calls = 0usize;
  v.dedup_by_key(|x| {
    let d = digit(code, calls, 6);
    calls += 1;
    dk_cb(x, d)
  });
  let out_c = show(&v);
  drop(v);
  Outcome { yields: vec![], contents: out_c, drops: drops() }
}
fn dk_minivec(n: usize, code: u64) -> Outcome {
  reset();
  let mut v: MiniVec<E> = MiniVec::new();
  for i in 0..n as i64 {
    v.push(fresh(i));
  }
  let mut calls = 0usize;
  v.dedup_by_key(|x| {
    let d = digit(code, calls, 6);
    calls += 1;
    dk_cb(x, d)
  });
  let out_c = show(&v);
  drop(v);
  Outcome { yields: vec![], contents: out_c, drops: drops() }
}

fn report(name: &str, r: &Outcome, m: &Outcome, total: &mut u64, bad: &mut u64) {
  *total += 1;
  let once = m.drops.iter().all(|&c| c == 1);
  if r != m || !once {
    *bad += 1;
    if *bad <= 40 {
      println!(
        "MISMATCH {} :: reference yields {:?} contents {:?} destructor runs {:?} / MiniVec yields {:?} contents {:?} destructor runs {:?}",
        name, r.yields, r.contents, r.drops, m.yields, m.contents, m.drops
      );
    }
  }
}

pub fn run() -> i32 {
  std::panic::set_hook(Box::new(|_| {}));
  let (mut total, mut bad) = (0u64, 0u64);
  // drain_filter: n elements, one script digit per predicate call (n calls), `take` elements consumed before the drop
  for n in 0..=4usize {
    for code in 0..8u64.pow(n as u32) {
      for take in [0usize, 1, 2, 9] {
        // without a panic, and with the predicate panicking (after its write) at each of its calls
        for pk in std::iter::once(usize::MAX).chain(0..n) {
          let r = df_reference(n, code, take, pk);
          let m = df_minivec(n, code, take, pk);
          report(&format!("drain_filter n={} script={:o} take={} predicate-panics-at-call={}", n, code, take, if pk == usize::MAX { -1 } else { pk as i64 }),
                 &r, &m, &mut total, &mut bad);
        }
      }
    }
  }
  // dedup_by: n elements, n - 1 callback invocations
  for n in 0..=4usize {
    let calls = n.saturating_sub(1);
    for code in 0..10u64.pow(calls as u32) {
      let r = dd_reference(n, code);
      let m = dd_minivec(n, code);
      report(&format!("dedup_by n={} script={}", n, code), &r, &m, &mut total, &mut bad);
    }
  }
  // dedup_by_key: n elements, 2 (n - 1) key invocations
  for n in 0..=4usize {
    let calls = 2 * n.saturating_sub(1);
    for code in 0..6u64.pow(calls as u32) {
      let r = dk_reference(n, code);
      let m = dk_minivec(n, code);
      report(&format!("dedup_by_key n={} script={}", n, code), &r, &m, &mut total, &mut bad);
    }
  }
  println!("MUTCB {} {}", total, bad);
  if bad == 0 { 0 } else { 1 }
}

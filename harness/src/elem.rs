//! Element classes, side table (id -> val), ledger, callback counter / panic injection.
#![allow(static_mut_refs)]

use crate::alloc::WINDOW;

pub const MAXID: usize = 65536;
// ledger states
pub const NONE: u8 = 0;
pub const LIVE: u8 = 1;
pub const DEAD: u8 = 2;
pub const YIELDED: u8 = 3;

pub static mut VAL: [i64; MAXID] = [0; MAXID];
pub static mut STATE: [u8; MAXID] = [0; MAXID];
pub static mut NEXT_ID: u32 = 1;
pub static mut ID_LIMIT: u32 = MAXID as u32; // 255 for b1
pub static mut IN_OP: bool = false;
pub static mut ORACLE_MODE: bool = false; // comparisons made by the harness' own oracles
pub static mut CB_COUNT: u64 = 0;
pub static mut PANIC_AT: u64 = 0;
pub static mut INJECTED: bool = false;
pub static mut LEDGER_HITS: u32 = 0;
pub static mut EQ_SCRIPT: Vec<bool> = Vec::new();
pub static mut EQ_POS: usize = 0;

pub fn ledger(args: core::fmt::Arguments) {
  unsafe { LEDGER_HITS += 1 };
  crate::tp!("O ledger ");
  crate::trace::emit(args);
}

pub fn known(id: u32) -> bool {
  (id as usize) < MAXID && unsafe { STATE[id as usize] } != NONE
}
pub fn state(id: u32) -> u8 {
  if (id as usize) < MAXID { unsafe { STATE[id as usize] } } else { NONE }
}
pub fn val_of(id: u32) -> i64 {
  if known(id) { unsafe { VAL[id as usize] } } else { 0 }
}

/// hand out a fresh id (not a callback)
pub fn new_id(val: i64) -> u32 {
  unsafe {
    if NEXT_ID >= ID_LIMIT {
      ledger(format_args!("id-overflow next={}", NEXT_ID));
      crate::trace::flush();
      libc::_exit(3);
    }
    let id = NEXT_ID;
    NEXT_ID += 1;
    VAL[id as usize] = val;
    STATE[id as usize] = LIVE;
    id
  }
}

/// Count one callback invocation (only inside an operation). Returns true if this
/// invocation must panic; the caller then calls `inject()` at the right moment.
pub fn callback() -> bool {
  unsafe {
    WINDOW = false;
    if !IN_OP || ORACLE_MODE {
      return false;
    }
    CB_COUNT += 1;
    PANIC_AT != 0 && CB_COUNT == PANIC_AT
  }
}

pub fn inject() -> ! {
  unsafe { INJECTED = true };
  crate::tl!("~inj");
  panic!();
}

pub fn cb_clone(src: u32) -> u32 {
  if callback() {
    inject();
  }
  if !known(src) {
    ledger(format_args!("garbage clone-src raw={}", src));
  } else if state(src) != LIVE {
    ledger(format_args!("use-after-destroy clone-src id={}", src));
  }
  let id = new_id(val_of(src));
  crate::tl!("C {} {}", src, id);
  id
}

pub fn cb_drop(id: u32) {
  unsafe {
    if !IN_OP {
      // caller-side destruction: silent, not a callback
      if known(id) && STATE[id as usize] == LIVE {
        STATE[id as usize] = DEAD;
      } else if known(id) && STATE[id as usize] == DEAD {
        ledger(format_args!("double-drop id={} (outside op)", id));
      } else if !known(id) {
        ledger(format_args!("garbage drop raw={} (outside op)", id));
      }
      return;
    }
  }
  let boom = callback();
  crate::tl!("D {}", id);
  match state(id) {
    LIVE => unsafe { STATE[id as usize] = DEAD },
    DEAD => ledger(format_args!("double-drop id={}", id)),
    YIELDED => ledger(format_args!("drop-after-yield id={}", id)),
    _ => ledger(format_args!("garbage drop raw={}", id)),
  }
  if boom {
    inject();
  }
}

fn check_read(id: u32, what: &str) {
  if !known(id) {
    ledger(format_args!("garbage {} raw={}", what, id));
  } else if state(id) != LIVE {
    ledger(format_args!("use-after-destroy {} id={}", what, id));
  }
}

pub fn cb_eq(a: u32, b: u32) -> bool {
  if unsafe { ORACLE_MODE } {
    return val_of(a) == val_of(b);
  }
  if callback() {
    inject();
  }
  check_read(a, "eq");
  check_read(b, "eq");
  unsafe {
    if EQ_POS < EQ_SCRIPT.len() {
      EQ_POS += 1;
      return EQ_SCRIPT[EQ_POS - 1];
    }
  }
  val_of(a) == val_of(b)
}

pub fn cb_cmp(a: u32, b: u32) -> core::cmp::Ordering {
  if !unsafe { ORACLE_MODE } {
    if callback() {
      inject();
    }
    check_read(a, "cmp");
    check_read(b, "cmp");
  }
  val_of(a).cmp(&val_of(b))
}

pub fn cb_hash(a: u32) -> i64 {
  if !unsafe { ORACLE_MODE } {
    if callback() {
      inject();
    }
    check_read(a, "hash");
  }
  val_of(a)
}

pub trait El:
  Sized + Clone + PartialEq + PartialOrd + Ord + core::hash::Hash + serde::Serialize + serde::de::DeserializeOwned + 'static
{
  const NAME: &'static str;
  const DROPS: bool;
  fn mk(id: u32) -> Self;
  fn id(&self) -> u32;
  /// read the id bits at `p` without creating an element value
  unsafe fn raw_id(p: *const Self) -> u32;
  fn new(val: i64) -> Self {
    Self::mk(new_id(val))
  }
}

//! Parent side: fork one child per case, collect its trace/stderr, classify the outcome.
use crate::Case;
use std::time::{Duration, Instant};

pub enum Outcome {
  Exit(i32),
  Signal(i32),
  Timeout,
}

unsafe fn drain_fd(fd: i32, buf: &mut Vec<u8>) -> bool {
  // returns false on EOF
  let mut tmp = [0u8; 65536];
  let n = libc::read(fd, tmp.as_mut_ptr() as *mut libc::c_void, tmp.len());
  if n > 0 {
    buf.extend_from_slice(&tmp[..n as usize]);
    true
  } else {
    n < 0 && *libc::__errno_location() == libc::EINTR
  }
}

/// run `f` in a forked child; returns (trace bytes, stderr bytes, outcome)
pub fn fork_run(timeout_ms: u64, f: impl FnOnce()) -> (Vec<u8>, Vec<u8>, Outcome) {
  unsafe {
    let mut tp = [0i32; 2];
    let mut ep = [0i32; 2];
    assert!(libc::pipe(tp.as_mut_ptr()) == 0 && libc::pipe(ep.as_mut_ptr()) == 0);
    let pid = libc::fork();
    assert!(pid >= 0, "fork failed");
    if pid == 0 {
      libc::close(tp[0]);
      libc::close(ep[0]);
      libc::dup2(ep[1], 2);
      crate::trace::TRACE_FD = tp[1];
      std::env::set_var("RUST_BACKTRACE", "0");
      f();
      crate::trace::flush();
      libc::_exit(0);
    }
    libc::close(tp[1]);
    libc::close(ep[1]);
    let (mut trace, mut err) = (Vec::new(), Vec::new());
    let deadline = Instant::now() + Duration::from_millis(timeout_ms);
    let mut open = [true, true];
    let mut timed_out = false;
    while open[0] || open[1] {
      let now = Instant::now();
      if now >= deadline {
        timed_out = true;
        break;
      }
      let mut fds = [
        libc::pollfd { fd: if open[0] { tp[0] } else { -1 }, events: libc::POLLIN, revents: 0 },
        libc::pollfd { fd: if open[1] { ep[0] } else { -1 }, events: libc::POLLIN, revents: 0 },
      ];
      let ms = (deadline - now).as_millis().min(1000) as i32 + 1;
      let r = libc::poll(fds.as_mut_ptr(), 2, ms);
      if r <= 0 {
        continue;
      }
      if open[0] && fds[0].revents != 0 {
        open[0] = drain_fd(tp[0], &mut trace);
      }
      if open[1] && fds[1].revents != 0 {
        open[1] = drain_fd(ep[0], &mut err);
      }
    }
    if timed_out {
      libc::kill(pid, libc::SIGKILL);
    }
    let mut status = 0;
    while libc::waitpid(pid, &mut status, 0) < 0 && *libc::__errno_location() == libc::EINTR {}
    libc::close(tp[0]);
    libc::close(ep[0]);
    let oc = if timed_out {
      Outcome::Timeout
    } else if libc::WIFSIGNALED(status) {
      Outcome::Signal(libc::WTERMSIG(status))
    } else {
      Outcome::Exit(libc::WEXITSTATUS(status))
    };
    (trace, err, oc)
  }
}

/// Sort the `D` lines of each operation segment (`>` .. next `>`): positions of the D lines
/// are kept, their ids are redistributed in ascending order, unless the segment contains the
/// child-internal marker `~inj` (a panic was injected): then execution order. Markers are removed.
pub fn postprocess(trace: &[u8], out: &mut Vec<u8>) {
  let text = String::from_utf8_lossy(trace);
  let mut lines: Vec<String> = text.split('\n').map(|s| s.to_string()).collect();
  if let Some(l) = lines.last() {
    if l.is_empty() {
      lines.pop();
    }
  }
  let mut start = 0;
  while start < lines.len() {
    let mut end = start + 1;
    while end < lines.len() && !lines[end].starts_with("> ") {
      end += 1;
    }
    let seg = &mut lines[start..end];
    if !seg.iter().any(|l| l == "~inj") {
      let pos: Vec<usize> = (0..seg.len()).filter(|&i| seg[i].starts_with("D ")).collect();
      let mut ids: Vec<u64> = pos.iter().map(|&i| seg[i][2..].parse().unwrap_or(u64::MAX)).collect();
      ids.sort();
      for (k, &i) in pos.iter().enumerate() {
        seg[i] = format!("D {}", ids[k]);
      }
    }
    start = end;
  }
  for l in lines.iter().filter(|l| *l != "~inj") {
    out.extend_from_slice(l.as_bytes());
    out.push(b'\n');
  }
}

pub fn run_case_forked(c: &Case, timeout_ms: u64, out: &mut Vec<u8>) {
  out.extend_from_slice(format!("#case {}\n", c.name).as_bytes());
  if let Some(e) = &c.err {
    out.extend_from_slice(format!("O bad-case {}\n#end\n", e).as_bytes());
    return;
  }
  if c.mode != crate::my_mode() {
    out.extend_from_slice(format!("O mode-mismatch case={} harness={}\n#end\n", c.mode, crate::my_mode()).as_bytes());
    return;
  }
  let (trace, err, oc) = fork_run(timeout_ms, || crate::interp::run_case(c));
  postprocess(&trace, out);
  if std::env::var_os("HARNESS_STDERR").is_some() && !err.is_empty() {
    eprintln!("[{}] child stderr: {}", c.name, String::from_utf8_lossy(&err));
  }
  let mut put = |s: String| out.extend_from_slice(s.as_bytes());
  match oc {
    Outcome::Exit(0) => {}
    Outcome::Exit(n) => put(format!("X exit {}\n", n)),
    Outcome::Timeout => put("= hang\nX timeout\n".to_string()),
    Outcome::Signal(6) => {
      if String::from_utf8_lossy(&err).contains("memory allocation of") {
        put("= abort\nX signal 6 allocfail\n".to_string());
      } else {
        let e: String = String::from_utf8_lossy(&err).chars().filter(|c| !c.is_control()).take(160).collect();
        put(format!("= abort-other\nX signal 6 stderr={}\n", e));
      }
    }
    Outcome::Signal(n) => put(format!("X signal {}\n", n)),
  }
  put("#end\n".to_string());
}

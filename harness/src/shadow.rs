//! std::Vec value-level shadow: every register is mirrored by plain `Vec<i64>` / `VecDeque<i64>`
//! state following std's semantics (values only, never ids, never capacities).
#![allow(static_mut_refs)]

use crate::interp::Out;
use crate::script::{self, Gen, It, Key, Pred};
use std::collections::VecDeque;
use std::ops::Bound;

#[derive(Clone)]
pub enum Sh {
  Pending, // unknown: resynchronised from the real vector at the next S line
  Gone,
  Vec(Vec<i64>),
  Drain { src: usize, mid: VecDeque<i64>, tail: Vec<i64> },
  Splice { src: usize, mid: VecDeque<i64>, tail: Vec<i64>, repl: It },
  Filter { src: usize, kept: Vec<i64>, rest: VecDeque<i64>, pred: Pred },
  Into(VecDeque<i64>),
}

const HUGE: usize = 1 << 24;
static mut EQ: (Vec<bool>, usize) = (Vec::new(), 0);

pub fn set_eq_script(s: &[bool]) {
  unsafe { EQ = (s.to_vec(), 0) };
}
fn eq(a: i64, b: i64) -> bool {
  unsafe {
    if EQ.1 < EQ.0.len() {
      EQ.1 += 1;
      return EQ.0[EQ.1 - 1];
    }
  }
  a == b
}

/// std's range resolution for drain / splice / extend_from_within; None = panic
pub fn range(a: Bound<usize>, b: Bound<usize>, len: usize) -> Option<(usize, usize)> {
  let s = match a {
    Bound::Included(n) => n,
    Bound::Excluded(n) => n.checked_add(1)?,
    Bound::Unbounded => 0,
  };
  let e = match b {
    Bound::Included(n) => n.checked_add(1)?,
    Bound::Excluded(n) => n,
    Bound::Unbounded => len,
  };
  if s <= e && e <= len { Some((s, e)) } else { None }
}

pub struct Ctx<'a> {
  pub sh: &'a mut Vec<Sh>,
  pub names: &'a [String],
}
impl<'a> Ctx<'a> {
  pub fn idx(&self, n: &str) -> Option<usize> {
    self.names.iter().position(|x| x == n)
  }
  pub fn vec(&mut self, n: &str) -> Option<&mut Vec<i64>> {
    let i = self.idx(n)?;
    match &mut self.sh[i] {
      Sh::Vec(v) => Some(v),
      _ => None,
    }
  }
  /// store the state of a register the real operation has just created (if it did)
  pub fn put(&mut self, n: &str, s: Sh) {
    if let Some(i) = self.idx(n) {
      if matches!(self.sh[i], Sh::Pending) {
        self.sh[i] = s;
      }
    }
  }
}

pub fn exec(sh: &mut Vec<Sh>, names: &[String], t: &[&str], precap: Option<usize>) -> Out {
  let mut c = Ctx { sh, names };
  run(&mut c, t, precap).unwrap_or(Out::Skip)
}

/// None = no shadow state for this register / operation: no comparison
fn run(c: &mut Ctx, t: &[&str], precap: Option<usize>) -> Option<Out> {
  let op = t[0];
  let r = *t.get(1)?;
  let n2 = t.get(2).and_then(|s| script::num(s));
  // constructors
  let made: Option<Vec<i64>> = match op {
    "new" | "default" | "macro_empty" | "with_capacity" | "with_alignment" => Some(vec![]),
    "from_slice" | "from_mut_slice" | "macro_list" => Some(script::vals(&t[2..])?),
    "collect" => Some(It::parse(t[2])?.until_none()),
    "macro_repeat" => {
      let n = script::num(t[3])?;
      if n > HUGE {
        return None;
      }
      Some(vec![script::val(t[2])?; n])
    }
    _ => None,
  };
  if op == "deserialize" {
    let sq = crate::serde_script::Sq::parse(t[2], t[3])?;
    if sq.until_end().iter().any(|x| x.is_none()) {
      return Some(Out::Text("err".to_string())); // Vec reads to the first `None`: any `E` before it is an error
    }
    c.put(r, Sh::Vec(sq.until_end().iter().flatten().copied().collect()));
    return Some(Out::Unit);
  }
  if let Some(v) = made {
    c.put(r, Sh::Vec(v));
    let huge = matches!(op, "with_capacity" | "with_alignment") && n2.map_or(true, |n| n > HUGE);
    return if huge { None } else { Some(Out::Unit) };
  }
  if let Some(o) = crate::shadow_iter::run(c, t) {
    return o;
  }
  let v = c.vec(r)?;
  let len = v.len();
  Some(match op {
    "push" => {
      v.push(script::val(t[2])?);
      Out::Unit
    }
    "pop" => Out::Opt(v.pop()),
    "insert" => {
      if n2? > len {
        return Some(Out::Panic);
      }
      v.insert(n2?, script::val(t[3])?);
      Out::Unit
    }
    "remove" | "swap_remove" => {
      if n2? >= len {
        return Some(Out::Panic);
      }
      Out::Opt(Some(if op == "remove" { v.remove(n2?) } else { v.swap_remove(n2?) }))
    }
    "truncate" => {
      v.truncate(n2?);
      Out::Unit
    }
    "clear" => {
      v.clear();
      Out::Unit
    }
    "resize" => {
      if n2? > HUGE {
        return None;
      }
      v.resize(n2?, script::val(t[3])?);
      Out::Unit
    }
    "resize_with" => {
      let mut g = Gen::parse(t[3])?;
      if n2? > HUGE {
        return None;
      }
      v.resize_with(n2?, || g.ask());
      Out::Unit
    }
    "extend" => {
      v.extend(It::parse(t[2])?.until_none());
      Out::Unit
    }
    "extend_from_slice" => {
      v.extend(script::vals(&t[2..])?);
      Out::Unit
    }
    "extend_from_within" => match range(script::bound(t[2])?, script::bound(t[3])?, len) {
      Some((s, e)) => {
        v.extend_from_within(s..e);
        Out::Unit
      }
      None => Out::Panic,
    },
    "dedup" => {
      v.dedup_by(|a, b| eq(*a, *b));
      Out::Unit
    }
    "dedup_by" => {
      let mut p = Pred::parse(t[2])?;
      v.dedup_by(|a, b| p.ask2(*a, *b));
      Out::Unit
    }
    "dedup_by_key" => {
      let mut k = Key::parse(t[2])?;
      v.dedup_by(|a, b| k.ask(*a) == k.ask(*b));
      Out::Unit
    }
    "retain" => {
      let mut p = Pred::parse(t[2])?;
      v.retain(|a| p.ask(*a));
      Out::Unit
    }
    "remove_item" => {
      let probe = script::val(t[2])?;
      Out::Opt(v.iter().position(|&x| eq(x, probe)).map(|i| v.remove(i)))
    }
    "reserve" | "reserve_exact" => {
      if n2? > HUGE {
        return None;
      }
      Out::Unit
    }
    // sanctioned divergence: MiniVec panics when asked to shrink to more than its capacity
    "shrink_to" => {
      if n2? > precap? {
        return None;
      }
      Out::Unit
    }
    "serialize" => Out::List(v.clone()),
    "deserialize_in_place" => {
      let mut sq = crate::serde_script::Sq::parse(t[2], t[3])?;
      if crate::serde_script::shadow_in_place(v, &mut sq) { Out::Unit } else { Out::Text("err".to_string()) }
    }
    "shrink_to_fit" | "raw_part" | "views" => Out::Unit,
    "fill_spare" | "fill_split_spare" => {
      let k = crate::script::num(t[2])?;
      let val = crate::script::val(t[3])?;
      let room = precap?.saturating_sub(len);
      let n = k.min(room);
      for i in 0..n {
        v.push(val + i as i64);
      }
      Out::Nums(vec![n as u64])
    }
    "split_spare" | "raw_parts" => Out::Nums(vec![len as u64]),
    _ => return crate::shadow_iter::run2(c, t),
  })
}

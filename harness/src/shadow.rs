//! std::Vec value-level shadow (stub, filled in later)
use crate::interp::Out;

#[derive(Clone, Debug)]
pub enum Sh {
  Pending,
  Gone,
  Vec(Vec<i64>),
}
pub fn set_eq_script(_s: &[bool]) {}
pub fn exec(_sh: &mut Vec<Sh>, _names: &[String], _t: &[&str], _precap: Option<usize>) -> Out {
  Out::Skip
}

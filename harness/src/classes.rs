//! The six element classes as distinct types.
use crate::elem::*;
use core::mem::{align_of, needs_drop, size_of};

macro_rules! class {
  ($name:ident, $tag:expr, $idty:ty, $pad:expr, $drops:expr, [$($attr:meta),*]) => {
    $(#[$attr])*
    pub struct $name {
      id: $idty,
      _pad: [u8; $pad],
    }
    impl El for $name {
      const NAME: &'static str = $tag;
      const DROPS: bool = $drops;
      fn mk(id: u32) -> Self {
        $name { id: id as $idty, _pad: [0; $pad] }
      }
      fn id(&self) -> u32 {
        self.id as u32
      }
      unsafe fn raw_id(p: *const Self) -> u32 {
        core::ptr::read(p as *const $idty) as u32
      }
    }
    impl Clone for $name {
      fn clone(&self) -> Self {
        Self::mk(cb_clone(self.id as u32))
      }
    }
    impl PartialEq for $name {
      fn eq(&self, o: &Self) -> bool {
        cb_eq(self.id as u32, o.id as u32)
      }
    }
    impl Eq for $name {}
    impl PartialOrd for $name {
      fn partial_cmp(&self, o: &Self) -> Option<core::cmp::Ordering> {
        Some(cb_cmp(self.id as u32, o.id as u32))
      }
    }
    impl Ord for $name {
      fn cmp(&self, o: &Self) -> core::cmp::Ordering {
        cb_cmp(self.id as u32, o.id as u32)
      }
    }
    impl serde::Serialize for $name {
      fn serialize<S: serde::Serializer>(&self, s: S) -> Result<S::Ok, S::Error> {
        s.serialize_u32(self.id as u32)
      }
    }
    impl<'de> serde::Deserialize<'de> for $name {
      /// an i64 = val; the element is created (fresh id) at this moment
      fn deserialize<D: serde::Deserializer<'de>>(d: D) -> Result<Self, D::Error> {
        d.deserialize_i64(crate::serde_script::I64Visitor).map(<Self as El>::new)
      }
    }
    impl core::hash::Hash for $name {
      fn hash<H: core::hash::Hasher>(&self, h: &mut H) {
        h.write_i64(cb_hash(self.id as u32));
      }
    }
  };
}

macro_rules! with_drop {
  ($name:ident) => {
    impl Drop for $name {
      fn drop(&mut self) {
        cb_drop(self.id as u32);
      }
    }
  };
}

class!(B1, "b1", u8, 0, true, [repr(C)]);
class!(W4, "w4", u32, 0, true, [repr(C)]);
class!(P4, "p4", u32, 0, false, [repr(C)]);
class!(P1, "p1", u8, 0, false, [repr(C)]);
class!(S16, "s16", u32, 12, true, [repr(C, align(8))]);
class!(A32, "a32", u32, 28, true, [repr(C, align(32))]);
class!(A16, "a16", u32, 12, true, [repr(C, align(16))]);
class!(Big, "big", u32, 2044, true, [repr(C, align(8))]);
with_drop!(B1);
with_drop!(W4);
with_drop!(S16);
with_drop!(A32);
with_drop!(A16);
with_drop!(Big);

macro_rules! layout_assert {
  ($t:ty, $s:expr, $a:expr, $d:expr) => {
    const _: () = assert!(size_of::<$t>() == $s && align_of::<$t>() == $a && needs_drop::<$t>() == $d);
  };
}
layout_assert!(B1, 1, 1, true);
layout_assert!(W4, 4, 4, true);
layout_assert!(P4, 4, 4, false);
layout_assert!(P1, 1, 1, false);
layout_assert!(S16, 16, 8, true);
layout_assert!(A32, 32, 32, true);
layout_assert!(A16, 16, 16, true);
layout_assert!(Big, 2048, 8, true);
// configuration the Lean model assumes: 64-bit usize, header = 3 words
const _: () = assert!(size_of::<usize>() == 8 && align_of::<usize>() == 8);

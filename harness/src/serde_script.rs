//! serde support: `sq[..]` script, scripted `SeqAccess`, zero-sized error type, shadow element.
use crate::elem::{callback, inject};
use crate::script;
use serde::de::{self, DeserializeSeed, IntoDeserializer, SeqAccess, Visitor};
use std::fmt;

/// Error type of the scripted (de)serializers. Zero-sized: creating it never allocates.
#[derive(Debug, Clone, Copy, PartialEq)]
pub struct SErr;
impl fmt::Display for SErr {
  fn fmt(&self, f: &mut fmt::Formatter) -> fmt::Result {
    f.write_str("scripted serde error")
  }
}
impl std::error::Error for SErr {}
impl de::Error for SErr {
  fn custom<T: fmt::Display>(_: T) -> Self {
    SErr
  }
}
impl serde::ser::Error for SErr {
  fn custom<T: fmt::Display>(_: T) -> Self {
    SErr
  }
}

/// marker value of an `N` item: `next_element` answers `Ok(None)` there, and goes on with the following items if
/// it is polled again (an access that is not fused)
pub const END: i64 = i64::MIN;

/// `<hint> <SEQ>`: hint `N` | `<n>`; SEQ `sq[<val>|E|N,...]`
#[derive(Clone)]
pub struct Sq {
  pub items: Vec<Option<i64>>, // None = `E`
  pub pos: usize,
  pub hint: Option<usize>,
}
impl Sq {
  pub fn parse(hint: &str, seq: &str) -> Option<Sq> {
    let hint = if hint == "N" { None } else { Some(script::num(hint)?) };
    let body = seq.strip_prefix("sq[")?.strip_suffix(']')?;
    let items = if body.is_empty() {
      Vec::new()
    } else {
      body.split(',').map(|x| if x == "E" { Some(None) } else if x == "N" { Some(Some(END)) } else { script::val(x).map(Some) }).collect::<Option<_>>()?
    };
    Some(Sq { items, pos: 0, hint })
  }
  pub fn values(&self) -> usize {
    self.items.iter().flatten().filter(|v| **v != END).count()
  }
  /// the items up to (not including) the first `N`: what a visitor that stops at the first `None` sees
  pub fn until_end(&self) -> &[Option<i64>] {
    let k = self.items.iter().position(|x| *x == Some(END)).unwrap_or(self.items.len());
    &self.items[..k]
  }
}

/// Scripted `SeqAccess`. `counted`: each `next_element*` call is a callback invocation.
pub struct ScriptSeq<'a> {
  pub sq: &'a mut Sq,
  pub counted: bool,
}
impl<'a, 'de> SeqAccess<'de> for ScriptSeq<'a> {
  type Error = SErr;
  fn next_element_seed<S: DeserializeSeed<'de>>(&mut self, seed: S) -> Result<Option<S::Value>, SErr> {
    if self.counted && callback() {
      inject(); // before the script advances
    }
    if self.sq.pos >= self.sq.items.len() {
      return Ok(None);
    }
    self.sq.pos += 1;
    match self.sq.items[self.sq.pos - 1] {
      None => Err(SErr),
      Some(v) if v == END => Ok(None),
      Some(v) => {
        let d: de::value::I64Deserializer<SErr> = v.into_deserializer();
        seed.deserialize(d).map(Some)
      }
    }
  }
  fn size_hint(&self) -> Option<usize> {
    self.sq.hint
  }
}

/// visitor shared by the element classes and the shadow element: accept an i64
pub struct I64Visitor;
impl<'de> Visitor<'de> for I64Visitor {
  type Value = i64;
  fn expecting(&self, f: &mut fmt::Formatter) -> fmt::Result {
    f.write_str("an i64 value")
  }
  fn visit_i64<E: de::Error>(self, v: i64) -> Result<i64, E> {
    Ok(v)
  }
}

/// element of the std `Vec` shadow
#[derive(Clone, Copy, PartialEq, Debug)]
pub struct ShadowElem(pub i64);
impl<'de> de::Deserialize<'de> for ShadowElem {
  fn deserialize<D: de::Deserializer<'de>>(d: D) -> Result<Self, D::Error> {
    d.deserialize_i64(I64Visitor).map(ShadowElem)
  }
}

/// the real `<Vec<_> as Deserialize>::deserialize_in_place` on the shadow contents; false = Err
pub fn shadow_in_place(v: &mut Vec<i64>, sq: &mut Sq) -> bool {
  let mut w: Vec<ShadowElem> = v.iter().map(|&x| ShadowElem(x)).collect();
  let d = de::value::SeqAccessDeserializer::new(ScriptSeq { sq, counted: false });
  let ok = <Vec<ShadowElem> as de::Deserialize>::deserialize_in_place(d, &mut w).is_ok();
  *v = w.iter().map(|e| e.0).collect();
  ok
}

//! Token parsing and scripted callback objects (predicates, iterators, keys, generators).
#![allow(static_mut_refs)]

use crate::elem::{callback, inject, El};
use core::marker::PhantomData;
use core::ops::Bound;

pub fn num(s: &str) -> Option<usize> {
  if s.is_empty() || !s.bytes().all(|b| b.is_ascii_digit()) {
    return None;
  }
  s.parse::<u64>().ok().map(|n| n as usize)
}
pub fn val(s: &str) -> Option<i64> {
  let d = s.strip_prefix('-').unwrap_or(s);
  if d.is_empty() || !d.bytes().all(|b| b.is_ascii_digit()) {
    return None;
  }
  s.parse::<i64>().ok()
}
pub fn vals(ss: &[&str]) -> Option<Vec<i64>> {
  ss.iter().map(|s| val(s)).collect()
}
/// `I1>I7`: a bound whose answer changes between calls (first call I1, every later call I7). `bound` is the FIRST answer.
pub fn bound(s: &str) -> Option<Bound<usize>> {
  bounds(s).map(|v| v[0])
}
pub fn bounds(s: &str) -> Option<Vec<Bound<usize>>> {
  let v: Option<Vec<Bound<usize>>> = s.split('>').map(bound1).collect();
  v.filter(|v| !v.is_empty() && v.len() <= 4)
}
/// a `RangeBounds` implementation in safe code whose answers may be inconsistent from one call to the next
/// (no heap storage: it is dropped inside the operation, where every allocator event is attributed to the vector)
pub struct ScriptRange {
  a: [Bound<usize>; 4],
  b: [Bound<usize>; 4],
  na: usize,
  nb: usize,
  ia: core::cell::Cell<usize>,
  ib: core::cell::Cell<usize>,
}
impl ScriptRange {
  pub fn parse(a: &str, b: &str) -> Option<Self> {
    let (va, vb) = (bounds(a)?, bounds(b)?);
    let mut r = ScriptRange { a: [Bound::Unbounded; 4], b: [Bound::Unbounded; 4], na: va.len(), nb: vb.len(), ia: Default::default(), ib: Default::default() };
    r.a[..va.len()].copy_from_slice(&va);
    r.b[..vb.len()].copy_from_slice(&vb);
    Some(r)
  }
}
impl core::ops::RangeBounds<usize> for ScriptRange {
  fn start_bound(&self) -> Bound<&usize> {
    let i = self.ia.get();
    self.ia.set(i + 1);
    self.a[i.min(self.na - 1)].as_ref()
  }
  fn end_bound(&self) -> Bound<&usize> {
    let i = self.ib.get();
    self.ib.set(i + 1);
    self.b[i.min(self.nb - 1)].as_ref()
  }
}
fn bound1(s: &str) -> Option<Bound<usize>> {
  match s.as_bytes().first()? {
    b'U' if s.len() == 1 => Some(Bound::Unbounded),
    b'I' => num(&s[1..]).map(Bound::Included),
    b'E' => num(&s[1..]).map(Bound::Excluded),
    _ => None,
  }
}
fn tf(s: &str) -> Option<Vec<bool>> {
  s.bytes().map(|b| match b { b'T' => Some(true), b'F' => Some(false), _ => None }).collect()
}
pub fn tf_script(s: &str) -> Option<Vec<bool>> {
  tf(s)
}
fn csv<T>(s: &str, f: impl Fn(&str) -> Option<T>) -> Option<Vec<T>> {
  if s.is_empty() { Some(Vec::new()) } else { s.split(',').map(|x| f(x)).collect() }
}

#[derive(Clone)]
pub enum Pred {
  Mod(i64, i64),
  Seq(Vec<bool>, usize),
}
impl Pred {
  pub fn parse(s: &str) -> Option<Pred> {
    if let Some(r) = s.strip_prefix("mod") {
      let (m, r) = r.split_once('=')?;
      let (m, r) = (val(m)?, val(r)?);
      if m <= 0 { return None; }
      return Some(Pred::Mod(m, r));
    }
    Some(Pred::Seq(tf(s.strip_prefix("seq")?)?, 0))
  }
  fn seq(&mut self) -> bool {
    if let Pred::Seq(v, p) = self {
      *p += 1;
      return *p <= v.len() && v[*p - 1];
    }
    false
  }
  /// unary answer (retain, drain_filter)
  pub fn ask(&mut self, x: i64) -> bool {
    match self {
      Pred::Mod(m, r) => x.rem_euclid(*m) == *r,
      _ => self.seq(),
    }
  }
  /// binary answer (dedup_by): same bucket?
  pub fn ask2(&mut self, a: i64, b: i64) -> bool {
    match self {
      Pred::Mod(m, _) => a.rem_euclid(*m) == b.rem_euclid(*m),
      _ => self.seq(),
    }
  }
}

#[derive(Clone)]
pub enum Key {
  Mod(i64),
  Seq(Vec<i64>, usize),
}
impl Key {
  pub fn parse(s: &str) -> Option<Key> {
    if let Some(m) = s.strip_prefix("kmod") {
      let m = val(m)?;
      return if m > 0 { Some(Key::Mod(m)) } else { None };
    }
    Some(Key::Seq(csv(s.strip_prefix("kseq")?, val)?, 0))
  }
  pub fn ask(&mut self, x: i64) -> i64 {
    match self {
      Key::Mod(m) => x.rem_euclid(*m),
      Key::Seq(v, p) => {
        *p += 1;
        if *p <= v.len() { v[*p - 1] } else { 0 }
      }
    }
  }
}

#[derive(Clone)]
pub struct Gen(pub Vec<i64>, pub usize);
impl Gen {
  pub fn parse(s: &str) -> Option<Gen> {
    Some(Gen(csv(s.strip_prefix("g[")?.strip_suffix(']')?, val)?, 0))
  }
  pub fn ask(&mut self) -> i64 {
    self.1 += 1;
    if self.1 <= self.0.len() { self.0[self.1 - 1] } else { 0 }
  }
}

#[derive(Clone)]
pub struct It {
  pub items: Vec<Option<i64>>,
  pub pos: usize,
  pub hint: Option<(usize, Option<usize>)>,
}
impl It {
  pub fn parse(s: &str) -> Option<It> {
    let r = s.strip_prefix("it[")?;
    let (body, suf) = r.split_once(']')?;
    let items = csv(body, |x| if x == "N" { Some(None) } else { val(x).map(Some) })?;
    let hint = if suf.is_empty() {
      None
    } else {
      let (lo, hi) = suf.strip_prefix('h')?.split_once('-')?;
      Some((num(lo)?, if hi == "N" { None } else { Some(num(hi)?) }))
    };
    Some(It { items, pos: 0, hint })
  }
  pub fn next(&mut self) -> Option<i64> {
    if self.pos < self.items.len() {
      self.pos += 1;
      self.items[self.pos - 1]
    } else {
      None
    }
  }
  pub fn size_hint(&self) -> (usize, Option<usize>) {
    if let Some(h) = self.hint {
      return h;
    }
    let k = self.items[self.pos.min(self.items.len())..].iter().take_while(|x| x.is_some()).count();
    (k, Some(k))
  }
  /// values up to (not including) the first `N` still to come: what std consumes
  pub fn until_none(&mut self) -> Vec<i64> {
    let mut out = Vec::new();
    while let Some(v) = self.next() {
      out.push(v);
    }
    out
  }
}

// ---- arena of the scripts handed to MiniVec (handles are plain indices: no heap ownership) ----
pub static mut ITS: Vec<It> = Vec::new();

pub fn add_it(it: It) -> usize {
  unsafe {
    ITS.push(it);
    ITS.len() - 1
  }
}

pub struct ScriptIter<T>(pub usize, pub PhantomData<T>);
impl<T: El> ScriptIter<T> {
  pub fn new(it: It) -> Self {
    ScriptIter(add_it(it), PhantomData)
  }
}
impl<T: El> Iterator for ScriptIter<T> {
  type Item = T;
  fn next(&mut self) -> Option<T> {
    if callback() {
      inject();
    }
    unsafe { ITS[self.0].next() }.map(T::new)
  }
  fn size_hint(&self) -> (usize, Option<usize>) {
    unsafe { ITS[self.0].size_hint() }
  }
}

/// wrap a scripted answer as a counted callback (panic injected before the answer is consumed)
pub fn counted<R>(f: impl FnOnce() -> R) -> R {
  if callback() {
    inject();
  }
  f()
}

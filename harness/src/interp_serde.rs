//! serde operations: serialize, deserialize, deserialize_in_place.
use crate::elem::El;
use crate::interp::*;
use crate::serde_script::{ScriptSeq, Sq};
use crate::serde_ser::{Rec, SerLog};
use crate::{tl, tp};
use minivec::MiniVec;
use serde::de::value::SeqAccessDeserializer;
use serde::{Deserialize, Serialize};

fn err() -> Out {
  tl!("= err");
  Out::Text("err".to_string())
}

impl<T: El> Interp<T> {
  pub fn exec_serde(&mut self, op: &str, t: &[&str]) -> Option<Option<Out>> {
    match op {
      "serialize" => Some(self.ser(t)),
      "deserialize" | "deserialize_in_place" => Some(self.de(op, t)),
      _ => None,
    }
  }

  fn ser(&mut self, t: &[&str]) -> Option<Out> {
    if t.len() != 2 {
      return None;
    }
    let r = t[1];
    let v: &MiniVec<T> = self.mv(self.vreg(r)?);
    let mut log = SerLog::default();
    log.ids.reserve(v.len() + 16); // recording must not allocate inside the operation
    let res = scoped(|| v.serialize(Rec { log: &mut log, elem: false }));
    Some(match res {
      None => done(None),
      Some(Ok(())) if log.well_formed() => {
        tp!("= [");
        let mut vals = Vec::new();
        for (k, &id) in log.ids.iter().enumerate() {
          if k > 0 {
            tp!(" ");
          }
          vals.push(show_id(id, "serialized", r));
        }
        tl!("]");
        flush_pending();
        Out::List(vals)
      }
      Some(_) => err(),
    })
  }

  fn de(&mut self, op: &str, t: &[&str]) -> Option<Out> {
    if t.len() != 4 {
      return None;
    }
    let r = t[1];
    let mut sq = Sq::parse(t[2], t[3])?;
    let in_place = op == "deserialize_in_place";
    let target = if in_place {
      Some(self.vreg(r)?)
    } else {
      self.fresh(r)?;
      None
    };
    self.room(sq.values())?;
    Some(match target {
      Some(i) => {
        let v = self.mv(i);
        let res = scoped(|| {
          let d = SeqAccessDeserializer::new(ScriptSeq { sq: &mut sq, counted: true });
          <MiniVec<T> as Deserialize>::deserialize_in_place(d, v).is_ok()
        });
        match res {
          Some(true) => done(Some(())),
          Some(false) => err(),
          None => done(None),
        }
      }
      None => {
        let res = scoped(|| {
          let d = SeqAccessDeserializer::new(ScriptSeq { sq: &mut sq, counted: true });
          // the Err payload is zero-sized; a partially built vector is dropped inside the operation
          <MiniVec<T> as Deserialize>::deserialize(d).ok()
        });
        match res {
          Some(Some(v)) => {
            self.add_vec(r, v);
            done(Some(()))
          }
          Some(None) => err(),
          None => done(None),
        }
      }
    })
  }
}

//! `harness --selftest`: built-in sanity checks of the harness itself (independent of MiniVec defects).
#![allow(static_mut_refs)]

use crate::parent::{fork_run, postprocess, run_case_forked, Outcome};
use std::alloc::{alloc, dealloc, realloc, Layout};

const CLEAN: &str = "!case clean\n!cfg s16\n!mode MODE\nnew v\npush v 10\npush v 20\npop v\nclone v w\n\
with_alignment a 2 64\npush a 1\nretain v mod2=0\ndrain v U U d\nnext d\n!end\n";
const FAIL: &str = "!case fail\n!cfg w4\n!mode MODE\n!allocfail_at 1\nnew v\npush v 1\n!end\n";
const INJ: &str = "!case inj\n!cfg w4\n!mode MODE\n!panic_at 1\nmacro_list v 3 1 2\ntruncate v 0\n!end\n";
const SERDE: &str = "!case serde\n!cfg w4\n!mode MODE\nmacro_list v 5 6\nserialize v\n\
deserialize w N sq[1,2,3]\ndeserialize_in_place v N sq[9,E]\n!end\n";
const WRONG: &str = "!case wrong\n!cfg w4\n!mode bogus\nnew v\n!end\n";

fn run_text(text: &str, timeout: u64) -> String {
  let text = text.replace("MODE", crate::my_mode());
  let mut out = Vec::new();
  for c in crate::parse_cases(&text) {
    run_case_forked(&c, timeout, &mut out);
  }
  String::from_utf8_lossy(&out).into_owned()
}

fn raw_alloc_checks() {
  unsafe {
    crate::alloc::SCOPE = true;
    let l8 = Layout::from_size_align(40, 8).unwrap();
    let p = alloc(l8);
    crate::tl!("T minimal8 {}", (p as usize % 8 == 0 && p as usize % 16 != 0) as u8);
    let l64 = Layout::from_size_align(128, 64).unwrap();
    let q = alloc(l64);
    crate::tl!("T minimal64 {}", (q as usize % 64 == 0 && q as usize % 128 != 0) as u8);
    *p.add(7) = 99;
    let p2 = realloc(p, l8, 80);
    crate::tl!("T moved {}", (p2 != p && *p2.add(7) == 99 && *p.add(7) == 0xDD) as u8);
    dealloc(q, Layout::from_size_align(64, 64).unwrap()); // wrong size
    dealloc(q, l64); // double free
    *p2.add(80) = 1; // overrun into the canary
    dealloc(p2.add(8), l8); // interior pointer
    dealloc(p2, Layout::from_size_align(80, 8).unwrap());
    let big = std::hint::black_box(alloc(Layout::from_size_align(std::hint::black_box((1 << 30) + 8), 8).unwrap()));
    crate::tl!("T big-null {}", big.is_null() as u8);
    crate::alloc::SCOPE = false;
  }
}

pub fn run() -> i32 {
  let mut bad = 0;
  let mut check = |name: &str, ok: bool, ctx: &str| {
    if !ok {
      bad += 1;
      eprintln!("selftest FAILED: {}\n{}", name, ctx);
    }
  };
  let t = run_text(CLEAN, 5000);
  check("clean: no oracle lines", !t.lines().any(|l| l.starts_with("O ") || l.starts_with("X ")), &t);
  for want in [
    "#case clean", "A 88 8", "= some 2:20", "C 1 3", "A 128 64", "S v 0 4 []", "= some 1:10",
    "> drop d", "> drop v", "F 88 8", "req=64", "#end",
  ] {
    check(&format!("clean: has `{}`", want), t.lines().any(|l| l.contains(want)), &t);
  }
  let t = run_text(FAIL, 5000);
  check("allocfail", t.contains("A 40 8\nZ\n= abort\nX signal 6 allocfail\n#end\n"), &t);
  let t = run_text(INJ, 5000);
  check("inject: execution order kept", t.contains("D 1\nD 2\nD 3\n= panic") || t.contains("D 3\nD 1\nD 2\n= panic"), &t);
  let t = run_text(WRONG, 5000);
  check("mode mismatch", t.contains("O mode-mismatch") && !t.contains("> new"), &t);

  let mut out = Vec::new();
  postprocess(b"> a\nD 5\nA 1 1\nD 3\n= ok\n> b\n~inj\nD 9\nD 2\n= panic\n", &mut out);
  let s = String::from_utf8_lossy(&out).into_owned();
  check("postprocess", s == "> a\nD 3\nA 1 1\nD 5\n= ok\n> b\nD 9\nD 2\n= panic\n", &s);

  // serde shadow semantics (real Vec in-place visitor)
  {
    use crate::interp::Out;
    use crate::shadow::{exec, Sh};
    let names = vec!["v".to_string(), "w".to_string()];
    let mut sh = vec![Sh::Vec(vec![10, 20, 30]), Sh::Pending];
    let get = |sh: &Vec<Sh>, i: usize| match &sh[i] {
      Sh::Vec(v) => v.clone(),
      _ => vec![-1],
    };
    let e = Out::Text("err".to_string());
    let r = exec(&mut sh, &names, &["deserialize_in_place", "v", "1", "sq[1,E,3]"], None);
    check("shadow in-place err", r == e && get(&sh, 0) == [1, 20, 30], "");
    let r = exec(&mut sh, &names, &["deserialize_in_place", "v", "N", "sq[7,8]"], None);
    check("shadow in-place truncate", r == Out::Unit && get(&sh, 0) == [7, 8], "");
    let r = exec(&mut sh, &names, &["deserialize_in_place", "v", "9", "sq[1,2,3,E]"], None);
    check("shadow in-place tail err", r == e && get(&sh, 0) == [1, 2, 3], "");
    let r = exec(&mut sh, &names, &["serialize", "v"], None);
    check("shadow serialize", r == Out::List(vec![1, 2, 3]), "");
    let r = exec(&mut sh, &names, &["deserialize", "w", "N", "sq[4,E]"], None);
    check("shadow deserialize err", r == e && matches!(sh[1], Sh::Pending), "");
    let r = exec(&mut sh, &names, &["deserialize", "w", "0", "sq[4,5]"], None);
    check("shadow deserialize ok", r == Out::Unit && get(&sh, 1) == [4, 5], "");
  }
  let t = run_text(SERDE, 5000);
  check("serde: no oracle lines", !t.lines().any(|l| l.starts_with("O ") || l.starts_with("X ")), &t);
  for want in ["= [1:5 2:6]", "S w 3 4 [3:1 4:2 5:3]", "= err", "S v 2 4 [6:9 2:6]", "D 1"] {
    check(&format!("serde: has `{}`", want), t.lines().any(|l| l == want), &t);
  }

  let (tr, _, oc) = fork_run(5000, raw_alloc_checks);
  let t = String::from_utf8_lossy(&tr).into_owned();
  check("alloc child exits normally", matches!(oc, Outcome::Exit(0)), &t);
  for want in [
    "T minimal8 1", "T minimal64 1", "T moved 1", "T big-null 1", "R 40 8 80", "Z",
    "O alloc layout-mismatch dealloc", "O alloc unknown-or-double-free dealloc quoted=128/64",
    "O alloc canary-after", "inside-blk=3 delta=8",
  ] {
    check(&format!("alloc: has `{}`", want), t.contains(want), &t);
  }
  let (_, _, oc) = fork_run(200, || loop {
    std::hint::spin_loop();
  });
  check("timeout", matches!(oc, Outcome::Timeout), "");
  let (_, _, oc) = fork_run(5000, || unsafe {
    core::ptr::write_volatile(8 as *mut u8, 1);
  });
  check("signal", matches!(oc, Outcome::Signal(11)), "");
  if bad == 0 {
    println!("selftest ok ({})", crate::my_mode());
    0
  } else {
    1
  }
}

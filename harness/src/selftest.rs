//! built-in sanity cases (filled in later)
pub fn run() -> i32 {
  0
}

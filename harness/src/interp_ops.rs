//! Case driver: one step per operation line, S/H lines, per-step and end-of-case oracles.
#![allow(static_mut_refs)]

use crate::alloc;
use crate::elem::{self, El};
use crate::interp::*;
use crate::shadow::{self, Sh};
use crate::{tl, tp, Case};
use std::collections::HashSet;

pub fn run<T: El>(c: &Case) {
  unsafe {
    elem::ID_LIMIT = if T::NAME == "b1" || T::NAME == "p1" { 255 } else { elem::MAXID as u32 };
    elem::PANIC_AT = c.panic_at;
    elem::EQ_SCRIPT = c.eq_script.clone();
    alloc::FAIL_AT = c.allocfail_at;
    alloc::NATURAL_REQ = core::mem::align_of::<T>().max(8);
  }
  let diff = !c.vecdiff_off && c.panic_at == 0 && c.allocfail_at == 0;
  shadow::set_eq_script(&c.eq_script);
  let mut it = Interp::<T> { slots: Vec::new(), sh: Vec::new(), diff, dirty: false };
  for line in &c.ops {
    it.step(line);
  }
  // implicit drops: iterators in reverse creation order, then vectors in creation order
  let names: Vec<(String, bool)> =
    it.slots.iter().map(|s| (s.name.clone(), matches!(s.kind, Kind::Vec { .. }))).collect();
  for (n, isvec) in names.iter().rev() {
    if !isvec && !matches!(it.slots[it.find(n).unwrap()].kind, Kind::Gone) {
      it.step(&format!("drop {}", n));
    }
  }
  for (n, isvec) in names.iter() {
    if *isvec && !matches!(it.slots[it.find(n).unwrap()].kind, Kind::Gone) {
      it.step(&format!("drop {}", n));
    }
  }
  let clean = !it.dirty;
  if clean && T::DROPS {
    for id in 1..unsafe { elem::NEXT_ID } {
      if elem::state(id) == elem::LIVE {
        elem::ledger(format_args!("leaked-id id={} val={}", id, elem::val_of(id)));
      }
    }
  }
  alloc::end_of_case(clean);
}

/// reads the vector an operation was invoked on, through its public API (see `alloc::PROBE_FN`)
unsafe fn probe<T>(p: usize) -> (usize, usize, usize) {
  let v = &*(p as *const minivec::MiniVec<T>);
  (v.capacity(), v.as_ptr() as usize, core::mem::size_of::<T>())
}

impl<T: El> Interp<T> {
  pub fn step(&mut self, line: &str) {
    tl!("> {}", line);
    let t: Vec<&str> = line.split_whitespace().collect();
    // capacity before the op (sanctioned divergence: shrink_to above capacity panics)
    let precap = t.get(1).and_then(|r| self.vreg(r)).map(|i| self.mv(i).capacity());
    unsafe {
      alloc::PROBE_FN = Some(probe::<T>);
      alloc::PROBE_PTR = t.get(1).and_then(|r| self.vreg(r)).map_or(0, |i| self.mv(i) as *mut minivec::MiniVec<T> as usize);
    }
    let out = match self.try_exec(&t) {
      Some(o) => o,
      None => {
        tl!("= bad-op");
        Out::BadOp
      }
    };
    unsafe { alloc::PROBE_PTR = 0 };
    if out == Out::Panic {
      self.dirty = true;
    }
    if self.diff && out != Out::BadOp {
      let names: Vec<String> = self.slots.iter().map(|s| s.name.clone()).collect();
      let want = shadow::exec(&mut self.sh, &names, &t, precap);
      if want != Out::Skip && out != Out::Skip && want != out {
        tl!("O vec-mismatch {} result got={:?} want={:?}", t.get(1).unwrap_or(&"?"), out, want);
      }
    }
    self.state_lines();
  }

  fn try_exec(&mut self, t: &[&str]) -> Option<Out> {
    let op = *t.first()?;
    if op == "from_str" {
      // MiniVec::<u8>::from(&str) of n bytes; the vector is checked and dropped inside the operation
      if t.len() != 2 {
        return None;
      }
      let n = crate::script::num(t[1])?;
      if n > (1 << 20) {
        return None;
      }
      let s = "a".repeat(n);
      let r = scoped(|| {
        let v = minivec::MiniVec::<u8>::from(&s[..]);
        (v.len(), v.iter().all(|b| *b == b'a'))
      });
      return Some(match r {
        Some((len, good)) => {
          tl!("= {} {}", len, if good { "same" } else { "differs" });
          if len != n || !good {
            tl!("O vec-mismatch from_str len={} want={}", len, n);
          }
          Out::Skip
        }
        None => {
          tl!("= panic");
          Out::Panic
        }
      });
    }
    if op == "serialize_u8" {
      // `MiniVec<u8>` (built as in `from_str`) must serialize as ONE sequence of n `u8` elements, like every other
      // element type: the recording serializer refuses anything else (e.g. `serialize_bytes`)
      if t.len() != 2 {
        return None;
      }
      let n = crate::script::num(t[1])?;
      if n > (1 << 20) {
        return None;
      }
      let s = "a".repeat(n);
      let mut log = crate::serde_ser::SerLog::default();
      log.u8_mode = true;
      log.ids.reserve(n + 16);
      let r = scoped(|| {
        use serde::Serialize;
        let v = minivec::MiniVec::<u8>::from(&s[..]);
        let ok = v.serialize(crate::serde_ser::Rec { log: &mut log, elem: false }).is_ok();
        (v.len(), ok)
      });
      return Some(match r {
        Some((len, ok)) => {
          let good = ok && log.well_formed() && log.ids.len() == n && log.ids.iter().all(|b| *b == 97) && len == n;
          tl!("= {} {}", len, if good { "same" } else { "differs" });
          if !good {
            tl!("O vec-mismatch serialize_u8 len={} elements-recorded={} well-formed={}", len, log.ids.len(), log.well_formed());
          }
          Out::Skip
        }
        None => {
          tl!("= panic");
          Out::Panic
        }
      });
    }
    if op == "extend_ref" {
      // `Extend<&'a T>` for a Copy element type (u32): a vector of `pre` elements with exactly that capacity is
      // extended BY REFERENCE from a scripted iterator (whose size_hint may lie); checked and dropped inside the op
      if t.len() != 3 {
        return None;
      }
      let pre = crate::script::num(t[1])?;
      let mut it = crate::script::It::parse(t[2])?;
      if pre > 4096 || it.items.len() > 4096 {
        return None;
      }
      let store: Vec<u32> = it.items.iter().map(|x| x.unwrap_or(0) as u32).collect();
      let hint = it.size_hint();
      let want: Vec<u32> = (0..pre as u32).chain(it.until_none().into_iter().map(|x| x as u32)).collect();
      struct RefIt<'a> {
        store: &'a [u32],
        script: &'a [bool],
        pos: usize,
        hint: (usize, Option<usize>),
        lying: bool,
      }
      impl<'a> Iterator for RefIt<'a> {
        type Item = &'a u32;
        fn next(&mut self) -> Option<&'a u32> {
          if self.pos < self.script.len() {
            self.pos += 1;
            if self.script[self.pos - 1] { Some(&self.store[self.pos - 1]) } else { None }
          } else {
            None
          }
        }
        fn size_hint(&self) -> (usize, Option<usize>) {
          if self.lying {
            self.hint
          } else {
            let k = self.script[self.pos.min(self.script.len())..].iter().take_while(|x| **x).count();
            (k, Some(k))
          }
        }
      }
      let script: Vec<bool> = crate::script::It::parse(t[2])?.items.iter().map(|x| x.is_some()).collect();
      let lying = t[2].contains("]h");
      let r = scoped(|| {
        let mut v = minivec::MiniVec::<u32>::with_capacity(pre);
        for i in 0..pre as u32 {
          v.push(i);
        }
        v.extend(RefIt { store: &store[..], script: &script[..], pos: 0, hint, lying });
        (v.len(), v.len() <= v.capacity() && v[..] == want[..])
      });
      return Some(match r {
        Some((len, good)) => {
          tl!("= {} {}", len, if good { "same" } else { "differs" });
          if !good {
            tl!("O vec-mismatch extend_ref len={} want={}", len, want.len());
          }
          Out::Skip
        }
        None => {
          tl!("= panic");
          Out::Panic
        }
      });
    }
    if let Some(o) = self.exec_ctor(op, t) {
      return o;
    }
    if let Some(o) = self.exec_vec(op, t) {
      return o;
    }
    if let Some(o) = self.exec_vec2(op, t) {
      return o;
    }
    if let Some(o) = self.exec_serde(op, t) {
      return o;
    }
    self.exec_iter(op, t)
  }

  /// `S` (+ `H`) line of every live unborrowed vector, then the per-step oracles
  fn state_lines(&mut self) {
    let mut seen: HashSet<u32> = HashSet::new();
    for i in 0..self.slots.len() {
      let (name, p) = match &self.slots[i].kind {
        Kind::Vec { p, borrowed: false } => (self.slots[i].name.clone(), *p),
        Kind::Gone => {
          self.sh[i] = Sh::Gone;
          continue;
        }
        _ => continue,
      };
      let v = unsafe { &*p };
      let (len, cap, ptr) = (v.len(), v.capacity(), v.as_ptr());
      tp!("S {} {} {} ", name, len, cap);
      let vals = show_list(ptr, len, "in-vec", &name);
      tl!("");
      let size = core::mem::size_of::<T>();
      if !ptr.is_null() {
        match alloc::find_containing(ptr as usize) {
          Some(b) => {
            let off = ptr as usize - b.user;
            tl!("H {} blk={} off={} size={} al={} req={}", name, b.no, off, b.size, ptr as usize % 4096, b.req);
            if ptr as usize % b.req != 0 {
              tl!("O align {} as_ptr%{}={} blk={}", name, b.req, ptr as usize % b.req, b.no);
            }
            let fits = cap.checked_mul(size).and_then(|n| n.checked_add(off)).map_or(false, |n| n <= b.size);
            if !fits {
              tl!("O cap {} overrun off={} cap={} elem={} size={}", name, off, cap, size, b.size);
            }
          }
          None => tl!("O cap {} no-block as_ptr not inside a live tracked block", name),
        }
      }
      if len > cap {
        tl!("O cap {} len={} > cap={}", name, len, cap);
      }
      flush_pending();
      for k in 0..vals.len().min(len) {
        let id = unsafe { T::raw_id(ptr.add(k)) };
        if elem::known(id) && !seen.insert(id) {
          elem::ledger(format_args!("duplicate-id in-vec reg={} id={}", name, id));
        }
      }
      if self.diff {
        match &self.sh[i] {
          Sh::Vec(w) if *w == vals && vals.len() == len => {}
          Sh::Vec(w) => {
            tl!("O vec-mismatch {} contents got={:?} want={:?}", name, vals, w);
            self.sh[i] = Sh::Vec(vals);
          }
          _ => self.sh[i] = Sh::Vec(vals), // resync (no shadow state for this register)
        }
      }
    }
  }
}

//! Allocation-free trace writer. Everything the child prints goes through here:
//! bytes are collected in a fixed static buffer and written with `libc::write`
//! to `TRACE_FD` at every end of line (so partial traces survive a crash).
#![allow(static_mut_refs)]

use core::fmt::{self, Write};

pub static mut TRACE_FD: i32 = 1;
const CAP: usize = 4096;
static mut BUF: [u8; CAP] = [0; CAP];
static mut LEN: usize = 0;

pub fn flush() {
  unsafe {
    let mut off = 0;
    while off < LEN {
      let n = libc::write(TRACE_FD, BUF.as_ptr().add(off) as *const libc::c_void, LEN - off);
      if n <= 0 {
        break;
      }
      off += n as usize;
    }
    LEN = 0;
  }
}

pub struct W;

impl Write for W {
  fn write_str(&mut self, s: &str) -> fmt::Result {
    unsafe {
      for &b in s.as_bytes() {
        if LEN == CAP {
          flush();
        }
        BUF[LEN] = b;
        LEN += 1;
        if b == b'\n' {
          flush();
        }
      }
    }
    Ok(())
  }
}

/// Print one trace line (newline appended). Never allocates by itself; the
/// arguments' `Display` impls must not allocate either when called from the allocator.
pub fn emit(args: fmt::Arguments) {
  let _ = W.write_fmt(args);
  let _ = W.write_str("\n");
}

/// Print without a newline (for building long `S` lines piecewise).
pub fn part(args: fmt::Arguments) {
  let _ = W.write_fmt(args);
}

#[macro_export]
macro_rules! tl {
  ($($a:tt)*) => { $crate::trace::emit(format_args!($($a)*)) };
}
#[macro_export]
macro_rules! tp {
  ($($a:tt)*) => { $crate::trace::part(format_args!($($a)*)) };
}

//! Recording `Serializer`: accepts exactly `serialize_seq` at top level and `serialize_u32`
//! for the elements; every other method is an error (and marks the log as bad).
use crate::serde_script::SErr;
use serde::ser::{Impossible, Serialize, SerializeSeq, Serializer};

#[derive(Default)]
pub struct SerLog {
  pub seqs: u32,
  pub hint: Option<usize>,
  pub ids: Vec<u32>,
  pub ended: u32,
  pub bad: bool,
  /// elements are expected as `serialize_u8` calls (a `MiniVec<u8>`), recorded in `ids`
  pub u8_mode: bool,
}
impl SerLog {
  /// driven as exactly one complete sequence with a truthful (or absent) length hint?
  pub fn well_formed(&self) -> bool {
    !self.bad && self.seqs == 1 && self.ended == 1 && self.hint.map_or(true, |h| h == self.ids.len())
  }
}

pub struct Rec<'a> {
  pub log: &'a mut SerLog,
  pub elem: bool, // false: top level (expects a seq); true: one element (expects a u32)
}

macro_rules! refuse {
  ($($name:ident($($ty:ty),*);)*) => {
    $(fn $name(self $(, _: $ty)*) -> Result<(), SErr> {
      self.log.bad = true;
      Err(SErr)
    })*
  };
}

impl<'a> Serializer for Rec<'a> {
  type Ok = ();
  type Error = SErr;
  type SerializeSeq = RecSeq<'a>;
  type SerializeTuple = Impossible<(), SErr>;
  type SerializeTupleStruct = Impossible<(), SErr>;
  type SerializeTupleVariant = Impossible<(), SErr>;
  type SerializeMap = Impossible<(), SErr>;
  type SerializeStruct = Impossible<(), SErr>;
  type SerializeStructVariant = Impossible<(), SErr>;

  fn serialize_u32(self, v: u32) -> Result<(), SErr> {
    if self.elem {
      self.log.ids.push(v);
      Ok(())
    } else {
      self.log.bad = true;
      Err(SErr)
    }
  }
  fn serialize_u8(self, v: u8) -> Result<(), SErr> {
    if self.elem && self.log.u8_mode {
      self.log.ids.push(v as u32);
      Ok(())
    } else {
      self.log.bad = true;
      Err(SErr)
    }
  }
  fn serialize_seq(self, len: Option<usize>) -> Result<RecSeq<'a>, SErr> {
    if self.elem {
      self.log.bad = true;
      return Err(SErr);
    }
    self.log.seqs += 1;
    self.log.hint = len;
    Ok(RecSeq { log: self.log })
  }

  refuse! {
    serialize_bool(bool); serialize_i8(i8); serialize_i16(i16); serialize_i32(i32); serialize_i64(i64);
    serialize_u16(u16); serialize_u64(u64); serialize_f32(f32); serialize_f64(f64);
    serialize_char(char); serialize_str(&str); serialize_bytes(&[u8]); serialize_none(); serialize_unit();
    serialize_unit_struct(&'static str); serialize_unit_variant(&'static str, u32, &'static str);
  }
  fn serialize_some<T: ?Sized + Serialize>(self, _: &T) -> Result<(), SErr> {
    self.log.bad = true;
    Err(SErr)
  }
  fn serialize_newtype_struct<T: ?Sized + Serialize>(self, _: &'static str, _: &T) -> Result<(), SErr> {
    self.log.bad = true;
    Err(SErr)
  }
  fn serialize_newtype_variant<T: ?Sized + Serialize>(
    self, _: &'static str, _: u32, _: &'static str, _: &T,
  ) -> Result<(), SErr> {
    self.log.bad = true;
    Err(SErr)
  }
  fn serialize_tuple(self, _: usize) -> Result<Self::SerializeTuple, SErr> {
    self.log.bad = true;
    Err(SErr)
  }
  fn serialize_tuple_struct(self, _: &'static str, _: usize) -> Result<Self::SerializeTupleStruct, SErr> {
    self.log.bad = true;
    Err(SErr)
  }
  fn serialize_tuple_variant(
    self, _: &'static str, _: u32, _: &'static str, _: usize,
  ) -> Result<Self::SerializeTupleVariant, SErr> {
    self.log.bad = true;
    Err(SErr)
  }
  fn serialize_map(self, _: Option<usize>) -> Result<Self::SerializeMap, SErr> {
    self.log.bad = true;
    Err(SErr)
  }
  fn serialize_struct(self, _: &'static str, _: usize) -> Result<Self::SerializeStruct, SErr> {
    self.log.bad = true;
    Err(SErr)
  }
  fn serialize_struct_variant(
    self, _: &'static str, _: u32, _: &'static str, _: usize,
  ) -> Result<Self::SerializeStructVariant, SErr> {
    self.log.bad = true;
    Err(SErr)
  }
}

pub struct RecSeq<'a> {
  log: &'a mut SerLog,
}
impl<'a> SerializeSeq for RecSeq<'a> {
  type Ok = ();
  type Error = SErr;
  fn serialize_element<T: ?Sized + Serialize>(&mut self, v: &T) -> Result<(), SErr> {
    v.serialize(Rec { log: &mut *self.log, elem: true })
  }
  fn end(self) -> Result<(), SErr> {
    self.log.ended += 1;
    Ok(())
  }
}

//! Interpreter core: registers, operation scope, S/H lines and per-step oracles, case driver.
#![allow(static_mut_refs)]

use crate::alloc;
use crate::elem::{self, El};
use crate::script::ScriptIter;
use crate::shadow::Sh;
use crate::{tl, tp, Case};
use minivec::{Drain, DrainFilter, IntoIter, MiniVec, Splice};
use std::panic::{catch_unwind, AssertUnwindSafe};

pub type PredFn<T> = &'static mut dyn FnMut(&mut T) -> bool;

pub enum Kind<T: El> {
  Vec { p: *mut MiniVec<T>, borrowed: bool },
  Drain { it: Drain<'static, T>, src: usize },
  Splice { it: Splice<'static, ScriptIter<T>>, src: usize },
  Filter { it: DrainFilter<'static, T, PredFn<T>>, src: usize },
  Into { it: IntoIter<T> },
  Gone,
}

pub struct Slot<T: El> {
  pub name: String,
  pub kind: Kind<T>,
}

/// value-level result of an operation (what the shadow is compared with)
#[derive(PartialEq, Debug, Clone)]
pub enum Out {
  Unit,
  Opt(Option<i64>),
  Nums(Vec<u64>),
  List(Vec<i64>),
  Text(String),
  Panic,
  BadOp,
  Skip,
}

pub struct Interp<T: El> {
  pub slots: Vec<Slot<T>>,
  pub sh: Vec<Sh>, // shadow state, parallel to `slots`
  pub diff: bool,
  pub dirty: bool, // a panic / forget / leak happened: end-of-case leak oracles are off
}

/// Run `f` as (part of) an operation: allocator tracking and callback counting on, panics caught.
pub fn scoped<R>(f: impl FnOnce() -> R) -> Option<R> {
  unsafe {
    elem::IN_OP = true;
    alloc::SCOPE = true;
  }
  let r = catch_unwind(AssertUnwindSafe(f));
  unsafe {
    alloc::SCOPE = false;
    elem::IN_OP = false;
    alloc::WINDOW = false;
  }
  r.ok() // the payload is dropped here, outside the scope
}

/// print `= ok` / `= panic` for an operation without a result
pub fn done(r: Option<()>) -> Out {
  match r {
    Some(()) => {
      tl!("= ok");
      Out::Unit
    }
    None => {
      tl!("= panic");
      Out::Panic
    }
  }
}

/// print `<id>:<val>` for a raw id, flagging garbage / dead ids; returns the val
pub fn show_id(raw: u32, ctx: &str, reg: &str) -> i64 {
  if !elem::known(raw) {
    tp!("?{}:0", raw);
    unsafe { PENDING.push(format!("garbage {} reg={} raw={}", ctx, reg, raw)) };
    if raw == 0xDDDD_DDDD {
      // the fill pattern of a released block (the checking allocator never resizes in place and overwrites what it
      // retires): the element was copied out of storage that had already been given back
      unsafe { PENDING.push(format!("!freed-bytes {} reg={} holds the fill pattern of a released block", ctx, reg)) };
    }
    return 0;
  }
  tp!("{}:{}", raw, elem::val_of(raw));
  match elem::state(raw) {
    elem::DEAD => unsafe { PENDING.push(format!("destroyed-id {} reg={} id={}", ctx, reg, raw)) },
    elem::YIELDED => unsafe { PENDING.push(format!("yielded-id {} reg={} id={}", ctx, reg, raw)) },
    _ => {}
  }
  elem::val_of(raw)
}
/// ledger complaints collected while a line is being printed; flushed after the line
pub static mut PENDING: Vec<String> = Vec::new();
pub fn flush_pending() {
  for s in unsafe { PENDING.drain(..) } {
    if let Some(rest) = s.strip_prefix('!') {
      unsafe { alloc::ORACLE_HITS += 1 };
      tl!("O alloc {}", rest);
    } else {
      elem::ledger(format_args!("{}", s));
    }
  }
}

/// `= some id:val` for an element handed to the caller, who then drops it outside the operation
pub fn yield_elem<T: El>(x: T, reg: &str) -> i64 {
  let id = x.id();
  tp!("= some ");
  let v = show_id(id, "returned", reg);
  tl!("");
  flush_pending();
  if elem::state(id) == elem::LIVE {
    unsafe { elem::STATE[id as usize] = elem::YIELDED };
  }
  drop(x);
  v
}

pub fn yield_opt<T: El>(r: Option<Option<T>>, reg: &str) -> Out {
  match r {
    None => {
      tl!("= panic");
      Out::Panic
    }
    Some(None) => {
      tl!("= none");
      Out::Opt(None)
    }
    Some(Some(x)) => Out::Opt(Some(yield_elem(x, reg))),
  }
}

/// print `[id:val ...]` reading ids through raw pointers (no element values are created)
pub fn show_list<T: El>(p: *const T, len: usize, ctx: &str, reg: &str) -> Vec<i64> {
  let mut vals = Vec::new();
  tp!("[");
  for i in 0..len {
    let a = (p as usize).wrapping_add(i.wrapping_mul(core::mem::size_of::<T>()));
    if i > 0 {
      tp!(" ");
    }
    if !alloc::readable(a, core::mem::size_of::<T>()) {
      tp!("?oob:0");
      unsafe { PENDING.push(format!("garbage {} reg={} out-of-block index={} len={}", ctx, reg, i, len)) };
      break;
    }
    vals.push(show_id(unsafe { T::raw_id(a as *const T) }, ctx, reg));
  }
  tp!("]");
  vals
}

impl<T: El> Interp<T> {
  pub fn find(&self, name: &str) -> Option<usize> {
    self.slots.iter().position(|s| s.name == name)
  }
  pub fn fresh(&self, name: &str) -> Option<()> {
    if self.find(name).is_none() { Some(()) } else { None }
  }
  /// index of a live, unborrowed vector register
  pub fn vreg(&self, name: &str) -> Option<usize> {
    let i = self.find(name)?;
    match self.slots[i].kind {
      Kind::Vec { borrowed: false, .. } => Some(i),
      _ => None,
    }
  }
  pub fn mv(&self, i: usize) -> &'static mut MiniVec<T> {
    match self.slots[i].kind {
      Kind::Vec { p, .. } => unsafe { &mut *p },
      _ => unreachable!(),
    }
  }
  pub fn add(&mut self, name: &str, kind: Kind<T>) -> usize {
    self.slots.push(Slot { name: name.to_string(), kind });
    self.sh.push(Sh::Pending);
    self.slots.len() - 1
  }
  pub fn add_vec(&mut self, name: &str, v: MiniVec<T>) -> usize {
    self.add(name, Kind::Vec { p: Box::into_raw(Box::new(v)), borrowed: false })
  }
  /// move the vector out of its register (the box is freed outside the scope)
  pub fn take_vec(&mut self, i: usize) -> MiniVec<T> {
    match core::mem::replace(&mut self.slots[i].kind, Kind::Gone) {
      Kind::Vec { p, .. } => *unsafe { Box::from_raw(p) },
      _ => unreachable!(),
    }
  }
  pub fn set_borrowed(&mut self, i: usize, b: bool) {
    if let Kind::Vec { borrowed, .. } = &mut self.slots[i].kind {
      *borrowed = b;
    }
  }
  /// would creating `n` more elements overflow the id space of this class?
  pub fn room(&self, n: usize) -> Option<()> {
    // absurd counts must be refused by the crate before a single element is created; they are let
    // through (the id counter itself stops the case with `O ledger id-overflow` if it is ever hit)
    if n >= (1usize << 24) {
      return Some(());
    }
    unsafe {
      if (elem::NEXT_ID as usize).saturating_add(n) <= elem::ID_LIMIT as usize { Some(()) } else { None }
    }
  }
}

pub fn run_case(c: &Case) {
  use crate::classes::*;
  std::panic::set_hook(Box::new(|_i| unsafe {
    if std::env::var_os("HARNESS_PANICMSG").is_some() { eprintln!("{}", _i); }
    if elem::IN_OP {
      alloc::WINDOW = true;
    }
  }));
  match c.cfg.as_str() {
    "b1" => crate::interp_ops::run::<B1>(c),
    "w4" => crate::interp_ops::run::<W4>(c),
    "p4" => crate::interp_ops::run::<P4>(c),
    "p1" => crate::interp_ops::run::<P1>(c),
    "s16" => crate::interp_ops::run::<S16>(c),
    "a32" => crate::interp_ops::run::<A32>(c),
    "a16" => crate::interp_ops::run::<A16>(c),
    "big" => crate::interp_ops::run::<Big>(c),
    other => tl!("O bad-case unknown cfg {}", other),
  }
}

//! Iterator operations, plus `drop` / `forget` for both kinds of register.
#![allow(static_mut_refs)]

use crate::elem::{val_of, El};
use crate::interp::*;
use minivec::IntoIter;
use crate::script::{self, counted, It, Pred, ScriptIter};
use crate::{tl, tp};

/// run the same expression on whichever iterator lives in the slot
macro_rules! on_iter {
  ($kind:expr, $it:ident => $e:expr, filter => $f:expr) => {
    match $kind {
      Kind::Drain { it: $it, .. } => $e,
      Kind::Splice { it: $it, .. } => $e,
      Kind::Into { it: $it } => $e,
      #[allow(unused_variables)]
      Kind::Filter { it: $it, .. } => $f,
      _ => return None,
    }
  };
}

impl<T: El> Interp<T> {
  pub fn exec_iter(&mut self, op: &str, t: &[&str]) -> Option<Out> {
    let r = *t.get(1)?;
    let argc = |n: usize| if t.len() == n { Some(()) } else { None };
    Some(match op {
      "drain" | "splice" | "drain_filter" | "into_iter" => return self.make_iter(op, t),
      "next" => {
        argc(2)?;
        let i = self.find(r)?;
        let res = on_iter!(&mut self.slots[i].kind, it => scoped(|| it.next()), filter => scoped(|| it.next()));
        yield_opt(res, r)
      }
      "next_back" => {
        argc(2)?;
        let i = self.find(r)?;
        let res = on_iter!(&mut self.slots[i].kind, it => scoped(|| it.next_back()), filter => return None);
        yield_opt(res, r)
      }
      "nth" | "nth_back" => {
        // the provided methods of Iterator / DoubleEndedIterator (or whatever overrides them): the skipped elements
        // are destroyed inside the operation
        argc(3)?;
        let k: usize = t[2].parse().ok()?;
        if k > 64 {
          return None;
        }
        let i = self.find(r)?;
        let res = if op == "nth" {
          on_iter!(&mut self.slots[i].kind, it => scoped(|| it.nth(k)), filter => scoped(|| it.nth(k)))
        } else {
          on_iter!(&mut self.slots[i].kind, it => scoped(|| it.nth_back(k)), filter => return None)
        };
        yield_opt(res, r)
      }
      "count" => {
        // consumes the iterator: every remaining element is destroyed inside the operation, then the iterator
        argc(2)?;
        let i = self.find(r)?;
        match self.slots[i].kind {
          Kind::Drain { .. } | Kind::Splice { .. } | Kind::Filter { .. } | Kind::Into { .. } => {}
          _ => return None,
        }
        let res = match core::mem::replace(&mut self.slots[i].kind, Kind::Gone) {
          Kind::Drain { it, src } => {
            self.set_borrowed(src, false);
            scoped(move || it.count())
          }
          Kind::Splice { it, src } => {
            self.set_borrowed(src, false);
            scoped(move || it.count())
          }
          Kind::Filter { it, src } => {
            self.set_borrowed(src, false);
            scoped(move || it.count())
          }
          Kind::Into { it } => scoped(move || it.count()),
          _ => unreachable!(),
        };
        match res {
          Some(n) => {
            tl!("= {}", n);
            Out::Nums(vec![n as u64])
          }
          None => done(None),
        }
      }
      "last" => {
        // the provided `Iterator::last` (a `fold`, or whatever overrides either): consumes the iterator; every element
        // but the last is destroyed inside the operation, the last one is handed to the caller
        argc(2)?;
        let i = self.find(r)?;
        match self.slots[i].kind {
          Kind::Drain { .. } | Kind::Splice { .. } | Kind::Filter { .. } | Kind::Into { .. } => {}
          _ => return None,
        }
        let res = match core::mem::replace(&mut self.slots[i].kind, Kind::Gone) {
          Kind::Drain { it, src } => {
            self.set_borrowed(src, false);
            scoped(move || it.last())
          }
          Kind::Splice { it, src } => {
            self.set_borrowed(src, false);
            scoped(move || it.last())
          }
          Kind::Filter { it, src } => {
            self.set_borrowed(src, false);
            scoped(move || it.last())
          }
          Kind::Into { it } => scoped(move || it.last()),
          _ => unreachable!(),
        };
        yield_opt(res, r)
      }
      "size_hint" => {
        argc(2)?;
        let i = self.find(r)?;
        let res = on_iter!(&mut self.slots[i].kind, it => scoped(|| it.size_hint()), filter => scoped(|| it.size_hint()));
        match res {
          Some((lo, Some(hi))) => {
            tl!("= {} {}", lo, hi);
            Out::Nums(vec![lo as u64, hi as u64])
          }
          Some((lo, None)) => {
            tl!("= {} N", lo);
            Out::Nums(vec![lo as u64])
          }
          None => done(None),
        }
      }
      "len" => {
        argc(2)?;
        let i = self.find(r)?;
        let res = on_iter!(&mut self.slots[i].kind, it => scoped(|| it.len()), filter => return None);
        match res {
          Some(n) => {
            tl!("= {}", n);
            Out::Nums(vec![n as u64])
          }
          None => done(None),
        }
      }
      "as_slice" => {
        argc(2)?;
        let i = self.find(r)?;
        let Kind::Into { it } = &self.slots[i].kind else { return None };
        let res = scoped(|| {
          let s = it.as_slice();
          (s.as_ptr() as usize, s.len())
        });
        match res {
          Some((p, n)) => {
            tp!("= ");
            let vals = show_list(p as *const T, n, "as_slice", r);
            tl!("");
            flush_pending();
            Out::List(vals)
          }
          None => done(None),
        }
      }
      "iter_views" => {
        // IntoIter: as_slice, as_mut_slice and AsRef<[T]> are one and the same slice, len() is its length
        argc(2)?;
        let i = self.find(r)?;
        let Kind::Into { it } = &mut self.slots[i].kind else { return None };
        let res = scoped(|| {
          let a = {
            let s = it.as_slice();
            (s.as_ptr() as usize, s.len())
          };
          let b = {
            let s = it.as_mut_slice();
            (s.as_ptr() as usize, s.len())
          };
          let c = {
            let s: &[T] = it.as_ref();
            (s.as_ptr() as usize, s.len())
          };
          (a, b, c, it.len(), it.size_hint())
        });
        match res {
          Some((a, b, c, n, h)) => {
            if a != b || a != c || a.1 != n || h != (n, Some(n)) {
              tl!("O view-mismatch {} IntoIter views differ: as_slice={:?} as_mut_slice={:?} as_ref={:?} len={} size_hint={:?}", r, a.1, b.1, c.1, n, h);
            }
            done(Some(()))
          }
          None => done(None),
        }
      }
      "clone_from_iter" => {
        // `Clone::clone_from` on an IntoIter (the provided `*self = source.clone()` or whatever overrides it)
        argc(3)?;
        let i = self.find(r)?;
        let j = self.find(t[2])?;
        if i == j {
          return None;
        }
        let n = match &self.slots[j].kind {
          Kind::Into { it } => it.len(),
          _ => return None,
        };
        if !matches!(self.slots[i].kind, Kind::Into { .. }) {
          return None;
        }
        self.room(n)?;
        let src: *const IntoIter<T> = match &self.slots[j].kind {
          Kind::Into { it } => it as *const IntoIter<T>,
          _ => unreachable!(),
        };
        let Kind::Into { it } = &mut self.slots[i].kind else { unreachable!() };
        done(scoped(|| it.clone_from(unsafe { &*src })))
      }
      "clone_iter" => {
        argc(3)?;
        let i = self.find(r)?;
        self.fresh(t[2])?;
        let Kind::Into { it } = &self.slots[i].kind else { return None };
        self.room(it.len())?;
        match scoped(|| it.clone()) {
          Some(c) => {
            self.add(t[2], Kind::Into { it: c });
            done(Some(()))
          }
          None => done(None),
        }
      }
      "drop" | "forget" => {
        argc(2)?;
        let i = self.find(r)?;
        match self.slots[i].kind {
          Kind::Gone | Kind::Vec { borrowed: true, .. } => return None,
          _ => {}
        }
        let forget = op == "forget";
        self.dirty |= forget;
        macro_rules! fin {
          ($x:expr) => {{
            let x = $x;
            scoped(move || if forget { core::mem::forget(x) } else { drop(x) })
          }};
        }
        let res = match core::mem::replace(&mut self.slots[i].kind, Kind::Gone) {
          k @ Kind::Vec { .. } => {
            self.slots[i].kind = k;
            fin!(self.take_vec(i))
          }
          Kind::Drain { it, src } => {
            self.set_borrowed(src, false);
            fin!(it)
          }
          Kind::Splice { it, src } => {
            self.set_borrowed(src, false);
            fin!(it)
          }
          Kind::Filter { it, src } => {
            self.set_borrowed(src, false);
            fin!(it)
          }
          Kind::Into { it } => fin!(it),
          Kind::Gone => unreachable!(),
        };
        done(res)
      }
      _ => return None,
    })
  }

  fn make_iter(&mut self, op: &str, t: &[&str]) -> Option<Out> {
    let i = self.vreg(*t.get(1)?)?;
    let v = self.mv(i);
    let new = *t.last()?;
    self.fresh(new)?;
    let argc = |n: usize| if t.len() == n { Some(()) } else { None };
    let kind = match op {
      "drain" => {
        argc(5)?;
        let rg = script::ScriptRange::parse(t[2], t[3])?;
        scoped(|| v.drain(rg)).map(|it| Kind::Drain { it, src: i })
      }
      "splice" => {
        argc(6)?;
        let (rg, s) = (script::ScriptRange::parse(t[2], t[3])?, It::parse(t[4])?);
        self.room(s.items.iter().flatten().count())?;
        let si = ScriptIter::<T>::new(s);
        scoped(|| v.splice(rg, si)).map(|it| Kind::Splice { it, src: i })
      }
      "drain_filter" => {
        argc(4)?;
        let mut p = Pred::parse(t[2])?;
        let f: PredFn<T> = Box::leak(Box::new(move |x: &mut T| counted(|| p.ask(val_of(x.id())))));
        scoped(|| v.drain_filter(f)).map(|it| Kind::Filter { it, src: i })
      }
      _ => {
        argc(3)?;
        let old = self.take_vec(i);
        scoped(move || old.into_iter()).map(|it| Kind::Into { it })
      }
    };
    Some(match kind {
      Some(k) => {
        if !matches!(k, Kind::Into { .. }) {
          self.set_borrowed(i, true);
        }
        self.add(new, k);
        done(Some(()))
      }
      None => done(None),
    })
  }
}

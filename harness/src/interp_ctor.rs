//! Constructors.
#![allow(static_mut_refs)]

use crate::alloc;
use crate::elem::El;
use crate::interp::*;
use crate::script::{self, It, ScriptIter};
use crate::tl;
use minivec::{mini_vec, MiniVec};

const CTORS: &[&str] = &[
  "new", "default", "with_capacity", "with_alignment", "from_slice", "from_mut_slice", "collect",
  "macro_empty", "macro_list", "macro_repeat",
];

impl<T: El> Interp<T> {
  pub fn exec_ctor(&mut self, op: &str, t: &[&str]) -> Option<Option<Out>> {
    if CTORS.contains(&op) { Some(self.ctor(op, t)) } else { None }
  }

  /// register the freshly built vector (or report the panic)
  fn built(&mut self, name: &str, r: Option<MiniVec<T>>) -> Out {
    match r {
      Some(v) => {
        self.add_vec(name, v);
        tl!("= ok");
        Out::Unit
      }
      None => {
        tl!("= panic");
        Out::Panic
      }
    }
  }

  fn ctor(&mut self, op: &str, t: &[&str]) -> Option<Out> {
    let r = *t.get(1)?;
    self.fresh(r)?;
    let argc = |n: usize| if t.len() == n { Some(()) } else { None };
    Some(match op {
      "new" => {
        argc(2)?;
        let v = scoped(|| MiniVec::<T>::new());
        self.built(r, v)
      }
      "default" => {
        argc(2)?;
        let v = scoped(|| <MiniVec<T> as Default>::default());
        self.built(r, v)
      }
      "macro_empty" => {
        argc(2)?;
        let v = scoped(|| {
          let v: MiniVec<T> = mini_vec![];
          v
        });
        self.built(r, v)
      }
      "with_capacity" => {
        argc(3)?;
        let n = script::num(t[2])?;
        let v = scoped(|| MiniVec::<T>::with_capacity(n));
        self.built(r, v)
      }
      "with_alignment" => {
        argc(4)?;
        let (n, a) = (script::num(t[2])?, script::num(t[3])?);
        unsafe { alloc::REQ_HINT = a };
        let v = scoped(|| MiniVec::<T>::with_alignment(n, a));
        unsafe { alloc::REQ_HINT = 0 };
        match v {
          Some(Ok(v)) => self.built(r, Some(v)),
          Some(Err(e)) => {
            tl!("= err {:?}", e);
            Out::Skip
          }
          None => self.built(r, None),
        }
      }
      "from_slice" | "from_mut_slice" => {
        let vals = script::vals(&t[2..])?;
        self.room(2 * vals.len())?;
        let mut elems: Vec<T> = vals.iter().map(|&v| T::new(v)).collect();
        let v = if op == "from_slice" {
          scoped(|| MiniVec::<T>::from(&elems[..]))
        } else {
          scoped(|| MiniVec::<T>::from(&mut elems[..]))
        };
        if let Some(b) = &v {
          crate::interp_vec::alias_check(b, &elems, r);
        }
        drop(elems); // the caller drops the source slice after the operation
        self.built(r, v)
      }
      "collect" => {
        argc(3)?;
        let it = It::parse(t[2])?;
        self.room(it.items.iter().flatten().count())?;
        let si = ScriptIter::<T>::new(it);
        let v = scoped(|| si.collect::<MiniVec<T>>());
        self.built(r, v)
      }
      "macro_list" => {
        let vals = script::vals(&t[2..])?;
        if vals.is_empty() {
          return None;
        }
        self.room(vals.len())?;
        let mut a: Vec<Option<T>> = vals.iter().map(|&v| Some(T::new(v))).collect();
        let a = &mut a[..];
        let len = a.len();
        let v = scoped(|| {
          let mut k = 0;
          let mut n = || {
            k += 1;
            a[k - 1].take().unwrap()
          };
          let v: MiniVec<T> = match len {
            1 => mini_vec![n()],
            2 => mini_vec![n(), n()],
            3 => mini_vec![n(), n(), n()],
            4 => mini_vec![n(), n(), n(), n()],
            5 => mini_vec![n(), n(), n(), n(), n()],
            6 => mini_vec![n(), n(), n(), n(), n(), n()],
            len => {
              // same expansion as the macro for longer lists
              let mut tmp = MiniVec::new();
              for _ in 0..len {
                tmp.push(n());
              }
              tmp
            }
          };
          v
        });
        self.built(r, v)
      }
      "macro_repeat" => {
        argc(4)?;
        let (val, n) = (script::val(t[2])?, script::num(t[3])?);
        self.room(n.saturating_mul(2))?;
        let v = scoped(|| {
          let v: MiniVec<T> = mini_vec![T::new(val); n];
          v
        });
        self.built(r, v)
      }
      _ => return None,
    })
  }
}

//! Plain vector operations (part 1).
#![allow(static_mut_refs)]

use crate::elem::{val_of, El};
use crate::interp::*;
use crate::script::{self, counted, Gen, It, Key, Pred, ScriptIter};

const OPS: &[&str] = &[
  "push", "pop", "insert", "remove", "swap_remove", "truncate", "clear", "resize", "resize_with",
  "extend", "extend_from_slice", "extend_from_within", "dedup", "dedup_by", "dedup_by_key",
  "retain", "remove_item", "reserve", "reserve_exact", "shrink_to", "shrink_to_fit",
];

/// a borrowed source element must have been cloned, never copied bit for bit: no element of the vector may carry the
/// identity of an element the caller still owns
pub fn alias_check<T: El>(v: &minivec::MiniVec<T>, src: &[T], reg: &str) {
  let ids: Vec<u32> = src.iter().map(|e| e.id()).collect();
  let (p, len) = (v.as_ptr(), v.len().min(v.capacity()));
  for k in 0..len {
    let a = (p as usize).wrapping_add(k.wrapping_mul(core::mem::size_of::<T>()));
    if !crate::alloc::readable(a, core::mem::size_of::<T>()) {
      break;
    }
    let id = unsafe { T::raw_id(a as *const T) };
    if ids.contains(&id) {
      crate::elem::ledger(format_args!("bitwise-copy reg={} index={} id={} is still owned by the caller's slice (Clone was bypassed)", reg, k, id));
    }
  }
}

impl<T: El> Interp<T> {
  pub fn exec_vec(&mut self, op: &str, t: &[&str]) -> Option<Option<Out>> {
    if OPS.contains(&op) { Some(self.vecop(op, t)) } else { None }
  }

  fn vecop(&mut self, op: &str, t: &[&str]) -> Option<Out> {
    let r = *t.get(1)?;
    let i = self.vreg(r)?;
    let v = self.mv(i);
    let argc = |n: usize| if t.len() == n { Some(()) } else { None };
    Some(match op {
      "push" => {
        argc(3)?;
        let val = script::val(t[2])?;
        self.room(1)?;
        let x = T::new(val);
        done(scoped(move || v.push(x)))
      }
      "pop" => {
        argc(2)?;
        yield_opt(scoped(|| v.pop()), r)
      }
      "insert" => {
        argc(4)?;
        let (n, val) = (script::num(t[2])?, script::val(t[3])?);
        self.room(1)?;
        let x = T::new(val);
        done(scoped(move || v.insert(n, x)))
      }
      "remove" | "swap_remove" => {
        argc(3)?;
        let n = script::num(t[2])?;
        let res = if op == "remove" { scoped(|| v.remove(n)) } else { scoped(|| v.swap_remove(n)) };
        yield_opt(res.map(Some), r)
      }
      "truncate" => {
        argc(3)?;
        let n = script::num(t[2])?;
        done(scoped(|| v.truncate(n)))
      }
      "clear" => {
        argc(2)?;
        done(scoped(|| v.clear()))
      }
      "resize" => {
        argc(4)?;
        let (n, val) = (script::num(t[2])?, script::val(t[3])?);
        self.room(1usize.saturating_add(n.saturating_sub(v.len())))?;
        let x = T::new(val);
        done(scoped(move || v.resize(n, x)))
      }
      "resize_with" => {
        argc(4)?;
        let (n, mut g) = (script::num(t[2])?, Gen::parse(t[3])?);
        self.room(n.saturating_sub(v.len()))?;
        done(scoped(|| v.resize_with(n, || T::new(counted(|| g.ask())))))
      }
      "extend" => {
        argc(3)?;
        let it = It::parse(t[2])?;
        self.room(it.items.iter().flatten().count())?;
        let si = ScriptIter::<T>::new(it);
        done(scoped(|| v.extend(si)))
      }
      "extend_from_slice" => {
        let vals = script::vals(&t[2..])?;
        self.room(2 * vals.len())?;
        let elems: Vec<T> = vals.iter().map(|&x| T::new(x)).collect();
        let res = scoped(|| v.extend_from_slice(&elems[..]));
        alias_check(v, &elems, r);
        drop(elems);
        done(res)
      }
      "extend_from_within" => {
        argc(4)?;
        let rg = script::ScriptRange::parse(t[2], t[3])?;
        self.room(v.len())?;
        done(scoped(|| v.extend_from_within(rg)))
      }
      "dedup" => {
        argc(2)?;
        done(scoped(|| v.dedup()))
      }
      "dedup_by" => {
        argc(3)?;
        let mut p = Pred::parse(t[2])?;
        done(scoped(|| v.dedup_by(|a, b| counted(|| p.ask2(val_of(a.id()), val_of(b.id()))))))
      }
      "dedup_by_key" => {
        argc(3)?;
        let mut k = Key::parse(t[2])?;
        done(scoped(|| v.dedup_by_key(|a| counted(|| k.ask(val_of(a.id()))))))
      }
      "retain" => {
        argc(3)?;
        let mut p = Pred::parse(t[2])?;
        done(scoped(|| v.retain(|a| counted(|| p.ask(val_of(a.id()))))))
      }
      "remove_item" => {
        argc(3)?;
        let val = script::val(t[2])?;
        self.room(1)?;
        let probe = T::new(val);
        let res = scoped(|| v.remove_item(&probe));
        let out = yield_opt(res, r);
        drop(probe); // the caller drops the probe after the operation
        out
      }
      "reserve" | "reserve_exact" | "shrink_to" => {
        argc(3)?;
        let n = script::num(t[2])?;
        done(match op {
          "reserve" => scoped(|| v.reserve(n)),
          "reserve_exact" => scoped(|| v.reserve_exact(n)),
          _ => scoped(|| v.shrink_to(n)),
        })
      }
      "shrink_to_fit" => {
        argc(2)?;
        done(scoped(|| v.shrink_to_fit()))
      }
      _ => return None,
    })
  }
}

//! Checking global allocator (wraps `System`). See README "Allocator".
#![allow(static_mut_refs)]

use std::alloc::{GlobalAlloc, Layout, System};

pub const CANARY: usize = 32;
pub const LIMIT: usize = 1 << 30;
const FILL_MAX: usize = 1 << 20;
const MAXBLK: usize = 16384;
const MAXFOREIGN: usize = 64;

#[derive(Clone, Copy)]
pub struct Blk {
  pub user: usize,
  pub size: usize,
  pub align: usize,
  pub no: u32,
  pub req: usize,
  pub live: bool,
}
const NOBLK: Blk = Blk { user: 0, size: 0, align: 0, no: 0, req: 0, live: false };

/// tracking scope: on only while a MiniVec operation / drop runs (and no harness callback is active)
pub static mut SCOPE: bool = false;
/// panic window: opened by the panic hook; allocations of the panic runtime go to System untracked
pub static mut WINDOW: bool = false;
/// set once a request was refused (`Z`): the process is about to abort, nothing is tracked any more
pub static mut FAILED: bool = false;
pub static mut NATURAL_REQ: usize = 8;
pub static mut REQ_HINT: usize = 0;
pub static mut FAIL_AT: u64 = 0;
pub static mut REQ_COUNT: u64 = 0;
pub static mut ORACLE_HITS: u32 = 0;
/// the vector the running operation was invoked on (address of its handle) and a reader for it:
/// -> (capacity(), as_ptr() as usize, size_of::<T>()). Used only at the moment a request is refused.
pub static mut PROBE_PTR: usize = 0;
pub static mut PROBE_FN: Option<unsafe fn(usize) -> (usize, usize, usize)> = None;
static mut BLKS: [Blk; MAXBLK] = [NOBLK; MAXBLK];
static mut NBLK: usize = 0;
static mut FOREIGN: [usize; MAXFOREIGN] = [0; MAXFOREIGN];

pub struct Checking;

fn oracle(args: core::fmt::Arguments) {
  unsafe { ORACLE_HITS += 1 };
  crate::tp!("O alloc ");
  crate::trace::emit(args);
}

unsafe fn find_live(user: usize) -> Option<usize> {
  let mut i = NBLK;
  while i > 0 {
    i -= 1;
    if BLKS[i].live && BLKS[i].user == user {
      return Some(i);
    }
  }
  None
}

/// live block containing `addr` (end inclusive), for `H` lines
pub fn find_containing(addr: usize) -> Option<Blk> {
  unsafe {
    let mut i = NBLK;
    while i > 0 {
      i -= 1;
      let b = BLKS[i];
      if b.live && addr >= b.user && addr <= b.user + b.size {
        return Some(b);
      }
    }
  }
  None
}

/// is [addr, addr+n) inside the user area of any tracked block (live or quarantined; both stay mapped)?
pub fn readable(addr: usize, n: usize) -> bool {
  unsafe {
    let mut i = NBLK;
    while i > 0 {
      i -= 1;
      let b = BLKS[i];
      if addr >= b.user && addr.wrapping_add(n) <= b.user + b.size && addr.wrapping_add(n) >= addr {
        return true;
      }
    }
  }
  false
}

unsafe fn check_canaries(b: &Blk) {
  let pre = (b.user - CANARY) as *const u8;
  let post = (b.user + b.size) as *const u8;
  for i in 0..CANARY {
    if *pre.add(i) != 0xCA {
      oracle(format_args!("canary-before blk={} size={} byte={}", b.no, b.size, i));
      break;
    }
  }
  for i in 0..CANARY {
    if *post.add(i) != 0xCB {
      oracle(format_args!("canary-after blk={} size={} byte={}", b.no, b.size, i));
      break;
    }
  }
}

/// allocate a tracked block (request line already printed); null => `Z` printed
unsafe fn tracked_new(size: usize, align: usize, req: usize) -> *mut u8 {
  REQ_COUNT += 1;
  if size > LIMIT || REQ_COUNT == FAIL_AT || NBLK == MAXBLK {
    if NBLK == MAXBLK {
      oracle(format_args!("table-full"));
    }
    crate::tl!("Z");
    FAILED = true;
    return core::ptr::null_mut();
  }
  let slack = if align <= 4096 { 3 * align } else { align };
  let total = CANARY + slack + size + CANARY;
  let raw = System.alloc(Layout::from_size_align_unchecked(total, 16));
  if raw.is_null() {
    oracle(format_args!("system-oom size={}", size));
    crate::tl!("Z");
    FAILED = true;
    return raw;
  }
  let lo = raw as usize + CANARY;
  let user = if align <= 4096 {
    // multiple of align but not of 2*align
    ((lo + 2 * align - 1) & !(2 * align - 1)) + align
  } else {
    (lo + align - 1) & !(align - 1)
  };
  core::ptr::write_bytes((user - CANARY) as *mut u8, 0xCA, CANARY);
  core::ptr::write_bytes(user as *mut u8, 0xAA, size.min(FILL_MAX));
  core::ptr::write_bytes((user + size) as *mut u8, 0xCB, CANARY);
  BLKS[NBLK] = Blk { user, size, align, no: NBLK as u32 + 1, req, live: true };
  NBLK += 1;
  user as *mut u8
}

unsafe fn retire(i: usize) {
  check_canaries(&BLKS[i]);
  core::ptr::write_bytes(BLKS[i].user as *mut u8, 0xDD, BLKS[i].size.min(FILL_MAX));
  BLKS[i].live = false; // quarantined: never handed back to System
}

unsafe fn foreign_slot(p: usize) -> Option<usize> {
  (0..MAXFOREIGN).find(|&i| FOREIGN[i] == p && p != 0)
}

unsafe impl GlobalAlloc for Checking {
  unsafe fn alloc(&self, l: Layout) -> *mut u8 {
    if (!SCOPE && !WINDOW) || FAILED {
      return System.alloc(l);
    }
    // MiniVec never asks for less than 8-byte alignment (header); smaller alignments are the
    // panic machinery formatting its message before the hook runs
    if WINDOW || l.align() < 8 {
      let p = System.alloc(l);
      if let Some(i) = (0..MAXFOREIGN).find(|&i| FOREIGN[i] == 0) {
        FOREIGN[i] = p as usize;
      }
      return p;
    }
    crate::tl!("A {} {}", l.size(), l.align());
    let req = if REQ_HINT != 0 { REQ_HINT } else { NATURAL_REQ };
    tracked_new(l.size(), l.align(), req)
  }

  unsafe fn dealloc(&self, p: *mut u8, l: Layout) {
    if FAILED && SCOPE {
      if let Some(i) = find_live(p as usize) {
        // the code released a block after an allocator request failed, before diverging
        oracle(format_args!("freed-after-failed-request blk={} size={}", BLKS[i].no, BLKS[i].size));
      }
    }
    if !SCOPE || FAILED {
      if find_live(p as usize).is_none() {
        // a stale entry must not survive the block: its address may be handed out again later
        if let Some(i) = foreign_slot(p as usize) {
          FOREIGN[i] = 0;
        }
        System.dealloc(p, l);
      }
      return;
    }
    // a live tracked block takes precedence over a (possibly stale) foreign entry with the same address
    if find_live(p as usize).is_none() {
      if let Some(i) = foreign_slot(p as usize) {
        FOREIGN[i] = 0;
        return System.dealloc(p, l);
      }
    }
    WINDOW = false;
    crate::tl!("F {} {}", l.size(), l.align());
    match find_live(p as usize) {
      Some(i) => {
        let b = BLKS[i];
        if b.size != l.size() || b.align != l.align() {
          oracle(format_args!(
            "layout-mismatch dealloc blk={} recorded={}/{} quoted={}/{}",
            b.no, b.size, b.align, l.size(), l.align()
          ));
        }
        retire(i);
      }
      None => {
        let c = find_containing(p as usize);
        oracle(format_args!(
          "unknown-or-double-free dealloc quoted={}/{} inside-blk={} delta={}",
          l.size(), l.align(),
          c.map_or(0, |b| b.no),
          c.map_or(0, |b| p as usize - b.user)
        ));
      }
    }
  }

  unsafe fn realloc(&self, p: *mut u8, l: Layout, new_size: usize) -> *mut u8 {
    if !SCOPE || FAILED {
      if let Some(i) = foreign_slot(p as usize) {
        FOREIGN[i] = 0;
      }
      return System.realloc(p, l, new_size);
    }
    if find_live(p as usize).is_none() {
      if let Some(i) = foreign_slot(p as usize) {
        let q = System.realloc(p, l, new_size);
        if !q.is_null() {
          FOREIGN[i] = q as usize;
        }
        return q;
      }
    }
    if WINDOW {
      // a block of the panic runtime that overflowed the foreign table
      return System.realloc(p, l, new_size);
    }
    crate::tl!("R {} {} {}", l.size(), l.align(), new_size);
    match find_live(p as usize) {
      Some(i) => {
        let b = BLKS[i];
        if b.size != l.size() || b.align != l.align() {
          oracle(format_args!(
            "layout-mismatch realloc blk={} recorded={}/{} quoted={}/{}",
            b.no, b.size, b.align, l.size(), l.align()
          ));
        }
        let q = tracked_new(new_size, l.align(), b.req);
        if q.is_null() {
          // the request was refused: the block is exactly what it was, so the capacity the vector reports
          // right now must still fit into it (a capacity recorded before the request was granted does not)
          if PROBE_PTR != 0 && *(PROBE_PTR as *const usize) == p as usize {
            if let Some(f) = PROBE_FN {
              let (cap, data, esz) = f(PROBE_PTR);
              if data >= b.user && (data - b.user).saturating_add(cap.saturating_mul(esz)) > b.size {
                oracle(format_args!("capacity-exceeds-block-at-refusal blk={} size={} capacity={}", b.no, b.size, cap));
              }
            }
          }
          return q;
        }
        core::ptr::copy_nonoverlapping(p, q, b.size.min(new_size));
        retire(i);
        q
      }
      None => {
        oracle(format_args!("unknown-or-double-free realloc quoted={}/{}", l.size(), l.align()));
        tracked_new(new_size, l.align(), NATURAL_REQ) // fresh garbage block; the call is otherwise ignored
      }
    }
  }
}

/// end-of-case: verify canaries of all live blocks; optionally report them as leaks
pub fn end_of_case(report_leaks: bool) {
  unsafe {
    for i in 0..NBLK {
      if BLKS[i].live {
        check_canaries(&BLKS[i]);
        if report_leaks {
          let b = BLKS[i];
          oracle(format_args!("leak blk={} size={} align={}", b.no, b.size, b.align));
        }
      }
    }
  }
}

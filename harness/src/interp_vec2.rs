//! Plain vector operations (part 2): two-register ops, compare, raw parts, leak.
#![allow(static_mut_refs)]

use crate::elem::{self, El};
use crate::interp::*;
use crate::script;
use crate::{tl, tp};
use minivec::MiniVec;
use std::cmp::Ordering;
use std::collections::hash_map::DefaultHasher;
use std::hash::{Hash, Hasher};

const OPS: &[&str] = &[
  "append", "split_off", "drain_vec", "clone", "compare", "spare", "split_spare", "raw_parts",
  "raw_part", "leak", "clone_from", "views", "fill_spare", "fill_split_spare",
];

fn ord(o: Option<Ordering>) -> &'static str {
  match o {
    Some(Ordering::Less) => "lt",
    Some(Ordering::Equal) => "eq",
    Some(Ordering::Greater) => "gt",
    None => "none",
  }
}
fn hash_of<H: Hash + ?Sized>(x: &H) -> u64 {
  let mut h = DefaultHasher::new();
  x.hash(&mut h);
  h.finish()
}
fn bits<T>(v: &MiniVec<T>) -> usize {
  unsafe { core::mem::transmute_copy::<MiniVec<T>, usize>(v) }
}

impl<T: El> Interp<T> {
  pub fn exec_vec2(&mut self, op: &str, t: &[&str]) -> Option<Option<Out>> {
    if OPS.contains(&op) { Some(self.vecop2(op, t)) } else { None }
  }

  fn vecop2(&mut self, op: &str, t: &[&str]) -> Option<Out> {
    let r = *t.get(1)?;
    let i = self.vreg(r)?;
    let v = self.mv(i);
    let argc = |n: usize| if t.len() == n { Some(()) } else { None };
    Some(match op {
      "append" => {
        argc(3)?;
        let j = self.vreg(t[2])?;
        if i == j {
          return None;
        }
        let w = self.mv(j);
        done(scoped(|| v.append(w)))
      }
      "split_off" => {
        argc(4)?;
        let n = script::num(t[2])?;
        self.fresh(t[3])?;
        let res = scoped(|| v.split_off(n));
        self.built2(t[3], res)
      }
      "drain_vec" => {
        argc(3)?;
        self.fresh(t[2])?;
        let res = scoped(|| v.drain_vec());
        self.built2(t[2], res)
      }
      "clone" => {
        argc(3)?;
        self.fresh(t[2])?;
        self.room(v.len())?;
        let res = scoped(|| v.clone());
        self.built2(t[2], res)
      }
      "clone_from" => {
        // r.clone_from(&rsrc)
        argc(3)?;
        let j = self.vreg(t[2])?;
        if i == j {
          return None;
        }
        let w: &MiniVec<T> = self.mv(j);
        self.room(w.len())?;
        done(scoped(|| v.clone_from(w)))
      }
      "compare" => {
        argc(3)?;
        let j = self.vreg(t[2])?;
        let (a, b): (&MiniVec<T>, &MiniVec<T>) = (self.mv(i), self.mv(j));
        let res = scoped(|| (a == b, a.partial_cmp(b), a.cmp(b), hash_of(a) == hash_of(b)));
        let Some(got) = res else {
          tl!("= panic");
          return Some(Out::Panic);
        };
        tl!(
          "= {} {} {} {}",
          if got.0 { "eq" } else { "ne" },
          ord(got.1),
          ord(Some(got.2)),
          if got.3 { "heq" } else { "hne" }
        );
        // the same through slices, evaluated without scripts / counting
        if unsafe { elem::EQ_SCRIPT.is_empty() } {
          unsafe { elem::ORACLE_MODE = true };
          let (x, y) = (&a[..], &b[..]);
          let want = (x == y, x.partial_cmp(y), x.cmp(y), hash_of(x) == hash_of(y));
          unsafe { elem::ORACLE_MODE = false };
          if want != got {
            tl!("O cmp-slice-mismatch {} {} vec={:?} slice={:?}", r, t[2], got, want);
          }
        }
        Out::Text(format!("{} {} {} {}", got.0, ord(got.1), ord(Some(got.2)), got.3))
      }
      "fill_spare" | "fill_split_spare" => {
        // the documented use of the spare capacity: write up to k new elements through the slice the API hands out,
        // then set_len
        argc(4)?;
        let (k, val) = (script::num(t[2])?, script::val(t[3])?);
        if k > 4096 {
          return None;
        }
        self.room(k)?;
        let split = op == "fill_split_spare";
        let res = scoped(|| {
          let len = v.len();
          let n = if split {
            let (_init, sp) = v.split_at_spare_mut();
            let n = k.min(sp.len());
            for i in 0..n {
              sp[i].write(T::new(val + i as i64));
            }
            n
          } else {
            let sp = v.spare_capacity_mut();
            let n = k.min(sp.len());
            for i in 0..n {
              sp[i].write(T::new(val + i as i64));
            }
            n
          };
          if n > 0 {
            unsafe { v.set_len(len + n) };
          }
          n
        });
        match res {
          Some(n) => {
            tl!("= {}", n);
            Out::Nums(vec![n as u64])
          }
          None => done(None),
        }
      }
      "views" => {
        // every borrowed view of the vector must be exactly the slice [as_ptr(), len()); sub-ranges and single
        // indices must point where the slice says. No allocation inside the scope (names go into a fixed array).
        argc(2)?;
        let res = scoped(|| {
          let mut bad: [&'static str; 24] = [""; 24];
          let mut nb = 0usize;
          let sz = core::mem::size_of::<T>();
          let (p0, l0) = (v.as_ptr() as usize, v.len());
          macro_rules! chk {
            ($name:expr, $e:expr) => {{
              let s: &[T] = $e;
              // (a never-allocated vector reports a null as_ptr(); its views are empty slices at a dangling address)
              let same = if p0 == 0 { s.len() == 0 && l0 == 0 } else { (s.as_ptr() as usize, s.len()) == (p0, l0) };
              if !same && nb < 24 {
                bad[nb] = $name;
                nb += 1;
              }
            }};
          }
          {
            let vr: &MiniVec<T> = &*v;
            chk!("as_slice", vr.as_slice());
            chk!("Deref", core::ops::Deref::deref(vr));
            chk!("AsRef<[T]>", <MiniVec<T> as AsRef<[T]>>::as_ref(vr));
            chk!("Borrow<[T]>", <MiniVec<T> as core::borrow::Borrow<[T]>>::borrow(vr));
            chk!("Index<RangeFull>", &vr[..]);
            chk!("IntoIterator for &MiniVec", vr.into_iter().as_slice());
            if let std::borrow::Cow::Borrowed(s) = std::borrow::Cow::<[T]>::from(vr) {
              chk!("Cow::from(&MiniVec)", s);
            } else if nb < 24 {
              bad[nb] = "Cow::from(&MiniVec) is not borrowed";
              nb += 1;
            }
            if <MiniVec<T> as AsRef<MiniVec<T>>>::as_ref(vr) as *const MiniVec<T> != vr as *const MiniVec<T> && nb < 24 {
              bad[nb] = "AsRef<MiniVec<T>>";
              nb += 1;
            }
            for a in 0..=l0.min(3) {
              for b in a..=l0.min(4) {
                let s = &vr[a..b];
                let same = if p0 == 0 { s.len() == 0 } else { (s.as_ptr() as usize, s.len()) == (p0.wrapping_add(a * sz), b - a) };
                if !same && nb < 24 {
                  bad[nb] = "Index<Range>";
                  nb += 1;
                }
              }
            }
            for i in 0..l0.min(4) {
              if &vr[i] as *const T as usize != p0.wrapping_add(i * sz) && nb < 24 {
                bad[nb] = "Index<usize>";
                nb += 1;
              }
            }
          }
          {
            chk!("as_mut_slice", v.as_mut_slice());
            chk!("DerefMut", core::ops::DerefMut::deref_mut(v));
            chk!("AsMut<[T]>", <MiniVec<T> as AsMut<[T]>>::as_mut(v));
            chk!("BorrowMut<[T]>", <MiniVec<T> as core::borrow::BorrowMut<[T]>>::borrow_mut(v));
            chk!("IndexMut<RangeFull>", &mut v[..]);
            chk!("IntoIterator for &mut MiniVec", (&mut *v).into_iter().into_slice());
            let me = v as *mut MiniVec<T>;
            if <MiniVec<T> as AsMut<MiniVec<T>>>::as_mut(v) as *mut MiniVec<T> != me && nb < 24 {
              bad[nb] = "AsMut<MiniVec<T>>";
              nb += 1;
            }
          }
          (bad, nb)
        });
        match res {
          Some((bad, nb)) => {
            for k in 0..nb {
              tl!("O view-mismatch {} {} is not the slice [as_ptr(), len())", r, bad[k]);
            }
            done(Some(()))
          }
          None => done(None),
        }
      }
      "spare" => {
        argc(2)?;
        match scoped(|| v.spare_capacity_mut().len()) {
          Some(n) => {
            tl!("= {}", n);
            Out::Skip // capacities are never compared
          }
          None => done(None),
        }
      }
      "split_spare" => {
        argc(2)?;
        let res = scoped(|| {
          let (a, b) = v.split_at_spare_mut();
          (a.len(), b.len())
        });
        match res {
          Some((a, b)) => {
            tl!("= {} {}", a, b);
            Out::Nums(vec![a as u64])
          }
          None => done(None),
        }
      }
      "raw_parts" | "raw_part" => {
        argc(2)?;
        if v.as_mut_ptr().is_null() {
          tl!("= none");
          return Some(Out::Skip);
        }
        let before = bits(v);
        // the conversions "neither free nor alter anything": the spare capacity is given a known content first and looked at
        // again afterwards (its bytes belong to the buffer like the elements do)
        let esz = core::mem::size_of::<T>();
        let (l0, c0) = (v.len(), v.capacity());
        let spare_bytes = c0.saturating_sub(l0) * esz;
        if spare_bytes > 0 && spare_bytes <= (1 << 20) {
          unsafe { core::ptr::write_bytes((v.as_mut_ptr() as *mut u8).add(l0 * esz), 0x5A, spare_bytes) };
        }
        let old = self.take_vec(i);
        let parts = op == "raw_parts";
        let res = scoped(move || {
          if parts {
            let (p, l, c) = old.into_raw_parts();
            // "neither free nor alter anything": the header behind the pointer still says what the vector said, so the
            // one-argument constructor (which has nothing but the header to go by) sees the same length and capacity
            let probe = unsafe { MiniVec::<T>::from_raw_part(p) };
            let (pl, pc) = (probe.len(), probe.capacity());
            core::mem::forget(probe);
            if (pl, pc) != (l, c) {
              tl!("O rawparts into_raw_parts altered the header: it returned len {} cap {} but from_raw_part on its pointer sees len {} cap {}", l, c, pl, pc);
            }
            (unsafe { MiniVec::from_raw_parts(p, l, c) }, l, c)
          } else {
            let mut old = old;
            let p = old.as_mut_ptr();
            core::mem::forget(old);
            (unsafe { MiniVec::from_raw_part(p) }, 0, 0)
          }
        });
        match res {
          Some((nv, l, c)) => {
            let after = bits(&nv);
            let spare_changed = if after == before && spare_bytes > 0 && spare_bytes <= (1 << 20) && nv.len() == l0 && nv.capacity() == c0 {
              let p = unsafe { (nv.as_ptr() as *const u8).add(l0 * esz) };
              (0..spare_bytes).filter(|k| unsafe { *p.add(*k) } != 0x5A).count()
            } else {
              0
            };
            self.slots[i].kind = Kind::Vec { p: Box::into_raw(Box::new(nv)), borrowed: false };
            if parts {
              tl!("= {} {}", l, c);
            } else {
              tl!("= ok");
            }
            if after != before {
              tl!("O rawparts {} handle moved by {} bytes", r, after.wrapping_sub(before) as isize);
            } else if spare_changed > 0 {
              tl!("O rawparts {} the round trip altered {} of the {} bytes of spare capacity", r, spare_changed, spare_bytes);
            }
            if parts { Out::Nums(vec![l as u64]) } else { Out::Unit }
          }
          None => {
            self.dirty = true; // the buffer is leaked
            done(None)
          }
        }
      }
      "leak" => {
        argc(2)?;
        let old = self.take_vec(i);
        self.dirty = true;
        // (ptr, len) leave the closure as integers: a null slice pointer (leak of an empty
        // vector in release builds) would otherwise read back as `None`
        let res = scoped(move || {
          let s = MiniVec::leak(old);
          (s.as_ptr() as usize, s.len())
        });
        match res {
          Some((p, n)) => {
            tp!("= ");
            let vals = show_list(p as *const T, n, "leaked", r);
            tl!("");
            flush_pending();
            Out::List(vals)
          }
          None => done(None),
        }
      }
      _ => return None,
    })
  }

  fn built2(&mut self, name: &str, r: Option<MiniVec<T>>) -> Out {
    match r {
      Some(v) => {
        self.add_vec(name, v);
        done(Some(()))
      }
      None => done(None),
    }
  }
}

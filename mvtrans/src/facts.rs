//! Syntactic facts read off the source: struct fields, public signatures and what their results
//! borrow from, `unsafe impl Send/Sync` bounds, the delegation shape of the comparison / hash /
//! debug / borrow impls, and every allocator call site. Emitted as plain Lean data (enumerations,
//! no strings) so that theorems about them are decided by the kernel.
use crate::ex::toks;
use std::collections::{BTreeMap, BTreeSet};
use syn::*;

fn norm<T: quote::ToTokens>(t: &T) -> String {
  toks(t).replace(' ', "")
}

fn field_ty(t: &Type) -> &'static str {
  let s = norm(t);
  match s.as_str() {
    "core::ptr::NonNull<u8>" | "NonNull<u8>" => "nonNullU8",
    "core::ptr::NonNull<T>" | "core::ptr::NonNull<I::Item>" => "nonNullT",
    "core::ptr::NonNull<MiniVec<T>>" | "core::ptr::NonNull<MiniVec<I::Item>>" => "nonNullVec",
    "core::marker::PhantomData<T>" | "PhantomData<T>" => "phantomT",
    "core::marker::PhantomData<&'aT>" | "core::marker::PhantomData<&'aI::Item>" => "phantomRefT",
    "usize" => "usize",
    "bool" => "bool",
    "*constT" => "rawConstT",
    "*mutT" => "rawMutT",
    "*mutu8" | "*constu8" => "rawU8",
    "T" => "elemT",
    "&'amutcrate::MiniVec<T>" | "&'amutMiniVec<T>" => "vecRefMut",
    "crate::MiniVec<T>" | "MiniVec<T>" => "vecOwned",
    "F" => "closure",
    "I" => "iter",
    _ => "other",
  }
}

struct SigFact {
  has_drop: bool,
  name: String,
  recv: &'static str,
  borrow: &'static str,
  outlives_bound: bool,
  is_unsafe: bool,
  lifetime_generic: bool,
}

fn has_lifetime_params(g: &Generics) -> bool {
  g.params.iter().any(|p| matches!(p, GenericParam::Lifetime(_)))
}

fn classify_return(sig: &Signature, lifetime_types: &BTreeSet<String>) -> (&'static str, bool) {
  let recv = sig.receiver();
  let ret = match &sig.output {
    ReturnType::Default => return ("none", false),
    ReturnType::Type(_, t) => t,
  };
  let s = norm(ret);
  let fn_lts: Vec<String> = sig
    .generics
    .params
    .iter()
    .filter_map(|p| if let GenericParam::Lifetime(l) = p { Some(l.lifetime.to_string()) } else { None })
    .collect();
  // `T: 'a` anywhere in the generics / where clause
  let mut outlives = false;
  for p in &sig.generics.params {
    if let GenericParam::Type(t) = p {
      if t.bounds.iter().any(|b| matches!(b, TypeParamBound::Lifetime(_))) {
        outlives = true;
      }
    }
  }
  if let Some(w) = &sig.generics.where_clause {
    for p in &w.predicates {
      if let WherePredicate::Type(t) = p {
        if norm(&t.bounded_ty) == "T" && t.bounds.iter().any(|b| matches!(b, TypeParamBound::Lifetime(_))) {
          outlives = true;
        }
      }
    }
  }
  if s.contains("'static") {
    return ("static_", outlives);
  }
  for l in &fn_lts {
    if s.contains(l.as_str()) {
      return ("named", outlives);
    }
  }
  let mentions_ref = s.contains('&') || s.contains("'_") || lifetime_types.iter().any(|t| {
    // the type is used without a named lifetime argument => elided
    s.contains(&format!("{}<", t)) || s == *t
  });
  if !mentions_ref {
    return ("none", outlives);
  }
  match recv {
    Some(r) if r.reference.is_some() && r.mutability.is_some() => ("mut_", outlives),
    Some(r) if r.reference.is_some() => ("shared", outlives),
    _ => ("none", outlives),
  }
}

fn deleg_shape(body: &str) -> &'static str {
  let b = body.replace(' ', "");
  // recognised "deref both sides to [T] and delegate" shapes: the WHOLE body must be the delegation
  match b.as_str() {
    "{self[..]==other[..]}" => "sliceEq",
    "{letx:&[T]=&**self;lety:&[T]=&**other;x.cmp(y)}" => "sliceCmp",
    "{letx:&[T]=&**self;lety:&[T]=&**other;PartialOrd::partial_cmp(x,y)}" => "slicePartialCmp",
    "{letthis:&[T]=&**self;core::hash::Hash::hash(this,state);}" => "sliceHash",
    "{letthis:&[T]=&*self;this.fmt(f)}" => "sliceFmt",
    "{&(self[..])}" | "{self}" | "{&mut(self[..])}" | "{&mut*self}" => "sliceRef",
    "{letv:&[T]=&**self;core::ops::Index::index(v,index)}" => "sliceIndex",
    "{letv:&mut[T]=&mut**self;core::ops::IndexMut::index_mut(v,index)}" => "sliceIndexMut",
    _ => "other",
  }
}

/// the body of `fn eq` inside the `minivec_eq_impl!` macro definition
fn macro_eq_fn_body(mac: &str) -> String {
  let m = mac.replace(' ', "");
  if let Some(i) = m.find("fneq(&self,other:&$rhs)->bool") {
    let rest = &m[i + "fneq(&self,other:&$rhs)->bool".len()..];
    // balanced braces
    let mut depth = 0i32;
    for (k, c) in rest.char_indices() {
      if c == '{' { depth += 1; }
      if c == '}' { depth -= 1; if depth == 0 { return rest[..=k].to_string(); } }
    }
  }
  String::new()
}

pub fn facts(files: &[(String, File)]) -> (String, String) {
  let mut structs: BTreeMap<String, (Vec<&'static str>, bool, bool)> = BTreeMap::new(); // fields, repr_c, has lifetime
  let mut lifetime_types = BTreeSet::new();
  let mut sigs: Vec<SigFact> = vec![];
  let mut unsafe_impls: Vec<(String, String, String)> = vec![]; // trait, type, bound on T
  let mut deleg: BTreeMap<String, &'static str> = BTreeMap::new();
  let mut alloc_sites: Vec<(String, String)> = vec![];
  let mut macro_eq_body = String::new();
  let mut drop_types: BTreeSet<String> = BTreeSet::new();
  let mut exported_mods: Vec<String> = vec![];
  let mut provided_overrides: Vec<String> = vec![];
  let mut iterator_overrides: Vec<String> = vec![];
  // which operand pairs get their `PartialEq` from the delegating macro, and comparison impls that come from elsewhere
  let mut iter_pub_fns: Vec<String> = vec![];
  let mut eq_macro_uses: Vec<String> = vec![];
  let mut other_eq_macros: Vec<String> = vec![];
  for (rel, f) in files {
    for it in &f.items {
      if let Item::Macro(m) = it {
        if m.ident.is_none() && m.mac.path.is_ident("minivec_eq_impl") {
          eq_macro_uses.push(norm(&m.mac.tokens));
        } else if rel.ends_with("partial_eq.rs") && !(m.ident.as_ref().map(|i| i == "minivec_eq_impl").unwrap_or(false)) {
          other_eq_macros.push(format!("{}!", m.ident.as_ref().map(|i| i.to_string()).unwrap_or_else(|| norm(&m.mac.path))));
        }
      }
    }
  }
  eq_macro_uses.sort();
  for (_, f) in files {
    for it in &f.items {
      if let Item::Impl(im) = it {
        if let Some((_, p, _)) = &im.trait_ {
          if p.segments.last().map(|x| x.ident == "Drop").unwrap_or(false) {
            let t = norm(&im.self_ty);
            drop_types.insert(t.split('<').next().unwrap_or("").to_string());
          }
        }
      }
    }
  }

  for (_, f) in files {
    for it in &f.items {
      if let Item::Struct(s) = it {
        let name = s.ident.to_string();
        if has_lifetime_params(&s.generics) {
          lifetime_types.insert(name.clone());
        }
      }
      if let Item::Macro(m) = it {
        if m.ident.as_ref().map(|i| i == "minivec_eq_impl").unwrap_or(false) {
          macro_eq_body = norm(&m.mac.tokens);
        }
      }
    }
  }
  for (rel, f) in files {
    for it in &f.items {
      match it {
        Item::Mod(m) => {
          // a module that is reachable from outside the crate exposes the iterator constructors (whose lifetime
          // parameter is not tied to anything) and the layout helpers
          if matches!(m.vis, Visibility::Public(_)) && rel == "lib.rs" {
            exported_mods.push(format!("{}::{}", rel, m.ident));
          }
        }
        Item::Use(u) if matches!(u.vis, Visibility::Public(_)) && rel == "lib.rs" => {
          // what the crate root re-exports: the four iterator TYPES and nothing else
          fn leaves(t: &UseTree, out: &mut Vec<String>) {
            match t {
              UseTree::Path(p) => leaves(&p.tree, out),
              UseTree::Name(n) => out.push(n.ident.to_string()),
              UseTree::Rename(r) => out.push(r.ident.to_string()),
              UseTree::Glob(_) => out.push("*".into()),
              UseTree::Group(g) => g.items.iter().for_each(|i| leaves(i, out)),
            }
          }
          let mut ls = vec![];
          leaves(&u.tree, &mut ls);
          for l in ls {
            if !["Drain", "DrainFilter", "IntoIter", "Splice"].contains(&l.as_str()) {
              exported_mods.push(format!("{}::use {}", rel, l));
            }
          }
        }
        Item::Struct(s) => {
          let name = s.ident.to_string();
          let fields: Vec<&'static str> = match &s.fields {
            Fields::Named(n) => n.named.iter().map(|f| field_ty(&f.ty)).collect(),
            Fields::Unnamed(u) => u.unnamed.iter().map(|f| field_ty(&f.ty)).collect(),
            Fields::Unit => vec![],
          };
          let repr_c = s.attrs.iter().any(|a| norm(a).contains("repr(C)"));
          structs.insert(name, (fields, repr_c, has_lifetime_params(&s.generics)));
        }
        Item::Impl(im) => {
          let self_ty = norm(&im.self_ty);
          let tr = im.trait_.as_ref().map(|(_, p, _)| p.segments.last().unwrap().ident.to_string());
          if im.unsafety.is_some() {
            if let Some(t) = &tr {
              let bound = im
                .generics
                .params
                .iter()
                .filter_map(|p| if let GenericParam::Type(tp) = p { Some(norm(&tp.bounds)) } else { None })
                .collect::<Vec<_>>()
                .join("+");
              unsafe_impls.push((t.clone(), self_ty.clone(), bound));
            }
          }
          // provided methods of the iterator traits (and of Clone) that an impl for one of the crate's types overrides:
          // the model defines nth / nth_back / count / last / fold / clone_from from next / next_back / clone the way
          // `core` does, which describes the code only as long as the code does not define them itself
          if let Some(t) = &tr {
            let ty0 = self_ty.split('<').next().unwrap_or("").trim().to_string();
            let ours = ["MiniVec", "IntoIter", "Drain", "Splice", "DrainFilter"].contains(&ty0.as_str());
            let allowed: &[&str] = match t.as_str() {
              "Iterator" => &["next", "size_hint"],
              "DoubleEndedIterator" => &["next_back"],
              "ExactSizeIterator" => &["len"],
              "FusedIterator" => &[],
              "Clone" => &["clone"],
              _ => &["*"],
            };
            if ours && allowed != ["*"] {
              for ii in &im.items {
                if let ImplItem::Fn(m) = ii {
                  if !allowed.contains(&m.sig.ident.to_string().as_str()) {
                    iterator_overrides.push(format!("{} for {}::{}", t, ty0, m.sig.ident));
                  }
                }
              }
            }
          }
          for ii in &im.items {
            if let ImplItem::Fn(m) = ii {
              // allocator call sites
              struct V<'a>(&'a mut Vec<(String, String)>, String);
              impl<'a, 'ast> visit::Visit<'ast> for V<'a> {
                fn visit_expr_call(&mut self, c: &'ast ExprCall) {
                  if let Expr::Path(p) = &*c.func {
                    let s = p.path.segments.iter().map(|x| x.ident.to_string()).collect::<Vec<_>>().join("::");
                    if s.starts_with("alloc::alloc::") && !s.ends_with("handle_alloc_error") && !s.ends_with("Layout") {
                      self.0.push((self.1.clone(), s.rsplit("::").next().unwrap().to_string()));
                    }
                  }
                  visit::visit_expr_call(self, c);
                }
              }
              let ctx = format!("{}::{}", rel, m.sig.ident);
              visit::Visit::visit_block(&mut V(&mut alloc_sites, ctx), &m.block);

              if tr.is_none() && matches!(m.vis, Visibility::Public(_)) {
                for itn in ["Drain", "Splice", "DrainFilter", "IntoIter"] {
                  if self_ty.starts_with(&format!("{}<", itn)) {
                    iter_pub_fns.push(format!("{}::{}", itn, m.sig.ident));
                  }
                }
              }
              if self_ty.starts_with("MiniVec<") {
                match &tr {
                  None => {
                    if matches!(m.vis, Visibility::Public(_)) {
                      let (borrow, outl) = classify_return(&m.sig, &lifetime_types);
                      let recv = match m.sig.receiver() {
                        Some(r) if r.reference.is_some() && r.mutability.is_some() => "refMut",
                        Some(r) if r.reference.is_some() => "ref_",
                        Some(_) => "owned",
                        None => "none",
                      };
                      let rt = norm(&m.sig.output);
                      let has_drop = drop_types.iter().any(|t| t != "MiniVec" && !t.is_empty() && (rt.contains(&format!("{}<", t)) || rt.ends_with(t.as_str())));
                      sigs.push(SigFact {
                        has_drop,
                        name: m.sig.ident.to_string(),
                        recv,
                        borrow,
                        outlives_bound: outl,
                        is_unsafe: m.sig.unsafety.is_some(),
                        lifetime_generic: has_lifetime_params(&m.sig.generics),
                      });
                    }
                  }
                  Some(t) => {
                    // a provided method of a comparison / hashing / formatting trait that the impl overrides
                    // (`ne`, `lt`, `max`, `hash_slice`, ...): it is a second definition of the operator
                    let required = match t.as_str() {
                      "PartialEq" => Some("eq"),
                      "PartialOrd" => Some("partial_cmp"),
                      "Ord" => Some("cmp"),
                      "Hash" => Some("hash"),
                      "Debug" => Some("fmt"),
                      _ => None,
                    };
                    if let Some(r) = required {
                      if m.sig.ident != r {
                        provided_overrides.push(format!("{}::{}", t, m.sig.ident));
                      }
                    }
                    let key = match (t.as_str(), m.sig.ident.to_string().as_str()) {
                      ("Ord", "cmp") => Some("ord"),
                      ("PartialOrd", "partial_cmp") => Some("partialOrd"),
                      ("Hash", "hash") => Some("hash"),
                      ("Debug", "fmt") => Some("debug"),
                      ("Borrow", "borrow") => Some("borrow"),
                      ("BorrowMut", "borrow_mut") => Some("borrowMut"),
                      ("Index", "index") => Some("index"),
                      ("IndexMut", "index_mut") => Some("indexMut"),
                      ("AsRef", "as_ref") if norm(&m.sig.output).contains("[T]") => Some("asRefSlice"),
                      ("AsMut", "as_mut") if norm(&m.sig.output).contains("[T]") => Some("asMutSlice"),
                      _ => None,
                    };
                    if let Some(k) = key {
                      deleg.insert(k.to_string(), deleg_shape(&norm(&m.block)));
                    }
                  }
                }
              }
            }
          }
        }
        _ => {}
      }
    }
  }
  deleg.insert("partialEq".into(), deleg_shape(&macro_eq_fn_body(&macro_eq_body)));
  // the `PartialEq` impls come out of a macro: any `fn` in its body besides `eq` is an override too
  let mb = macro_eq_body.replace(' ', "");
  let fns = mb.matches("fn").count();
  if fns > 1 {
    provided_overrides.push(format!("PartialEq::<{} extra fn in minivec_eq_impl!>", fns - 1));
  }

  // ---- Lean
  let mut l = String::from("/- GENERATED by mvtrans from /repo/src on every run. Do not edit. -/\nnamespace MV.Gen.Facts\n\n");
  l.push_str("inductive FieldTy\n  | nonNullU8 | nonNullT | nonNullVec | phantomT | phantomRefT | usize | bool | rawConstT | rawMutT | rawU8\n  | elemT | vecRefMut | vecOwned | closure | iter | other\n  deriving DecidableEq, Repr\n\n");
  for name in ["MiniVec", "Header", "Drain", "Splice", "DrainFilter", "IntoIter"] {
    let (fields, repr_c, _) = structs.get(name).cloned().unwrap_or((vec!["other"], false, false));
    l.push_str(&format!(
      "def fields{} : List FieldTy := [{}]\ndef reprC{} : Bool := {}\n",
      name,
      fields.iter().map(|f| format!(".{}", f)).collect::<Vec<_>>().join(", "),
      name,
      repr_c
    ));
  }
  l.push_str("\ninductive Recv | ref_ | refMut | owned | none\n  deriving DecidableEq, Repr\n");
  l.push_str("/-- what the value returned by a public method borrows from: nothing, `&self`, `&mut self` (by elision),\n    a lifetime named on the function, or `'static` -/\ninductive Borrow | none | shared | mut_ | named | static_\n  deriving DecidableEq, Repr\n\n");
  let mut seen = BTreeSet::new();
  sigs.retain(|s| seen.insert(s.name.clone()));
  l.push_str("inductive Api\n");
  for s in &sigs {
    l.push_str(&format!("  | {}\n", lean_ident(&s.name)));
  }
  l.push_str("  deriving DecidableEq, Repr\n\n");
  l.push_str("def allApis : List Api := [");
  l.push_str(&sigs.iter().map(|s| format!(".{}", lean_ident(&s.name))).collect::<Vec<_>>().join(", "));
  l.push_str("]\n\n");
  for (fname, ty, get) in [
    ("recv", "Recv", Box::new(|s: &SigFact| format!(".{}", s.recv)) as Box<dyn Fn(&SigFact) -> String>),
    ("borrow", "Borrow", Box::new(|s: &SigFact| format!(".{}", s.borrow))),
    ("elemOutlives", "Bool", Box::new(|s: &SigFact| s.outlives_bound.to_string())),
    ("isUnsafe", "Bool", Box::new(|s: &SigFact| s.is_unsafe.to_string())),
    ("resultHasDrop", "Bool", Box::new(|s: &SigFact| s.has_drop.to_string())),
    ("declaresLifetime", "Bool", Box::new(|s: &SigFact| s.lifetime_generic.to_string())),
  ] {
    l.push_str(&format!("def {} : Api → {}\n", fname, ty));
    for s in &sigs {
      l.push_str(&format!("  | .{} => {}\n", lean_ident(&s.name), get(s)));
    }
    l.push('\n');
  }
  l.push_str("/-- for the command-line driver only (no theorem mentions strings) -/\ndef apiOfName (s : String) : Option Api :=\n  match s with\n");
  for s in &sigs {
    l.push_str(&format!("  | \"{}\" => some .{}\n", s.name, lean_ident(&s.name)));
  }
  l.push_str("  | _ => none\n\n");
  l.push_str(&format!("/-- `pub mod` declarations at the crate root, and names other than the four iterator types that the crate root re-exports: either\n    makes the crate's internals (the iterator constructors with their free lifetime parameter) nameable by clients -/\ndef exportedModules : Nat := {}\n\n", exported_mods.len()));
  l.push_str("/-- bound on `T` of an `unsafe impl Send/Sync` -/\ninductive AutoBound | send | sync | unbounded | otherBound | absent\n  deriving DecidableEq, Repr\n\n");
  for ty in ["MiniVec", "IntoIter", "Drain", "Splice", "DrainFilter"] {
    for tr in ["Send", "Sync"] {
      let found = unsafe_impls.iter().find(|(t, s, _)| t == tr && s.starts_with(&format!("{}<", ty)));
      let v = match found {
        None => "absent",
        Some((_, _, b)) => {
          let b = b.replace("core::marker::", "");
          if b == "Send" {
            "send"
          } else if b == "Sync" {
            "sync"
          } else if b.is_empty() {
            "unbounded"
          } else {
            "otherBound"
          }
        }
      };
      l.push_str(&format!("def unsafeImpl{}{} : AutoBound := .{}\n", tr, ty, v));
    }
  }
  l.push_str("\n/-- how a trait impl of `MiniVec` computes its answer -/\ninductive Deleg | sliceEq | sliceCmp | slicePartialCmp | sliceHash | sliceFmt | sliceRef | sliceIndex | sliceIndexMut | other | absent\n  deriving DecidableEq, Repr\n\n");
  for k in ["partialEq", "ord", "partialOrd", "hash", "debug", "borrow", "borrowMut", "asRefSlice", "asMutSlice", "index", "indexMut"] {
    l.push_str(&format!("def deleg_{} : Deleg := .{}\n", k, deleg.get(k).copied().unwrap_or("absent")));
  }
  l.push_str(&format!("\n/-- provided methods of PartialEq / PartialOrd / Ord / Hash / Debug that an impl for `MiniVec` overrides -/\ndef providedOverrides : Nat := {}\n", provided_overrides.len()));
  l.push_str(&format!("\n/-- the operand pairs whose `PartialEq` comes from the delegating macro `minivec_eq_impl!` (sorted) -/\ndef eqMacroUses : List String := [{}]\n",
    eq_macro_uses.iter().map(|m| format!("\"{}\"", m.replace('\\', "\\\\").replace('"', "\\\""))).collect::<Vec<_>>().join(", ")));
  iter_pub_fns.sort();
  l.push_str(&format!("\n/-- the public inherent methods of the four iterator types (a new one could hand out a borrow with the iterator's own lifetime, or build an iterator whose lifetime is tied to nothing) -/\ndef iteratorPubFns : List String := [{}]\n",
    iter_pub_fns.iter().map(|m| format!("\"{}\"", m)).collect::<Vec<_>>().join(", ")));
  l.push_str(&format!("\n/-- other macros defined or used in partial_eq.rs (each could generate comparison impls of another shape) -/\ndef otherEqMacros : Nat := {}\n", other_eq_macros.len()));
  l.push_str(&format!("\n/-- provided methods of Iterator / DoubleEndedIterator / ExactSizeIterator / Clone (other than `len`) that an impl for\n    MiniVec or one of its iterators overrides -/\ndef iteratorOverrides : Nat := {}\n", iterator_overrides.len()));
  l.push_str("\n/-- a call of the global allocator API and the function it occurs in -/\ninductive AllocSite | growAlloc | growRealloc | dropDealloc | otherSite\n  deriving DecidableEq, Repr\n\n");
  let sites: Vec<&str> = alloc_sites
    .iter()
    .map(|(ctx, callee)| match (ctx.as_str(), callee.as_str()) {
      ("lib.rs::grow", "alloc") => "growAlloc",
      ("lib.rs::grow", "realloc") => "growRealloc",
      ("drop.rs::drop", "dealloc") => "dropDealloc",
      _ => "otherSite",
    })
    .collect();
  l.push_str(&format!("def allocSites : List AllocSite := [{}]\n", sites.iter().map(|s| format!(".{}", s)).collect::<Vec<_>>().join(", ")));
  l.push_str("\nend MV.Gen.Facts\n");

  // ---- json
  let mut j = String::from("{\n \"apis\": [");
  j.push_str(&sigs.iter().map(|s| format!("{{\"name\": \"{}\", \"recv\": \"{}\", \"borrow\": \"{}\", \"elem_outlives\": {}}}", s.name, s.recv, s.borrow, s.outlives_bound)).collect::<Vec<_>>().join(", "));
  j.push_str("],\n \"exported_modules\": [");
  j.push_str(&exported_mods.iter().map(|m| format!("\"{}\"", m)).collect::<Vec<_>>().join(", "));
  j.push_str("],\n \"iterator_overrides\": [");
  j.push_str(&iterator_overrides.iter().map(|m| format!("\"{}\"", m)).collect::<Vec<_>>().join(", "));
  j.push_str("],\n \"provided_overrides\": [");
  j.push_str(&provided_overrides.iter().map(|m| format!("\"{}\"", m)).collect::<Vec<_>>().join(", "));
  j.push_str("],\n \"alloc_sites\": [");
  j.push_str(&alloc_sites.iter().map(|(a, b)| format!("\"{} -> {}\"", a, b)).collect::<Vec<_>>().join(", "));
  j.push_str("],\n \"unsafe_impls\": [");
  j.push_str(&unsafe_impls.iter().map(|(a, b, c)| format!("\"{} for {} where T: {}\"", a, b, c)).collect::<Vec<_>>().join(", "));
  j.push_str("]\n}");
  (l, j)
}

fn lean_ident(s: &str) -> String {
  match s {
    "new" | "from" | "end" | "at" | "do" | "then" | "else" | "let" | "in" | "with" | "open" | "def" | "fun" => format!("{}_", s),
    _ => s.to_string(),
  }
}

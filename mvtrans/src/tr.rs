//! Function discovery, statement translation and emission of Gen/Kernel.lean.
use crate::ex::{strip, toks, R};
use std::collections::{BTreeSet, HashMap};
use syn::*;

#[derive(Clone, Copy, PartialEq, Eq, Debug)]
pub enum Kind {
  Nat,
  Bool,
  DPtr,
  Tok,
  Layout,
  Header,
  OptNat,
  OptLayout,
  Unit,
  Sentinel,
  NewVec,
  LayoutRes,
}

impl Kind {
  pub fn lean(self) -> Option<&'static str> {
    Some(match self {
      Kind::Nat => "Nat",
      Kind::Bool => "Bool",
      Kind::DPtr => "DPtr",
      Kind::Tok => "Tok",
      Kind::Layout => "Layout",
      Kind::Header => "HeaderV",
      Kind::OptNat => "Option Nat",
      Kind::OptLayout => "Option Layout",
      Kind::Unit | Kind::NewVec => "Unit",
      Kind::LayoutRes => "Except LayoutErr Unit",
      Kind::Sentinel => return None,
    })
  }
}

#[derive(Clone, Debug)]
pub struct Sig {
  pub lean: String,
  pub params: Vec<Kind>,
  pub ret: Kind,
  pub pure: bool,
}

pub struct Cx<'a> {
  pub pure: bool,
  pub vars: Vec<(String, String, Kind)>,
  pub tmp: usize,
  pub full: &'a HashMap<String, Sig>,
  pub ctor_vec: Option<String>,
  pub has_self: bool,
  pub slice_params: Vec<String>,
  pub range_param: Option<String>,
  pub aux: Vec<String>,
  pub fname: String,
  pub ret: Kind,
  pub ret_count: usize,
  pub prefix: bool,
  pub stop: Option<(String, String)>, // (statement text, reason)
  pub env_def: Option<String>,
  pub uses: BTreeSet<String>,
  pub nloops: usize,
}

struct FnInfo {
  name: String, // lean/base name
  file: String,
  item_sig: Signature,
  body: Block,
  has_self: bool,
  pure: bool,
}

fn attrs_cfg_test(attrs: &[Attribute]) -> bool {
  attrs.iter().any(|a| toks(a).replace(' ', "").contains("cfg(test)"))
}

fn discover(files: &[(String, File)]) -> Vec<FnInfo> {
  let mut out = vec![];
  for (rel, f) in files {
    for it in &f.items {
      match it {
        Item::Fn(func) if (rel == "impl/helpers.rs" || rel == "serde.rs") && !attrs_cfg_test(&func.attrs) => {
          if func.attrs.iter().any(|a| a.path().is_ident("test")) {
            continue;
          }
          out.push(FnInfo {
            name: func.sig.ident.to_string(),
            file: rel.clone(),
            item_sig: func.sig.clone(),
            body: (*func.block).clone(),
            has_self: false,
            pure: true,
          });
        }
        Item::Impl(im) => {
          let self_ty = toks(&im.self_ty).replace(' ', "");
          if !self_ty.starts_with("MiniVec<") {
            continue;
          }
          let tr = im.trait_.as_ref().map(|(_, p, _)| p.segments.last().unwrap().ident.to_string());
          for ii in &im.items {
            if let ImplItem::Fn(m) = ii {
              let base = m.sig.ident.to_string();
              let name = match &tr {
                None => base,
                Some(t) if t == "Drop" => "drop_impl".to_string(),
                Some(_) => continue,
              };
              let has_self = m.sig.receiver().is_some();
              out.push(FnInfo {
                name,
                file: rel.clone(),
                item_sig: m.sig.clone(),
                body: m.block.clone(),
                has_self,
                pure: false,
              });
            }
          }
        }
        _ => {}
      }
    }
  }
  out
}

fn ty_kind(t: &Type) -> Option<Kind> {
  let s = toks(t).replace(' ', "");
  match s.as_str() {
    "usize" => Some(Kind::Nat),
    "bool" => Some(Kind::Bool),
    "Option<usize>" => Some(Kind::OptNat),
    "*mutT" | "*constT" => Some(Kind::DPtr),
    "alloc::alloc::Layout" | "Layout" | "core::alloc::Layout" => Some(Kind::Layout),
    "MiniVec<T>" | "Self" => Some(Kind::NewVec),
    "Result<MiniVec<T>,LayoutErr>" => Some(Kind::LayoutRes),
    _ => None,
  }
}

const RESERVED: &[&str] = &["end", "at", "from", "fun", "have", "show", "then", "else", "do", "let", "in", "with", "open", "def"];

impl<'a> Cx<'a> {
  pub fn lookup(&self, name: &str) -> Option<(String, Kind)> {
    self.vars.iter().rev().find(|v| v.0 == name).map(|v| (v.1.clone(), v.2))
  }
  fn declare(&mut self, name: &str, k: Kind) -> String {
    let lean = format!("v_{}", name);
    self.vars.push((name.to_string(), lean.clone(), k));
    lean
  }

  /// `const NAME: T = e;` inside a function body, read as `let NAME: T = e;`
  pub fn local_const(&mut self, c: &ItemConst) -> R<Vec<String>> {
    let text = format!("let {} : {} = {};", c.ident, toks(&c.ty), toks(&c.expr));
    let st: Stmt = syn::parse_str(&text).map_err(|e| format!("local const: {}", e))?;
    match &st {
      Stmt::Local(l) => self.local(l),
      _ => Err("local const".into()),
    }
  }

  pub fn local(&mut self, l: &Local) -> R<Vec<String>> {
    let init = l.init.as_ref().ok_or("let without initialiser")?;
    if init.diverge.is_some() {
      return Err("let-else".into());
    }
    let mut pat = &l.pat;
    if let Pat::Type(pt) = pat {
      pat = &pt.pat;
    }
    match pat {
      Pat::Ident(pi) => {
        let name = pi.ident.to_string();
        let (mut pre, a, k) = self.expr(&init.expr)?;
        match k {
          Kind::NewVec => {
            // let mut v = MiniVec::new();
            if self.has_self || self.pure {
              return Err("local vector in a method".into());
            }
            if !self.full.contains_key("new") {
              return Err("`new` is not translated".into());
            }
            self.uses.insert("new".into());
            self.ctor_vec = Some(name);
            pre.push("new E".into());
            Ok(pre)
          }
          Kind::Sentinel => {
            self.vars.push((name, "()".into(), Kind::Sentinel));
            Ok(pre)
          }
          Kind::Unit => Err("binding a unit value".into()),
          _ => {
            let lean = self.declare(&name, k);
            pre.push(format!("let {} := {}", lean, a));
            Ok(pre)
          }
        }
      }
      Pat::Tuple(pt) => {
        let es = match strip(&init.expr) {
          Expr::Tuple(t) => t,
          _ => return Err("tuple pattern with non-tuple initialiser".into()),
        };
        if es.elems.len() != pt.elems.len() {
          return Err("tuple arity".into());
        }
        let mut pre = vec![];
        let mut vals = vec![];
        for e in &es.elems {
          let (p, a, k) = self.expr(e)?;
          pre.extend(p);
          vals.push((a, k));
        }
        for (p, (a, k)) in pt.elems.iter().zip(vals) {
          let name = match p {
            Pat::Ident(pi) => pi.ident.to_string(),
            _ => return Err("nested pattern".into()),
          };
          let lean = self.declare(&name, k);
          pre.push(format!("let {} := {}", lean, a));
        }
        Ok(pre)
      }
      Pat::Struct(ps) if ps.path.is_ident("Header") => {
        // let Header { len, cap, alignment } = core::ptr::read(self.buf.as_ptr().cast::<Header>());
        let it = toks(&init.expr).replace(' ', "");
        if !(it.contains("ptr::read(self.buf.as_ptr().cast::<Header>())") && self.has_self && !self.pure) {
          return Err(format!("header pattern initialised by `{}`", it));
        }
        let mut pre = vec![];
        for f in &ps.fields {
          let fname = match &f.member {
            Member::Named(i) => i.to_string(),
            _ => return Err("header pattern".into()),
          };
          let var = match &*f.pat {
            Pat::Ident(pi) => pi.ident.to_string(),
            _ => return Err("header pattern".into()),
          };
          let prim = match fname.as_str() {
            "len" => "GM.hdrLen",
            "cap" => "GM.hdrCap",
            "alignment" => "GM.hdrAlign",
            _ => return Err("header field".into()),
          };
          let lean = self.declare(&var, Kind::Nat);
          pre.push(format!("let {} ← {}", lean, prim));
        }
        Ok(pre)
      }
      _ => Err(format!("pattern `{}`", toks(pat))),
    }
  }

  fn diverges(b: &Block) -> bool {
    match b.stmts.last() {
      Some(Stmt::Expr(e, _)) => Self::expr_diverges(e),
      Some(Stmt::Macro(m)) => m.mac.path.is_ident("panic") || m.mac.path.is_ident("unreachable"),
      _ => false,
    }
  }
  fn expr_diverges(e: &Expr) -> bool {
    match e {
      Expr::Return(_) => true,
      Expr::Macro(m) => m.mac.path.is_ident("panic") || m.mac.path.is_ident("unreachable"),
      Expr::If(i) => match &i.else_branch {
        Some((_, eb)) => {
          Self::diverges(&i.then_branch)
            && match &**eb {
              Expr::Block(b) => Self::diverges(&b.block),
              other => Self::expr_diverges(other),
            }
        }
        None => false,
      },
      Expr::Block(b) => Self::diverges(&b.block),
      Expr::Unsafe(u) => Self::diverges(&u.block),
      _ => false,
    }
  }

  fn assigned_in(b: &Block, out: &mut Vec<String>) {
    struct V<'x>(&'x mut Vec<String>);
    impl<'x, 'ast> visit::Visit<'ast> for V<'x> {
      fn visit_expr_assign(&mut self, a: &'ast ExprAssign) {
        if let Expr::Path(p) = &*a.left {
          if let Some(i) = p.path.get_ident() {
            self.0.push(i.to_string());
          }
        }
        visit::visit_expr_assign(self, a);
      }
      fn visit_expr_binary(&mut self, b: &'ast ExprBinary) {
        use BinOp::*;
        if matches!(b.op, AddAssign(_) | SubAssign(_) | MulAssign(_) | DivAssign(_) | RemAssign(_)) {
          if let Expr::Path(p) = &*b.left {
            if let Some(i) = p.path.get_ident() {
              self.0.push(i.to_string());
            }
          }
        }
        visit::visit_expr_binary(self, b);
      }
    }
    visit::Visit::visit_block(&mut V(out), b);
  }

  fn throw(&self, what: &str) -> String {
    if self.pure {
      format!("Except.error .{}", what)
    } else {
      format!("GM.throw .{}", what)
    }
  }

  fn ret_value(&mut self, e: Option<&Expr>) -> R<Vec<String>> {
    if self.prefix {
      let k = self.ret_count;
      self.ret_count += 1;
      return Ok(vec![format!("pure (Flow.ret {})", k)]);
    }
    match e {
      None => {
        if self.ret != Kind::Unit {
          return Err("bare return in a value function".into());
        }
        Ok(vec!["pure ()".into()])
      }
      Some(e) => {
        if self.is_self(e) && self.ret == Kind::NewVec {
          return Ok(vec!["pure ()".into()]);
        }
        let (mut pre, a, k) = self.expr(e)?;
        if k != self.ret {
          return Err(format!("return kind {:?}, expected {:?}", k, self.ret));
        }
        pre.push(format!("pure {}", a));
        Ok(pre)
      }
    }
  }

  fn indent(lines: Vec<String>, n: usize) -> Vec<String> {
    let pad = " ".repeat(n);
    lines.into_iter().flat_map(|l| l.lines().map(|x| format!("{}{}", pad, x)).collect::<Vec<_>>()).collect()
  }

  fn paren_do(lines: Vec<String>) -> Vec<String> {
    let mut out = vec!["(do".to_string()];
    out.extend(Self::indent(lines, 2));
    let last = out.len() - 1;
    out[last].push(')');
    out
  }

  fn env_cont(&mut self, stmt: &str, reason: String) -> Vec<String> {
    // the locals visible at the stop point, latest binding per name
    let mut seen = BTreeSet::new();
    let mut fields = vec![];
    for (r, l, k) in self.vars.iter().rev() {
      if seen.contains(r) || k.lean().is_none() || *k == Kind::Unit || *k == Kind::NewVec {
        continue;
      }
      seen.insert(r.clone());
      fields.push((r.clone(), l.clone(), *k));
    }
    fields.reverse();
    let sname = format!("Env_{}", self.fname);
    let mut def = format!("structure {} where\n", sname);
    for (r, _, k) in &fields {
      def.push_str(&format!("  v_{} : {}\n", r, k.lean().unwrap()));
    }
    if fields.is_empty() {
      def.push_str("  unit : Unit := ()\n");
    }
    def.push_str("  deriving Repr\n");
    self.env_def = Some(def);
    self.stop = Some((stmt.to_string(), reason));
    let inits: Vec<String> = fields.iter().map(|(r, l, _)| format!("v_{} := {}", r, l)).collect();
    vec![format!("pure (Flow.cont ({{ {} }} : {}))", inits.join(", "), sname)]
  }

  /// Translate a statement list into do-block lines ending in a term of the function's type.
  pub fn seq(&mut self, ss: &[Stmt], top: bool) -> R<Vec<String>> {
    if ss.is_empty() {
      return self.ret_value(None);
    }
    let depth = self.vars.len();
    let saved_ctor = self.ctor_vec.clone();
    match self.seq1(ss, top) {
      Ok(l) => Ok(l),
      Err(reason) => {
        if self.prefix && top && self.stop.is_none() {
          self.vars.truncate(depth);
          self.ctor_vec = saved_ctor;
          Ok(self.env_cont(&toks(&ss[0]), reason))
        } else {
          Err(reason)
        }
      }
    }
  }

  fn seq1(&mut self, ss: &[Stmt], top: bool) -> R<Vec<String>> {
    let (first, rest) = (&ss[0], &ss[1..]);
    let mut lines: Vec<String>;
    // `unsafe { a; b; }` / `{ a; b; }` in statement position: splice the statements in
    if let Stmt::Expr(e0, semi0) = first {
      let inner = match e0 {
        Expr::Unsafe(u) => Some(&u.block),
        Expr::Block(b) if b.label.is_none() => Some(&b.block),
        _ => None,
      };
      if let Some(b) = inner {
        let tail_is_value = matches!(b.stmts.last(), Some(Stmt::Expr(_, None)));
        if !(tail_is_value && semi0.is_none() && rest.is_empty()) && !(tail_is_value && b.stmts.len() == 1 && semi0.is_none()) {
          let mut all: Vec<Stmt> = b.stmts.clone();
          if tail_is_value && !rest.is_empty() {
            // the value of the inner tail expression is discarded
            if let Some(Stmt::Expr(e, None)) = all.pop() {
              all.push(Stmt::Expr(e, Some(Default::default())));
            }
          }
          all.extend(rest.iter().cloned());
          return self.seq(&all, top);
        }
      }
    }
    match first {
      Stmt::Local(l) => {
        lines = self.local(l)?;
      }
      Stmt::Item(Item::Const(c)) => {
        // a function-local constant is a `let`
        lines = self.local_const(c)?;
      }
      Stmt::Item(_) => {
        // declarations (use, struct, impl): no run-time effect
        lines = vec![];
      }
      Stmt::Macro(m) => {
        lines = match self.mac(&m.mac)? {
          Some(l) => l,
          None => return Ok(vec![self.throw("explicit")]),
        };
      }
      Stmt::Expr(e, semi) => {
        let e = strip(e);
        match e {
          Expr::Return(r) => return self.ret_value(r.expr.as_deref()),
          Expr::Macro(m) => {
            lines = match self.mac(&m.mac)? {
              Some(l) => l,
              None => return Ok(vec![self.throw("explicit")]),
            };
          }
          Expr::If(i) if !(semi.is_none() && rest.is_empty() && self.if_is_value(&i)) => {
            return self.if_stmt(&i, rest, top);
          }
          Expr::While(w) => {
            lines = self.while_stmt(&w)?;
          }
          Expr::Assign(a) => {
            lines = self.assign(&a.left, &a.right, None)?;
          }
          Expr::Binary(b) if Self::compound(&b.op).is_some() => {
            lines = self.assign(&b.left, &b.right, Self::compound(&b.op))?;
          }
          _ => {
            if semi.is_none() && rest.is_empty() {
              // tail expression: the function's value
              if self.is_self(e) && self.ret == Kind::NewVec && !self.prefix {
                return Ok(vec!["pure ()".into()]);
              }
              if self.prefix {
                // make sure it is translatable at all; its value is not needed
                let _ = self.expr(e)?;
              }
              let (pre, a, k) = self.expr(e)?;
              if k == Kind::Unit && (self.ret == Kind::Unit || self.prefix) {
                let mut l = pre;
                l.extend(self.ret_value(None)?);
                return Ok(l);
              }
              if self.prefix {
                let mut l = pre;
                l.extend(self.ret_value(None)?);
                return Ok(l);
              }
              if k == Kind::NewVec && self.ret == Kind::NewVec {
                // struct literal of a sentinel vector: `MiniVec { buf, phantom }`
                let mut l = pre;
                l.push("GM.resetBuf".into());
                l.push("pure ()".into());
                return Ok(l);
              }
              if k != self.ret {
                return Err(format!("tail kind {:?}, expected {:?}", k, self.ret));
              }
              let mut l = pre;
              l.push(format!("pure {}", a));
              return Ok(l);
            }
            let (pre, _a, _k) = self.expr(e)?;
            lines = pre;
          }
        }
      }
    }
    let tail = self.seq(rest, top)?;
    lines.extend(tail);
    Ok(lines)
  }

  fn if_is_value(&self, i: &ExprIf) -> bool {
    // an if/else used as the function's tail value (both branches end in a non-unit expression)
    if self.ret == Kind::Unit || self.prefix {
      return false;
    }
    i.else_branch.is_some() && matches!(i.then_branch.stmts.last(), Some(Stmt::Expr(_, None))) && !Self::diverges(&i.then_branch)
  }

  fn compound(op: &BinOp) -> Option<&'static str> {
    Some(match op {
      BinOp::AddAssign(_) => "uadd E.m",
      BinOp::SubAssign(_) => "usub E.m",
      BinOp::MulAssign(_) => "umul E.m",
      _ => return None,
    })
  }

  fn assign(&mut self, left: &Expr, right: &Expr, op: Option<&str>) -> R<Vec<String>> {
    let l = toks(left).replace(' ', "");
    if l == "self.header_mut().len" && self.has_self && !self.pure {
      let (mut pre, a, k) = self.expr(right)?;
      if k != Kind::Nat {
        return Err("header length of non-integer".into());
      }
      match op {
        None => pre.push(format!("GM.setHdrLen {}", a)),
        Some(f) => {
          let t0 = self.fresh();
          pre.push(format!("let {} ← GM.hdrLen", t0));
          let t1 = self.fresh();
          pre.push(format!("let {} ← GM.liftE ({} {} {})", t1, f, t0, a));
          pre.push(format!("GM.setHdrLen {}", t1));
        }
      }
      return Ok(pre);
    }
    if l == "self.buf" && op.is_none() && !self.pure {
      let (mut pre, a, k) = self.expr(right)?;
      match k {
        Kind::Tok => pre.push(format!("GM.setBuf {}", a)),
        Kind::Sentinel => pre.push("GM.resetBuf".into()),
        _ => return Err("assignment to self.buf".into()),
      }
      return Ok(pre);
    }
    if let Expr::Path(p) = strip(left) {
      if let Some(id) = p.path.get_ident() {
        let name = id.to_string();
        if let Some((cur, k)) = self.lookup(&name) {
          let (mut pre, a, rk) = self.expr(right)?;
          if rk != k {
            return Err("assignment changes kind".into());
          }
          let lean = format!("v_{}", name);
          match op {
            None => pre.push(format!("let {} := {}", lean, a)),
            Some(f) => {
              let rhs = self.lift(&format!("{} {} {}", f, cur, a));
              pre.push(format!("let {} ← {}", lean, rhs));
            }
          }
          self.vars.push((name, lean, k));
          return Ok(pre);
        }
      }
    }
    Err(format!("assignment to `{}`", l))
  }

  /// `Some(lines)` = continue afterwards; `None` = the macro diverges (panic!)
  fn mac(&mut self, m: &Macro) -> R<Option<Vec<String>>> {
    let name = m.path.segments.last().unwrap().ident.to_string();
    match name.as_str() {
      "panic" | "unreachable" => Ok(None),
      "assert" | "debug_assert" => {
        let args: syn::punctuated::Punctuated<Expr, Token![,]> =
          m.parse_body_with(syn::punctuated::Punctuated::parse_terminated).map_err(|e| e.to_string())?;
        let cond = args.first().ok_or("empty assert")?;
        let (mut pre, a, k) = self.expr(cond)?;
        if k != Kind::Bool {
          return Err("assert of non-bool".into());
        }
        let f = if name == "assert" { "assert" } else { "debugAssert" };
        if self.pure {
          pre.push(format!("(if {} then pure () else Except.error .{})", a, if name == "assert" { "explicit" } else { "debugAssert" }));
        } else {
          pre.push(format!("GM.{} {}", f, a));
        }
        Ok(Some(pre))
      }
      _ => Err(format!("macro `{}!`", name)),
    }
  }

  fn inner_block(&mut self, b: &Block) -> R<Vec<String>> {
    let depth = self.vars.len();
    let r = self.seq(&b.stmts, false);
    self.vars.truncate(depth);
    r
  }

  /// a block that does not diverge, run for its effects only
  fn effect_block(&mut self, b: &Block) -> R<Vec<String>> {
    let mut asg = vec![];
    Self::assigned_in(b, &mut asg);
    if let Some(a) = asg.iter().find(|a| self.lookup(a).is_some()) {
      return Err(format!("conditional assignment to outer variable `{}`", a));
    }
    if Self::contains_return(b) {
      return Err("conditional return inside a non-diverging block".into());
    }
    let depth = self.vars.len();
    let saved = (self.ret, self.prefix);
    self.ret = Kind::Unit;
    self.prefix = false;
    let r = self.seq(&b.stmts, false);
    self.ret = saved.0;
    self.prefix = saved.1;
    self.vars.truncate(depth);
    r
  }

  fn contains_return(b: &Block) -> bool {
    struct V(bool);
    impl<'ast> visit::Visit<'ast> for V {
      fn visit_expr_return(&mut self, _: &'ast ExprReturn) {
        self.0 = true;
      }
      fn visit_expr_closure(&mut self, _: &'ast ExprClosure) {}
    }
    let mut v = V(false);
    visit::Visit::visit_block(&mut v, b);
    v.0
  }

  fn else_block(e: &Expr) -> R<Block> {
    match e {
      Expr::Block(b) => Ok(b.block.clone()),
      Expr::If(_) => Ok(Block { brace_token: Default::default(), stmts: vec![Stmt::Expr(e.clone(), None)] }),
      _ => Err("else branch".into()),
    }
  }

  fn if_stmt(&mut self, i: &ExprIf, rest: &[Stmt], top: bool) -> R<Vec<String>> {
    if matches!(&*i.cond, Expr::Let(_)) {
      return Err("if-let".into());
    }
    let (mut pre, c, k) = self.expr(&i.cond)?;
    if k != Kind::Bool {
      return Err("if condition".into());
    }
    let then_div = Self::diverges(&i.then_branch);
    let else_blk = match &i.else_branch {
      Some((_, e)) => Some(Self::else_block(e)?),
      None => None,
    };
    let else_div = else_blk.as_ref().map(Self::diverges).unwrap_or(false);
    let mut out = |pre: &mut Vec<String>, t: Vec<String>, e: Vec<String>| {
      pre.push(format!("if {} then do", c));
      pre.extend(Self::indent(t, 2));
      pre.push("else do".into());
      pre.extend(Self::indent(e, 2));
    };
    if then_div && (else_div || else_blk.is_none()) && else_blk.is_some() && else_div {
      let t = self.inner_block(&i.then_branch)?;
      let e = self.inner_block(else_blk.as_ref().unwrap())?;
      out(&mut pre, t, e);
      return Ok(pre);
    }
    if then_div {
      let t = self.inner_block(&i.then_branch)?;
      let depth = self.vars.len();
      let mut e = match &else_blk {
        Some(b) => self.effect_block_open(b)?,
        None => vec![],
      };
      let r = self.seq(rest, top);
      self.vars.truncate(depth);
      e.extend(r?);
      out(&mut pre, t, e);
      return Ok(pre);
    }
    if else_div {
      let e = self.inner_block(else_blk.as_ref().unwrap())?;
      let depth = self.vars.len();
      let mut t = self.effect_block_open(&i.then_branch)?;
      let r = self.seq(rest, top);
      self.vars.truncate(depth);
      t.extend(r?);
      out(&mut pre, t, e);
      return Ok(pre);
    }
    // neither branch diverges: effects only, then the rest
    let mut t = self.effect_block(&i.then_branch)?;
    Self::strip_pure_unit(&mut t);
    t.push("pure ()".into());
    let mut e = match &else_blk {
      Some(b) => {
        let mut e = self.effect_block(b)?;
        Self::strip_pure_unit(&mut e);
        e
      }
      None => vec![],
    };
    e.push("pure ()".into());
    let u = self.fresh();
    let mut l = vec![format!("let _{} ← (if {} then", u, c)];
    l.extend(Self::indent(Self::paren_do(t), 4));
    l.push("  else".into());
    l.extend(Self::indent(Self::paren_do(e), 4));
    let last = l.len() - 1;
    l[last].push(')');
    pre.extend(l);
    let tail = self.seq(rest, top)?;
    pre.extend(tail);
    Ok(pre)
  }

  /// the statements of a non-diverging branch whose bindings stay visible for the continuation
  fn effect_block_open(&mut self, b: &Block) -> R<Vec<String>> {
    if Self::contains_return(b) {
      return Err("conditional return".into());
    }
    let saved = (self.ret, self.prefix);
    self.ret = Kind::Unit;
    self.prefix = false;
    let r = self.seq(&b.stmts, false);
    self.ret = saved.0;
    self.prefix = saved.1;
    let mut l = r?;
    Self::strip_pure_unit(&mut l);
    Ok(l)
  }

  fn strip_pure_unit(l: &mut Vec<String>) {
    if l.last().map(|x| x.trim() == "pure ()").unwrap_or(false) {
      l.pop();
    }
  }

  fn while_stmt(&mut self, w: &ExprWhile) -> R<Vec<String>> {
    if matches!(&*w.cond, Expr::Let(_)) {
      return Err("while-let".into());
    }
    let mut asg = vec![];
    Self::assigned_in(&w.body, &mut asg);
    asg.sort();
    asg.dedup();
    let mut mutated = vec![];
    for a in &asg {
      match self.lookup(a) {
        Some((_, k)) if k.lean().is_some() => mutated.push((a.clone(), k)),
        _ => return Err(format!("loop assigns `{}`", a)),
      }
    }
    if mutated.is_empty() {
      return Err("loop without a mutated local".into());
    }
    // parameters: every visible variable (latest binding), mutated ones last
    let mut seen = BTreeSet::new();
    let mut params = vec![];
    for (r, l, k) in self.vars.iter().rev() {
      if seen.contains(r) || k.lean().is_none() || *k == Kind::Unit || *k == Kind::NewVec {
        continue;
      }
      seen.insert(r.clone());
      params.push((r.clone(), l.clone(), *k));
    }
    params.reverse();
    self.nloops += 1;
    let lname = format!("{}_loop{}", self.fname, self.nloops);
    let monad = if self.pure { "Except Panic" } else { "GM" };
    let ret_ty = mutated.iter().map(|(_, k)| k.lean().unwrap().to_string()).collect::<Vec<_>>().join(" × ");
    let ret_val = |cx: &Cx| -> String {
      let v: Vec<String> = mutated.iter().map(|(n, _)| cx.lookup(n).unwrap().0).collect();
      if v.len() == 1 {
        v[0].clone()
      } else {
        format!("({})", v.join(", "))
      }
    };
    // body of the loop function
    let depth = self.vars.len();
    let (mut body, c, k) = self.expr(&w.cond)?;
    if k != Kind::Bool {
      return Err("while condition".into());
    }
    let saved = (self.ret, self.prefix);
    self.ret = Kind::Unit;
    self.prefix = false;
    if Self::contains_return(&w.body) {
      return Err("return inside loop".into());
    }
    let inner = self.seq(&w.body.stmts, false);
    self.ret = saved.0;
    self.prefix = saved.1;
    let mut inner = inner?;
    Self::strip_pure_unit(&mut inner);
    let args: Vec<String> = params.iter().map(|(r, _, _)| self.lookup(r).unwrap().0).collect();
    inner.push(format!("{} E fuel {}", lname, args.join(" ")));
    let exit_val = {
      // value when the condition is false: current (un-updated) mutated variables
      let v: Vec<String> = mutated.iter().map(|(n, _)| format!("v_{}", n)).collect();
      if v.len() == 1 {
        v[0].clone()
      } else {
        format!("({})", v.join(", "))
      }
    };
    self.vars.truncate(depth);
    body.push(format!("if {} then do", c));
    body.extend(Self::indent(inner, 2));
    body.push(format!("else pure {}", exit_val));
    let ptypes: Vec<String> = params.iter().map(|(_, _, k)| k.lean().unwrap().to_string()).collect();
    let pnames: Vec<String> = params.iter().map(|(r, _, _)| format!("v_{}", r)).collect();
    let mut def = format!(
      "def {} (E : Env) : Nat → {}{} ({})\n",
      lname,
      ptypes.iter().map(|t| format!("{} → ", if t.contains(' ') { format!("({})", t) } else { t.clone() })).collect::<String>(),
      monad,
      ret_ty
    );
    def.push_str(&format!("  | 0{} => {}\n", ", _".repeat(params.len()), self.throw("fuel")));
    def.push_str(&format!("  | fuel + 1, {} => do\n", pnames.join(", ")));
    for l in Self::indent(body, 4) {
      def.push_str(&l);
      def.push('\n');
    }
    self.aux.push(def);
    // call site
    let cur_args: Vec<String> = params.iter().map(|(_, l, _)| l.clone()).collect();
    let pat = {
      let v: Vec<String> = mutated.iter().map(|(n, _)| format!("v_{}", n)).collect();
      if v.len() == 1 {
        v[0].clone()
      } else {
        format!("({})", v.join(", "))
      }
    };
    let line = format!("let {} ← {} E loopFuel {}", pat, lname, cur_args.join(" "));
    for (n, k) in &mutated {
      self.vars.push((n.clone(), format!("v_{}", n), *k));
    }
    let _ = ret_val;
    Ok(vec![line])
  }
}

fn hash(s: &str) -> u64 {
  // FNV-1a
  let mut h: u64 = 0xcbf29ce484222325;
  for b in s.bytes() {
    h ^= b as u64;
    h = h.wrapping_mul(0x100000001b3);
  }
  h
}

struct Out {
  text: String,
  mode: &'static str,
  stop: Option<(String, String)>,
  uses: BTreeSet<String>,
}

fn try_fn(f: &FnInfo, full: &HashMap<String, Sig>, prefix: bool) -> R<(Out, Sig)> {
  let mut cx = Cx {
    pure: f.pure,
    vars: vec![],
    tmp: 0,
    full,
    ctor_vec: None,
    has_self: f.has_self,
    slice_params: vec![],
    range_param: None,
    aux: vec![],
    fname: f.name.clone(),
    ret: Kind::Unit,
    ret_count: 0,
    prefix,
    stop: None,
    env_def: None,
    uses: BTreeSet::new(),
    nloops: 0,
  };
  // generic parameters bounded by RangeBounds
  let mut range_tys = vec![];
  for g in &f.item_sig.generics.params {
    if let GenericParam::Type(t) = g {
      if toks(&t.bounds).contains("RangeBounds") {
        range_tys.push(t.ident.to_string());
      }
    }
  }
  if let Some(w) = &f.item_sig.generics.where_clause {
    for p in &w.predicates {
      if let WherePredicate::Type(t) = p {
        if toks(&t.bounds).contains("RangeBounds") {
          range_tys.push(toks(&t.bounded_ty));
        }
      }
    }
  }
  let mut params_lean = vec![];
  let mut sig_params = vec![];
  for a in &f.item_sig.inputs {
    if let FnArg::Typed(pt) = a {
      let name = match &*pt.pat {
        Pat::Ident(i) => i.ident.to_string(),
        _ => continue,
      };
      let ty = toks(&pt.ty).replace(' ', "");
      if range_tys.contains(&ty) {
        cx.range_param = Some(name);
        params_lean.push("(v_range_start : Bound) (v_range_end : Bound)".to_string());
        continue;
      }
      if ty == "&[T]" || ty == "&'a[T]" || ty == "&'amut[T]" || ty == "&mut[T]" {
        cx.slice_params.push(name.clone());
        params_lean.push(format!("(v_{}_len : Nat)", name));
        sig_params.push(Kind::Nat);
        continue;
      }
      if let Some(k) = ty_kind(&pt.ty) {
        if k.lean().is_some() && k != Kind::NewVec {
          cx.vars.push((name.clone(), format!("v_{}", name), k));
          params_lean.push(format!("(v_{} : {})", name, k.lean().unwrap()));
          sig_params.push(k);
          continue;
        }
      }
      // a parameter the model does not see (element values, closures, other vectors)
    }
  }
  let ret = match &f.item_sig.output {
    ReturnType::Default => Some(Kind::Unit),
    ReturnType::Type(_, t) => ty_kind(t),
  };
  if !prefix {
    cx.ret = ret.ok_or_else(|| format!("return type `{}`", toks(&f.item_sig.output)))?;
    if cx.ret == Kind::NewVec && f.has_self {
      return Err("method returning a vector".into());
    }
  }
  let lines = cx.seq(&f.body.stmts, true)?;
  let monad = if f.pure { "Except Panic" } else { "GM" };
  let lname = if prefix { format!("{}_pre", f.name) } else { f.name.clone() };
  let lname = if RESERVED.contains(&lname.as_str()) { format!("{}'", lname) } else { lname };
  let ret_ty = if prefix {
    match &cx.env_def {
      Some(_) => format!("Flow Env_{}", f.name),
      None => "Flow Unit".to_string(),
    }
  } else {
    cx.ret.lean().unwrap().to_string()
  };
  let mut text = String::new();
  text.push_str(&format!("/- {} `{}` ({}) -/\n", f.file, f.name, if prefix { "prefix up to the first pointer statement" } else { "complete" }));
  for a in &cx.aux {
    text.push_str(a);
    text.push('\n');
  }
  if let Some(d) = &cx.env_def {
    text.push_str(d);
    text.push('\n');
  }
  text.push_str(&format!("def {} (E : Env) {} : {} ({}) := do\n", lname, params_lean.join(" "), monad, ret_ty));
  for l in Cx::indent(lines, 2) {
    text.push_str(&l);
    text.push('\n');
  }
  text.push('\n');
  let out = Out { text, mode: if prefix { "prefix" } else { "full" }, stop: cx.stop.clone(), uses: cx.uses.clone() };
  Ok((out, Sig { lean: lname, params: sig_params, ret: cx.ret, pure: f.pure }))
}

fn json_str(s: &str) -> String {
  let mut o = String::from("\"");
  for c in s.chars() {
    match c {
      '"' => o.push_str("\\\""),
      '\\' => o.push_str("\\\\"),
      '\n' => o.push_str("\\n"),
      c if (c as u32) < 0x20 => o.push(' '),
      c => o.push(c),
    }
  }
  o.push('"');
  o
}

pub const MUST_FULL: &[&str] = &[
  "next_aligned", "next_capacity", "max_align", "make_layout", "len", "capacity", "is_empty", "alignment", "data",
  "as_ptr", "as_mut_ptr", "grow", "set_len", "reserve", "reserve_exact", "shrink_to", "shrink_to_fit", "new",
  "with_capacity", "with_alignment",
];
pub const MUST_PREFIX: &[&str] = &[
  "push", "pop", "insert", "remove", "swap_remove", "truncate", "split_off", "drain", "splice", "extend_from_within",
  "append", "resize", "resize_with", "extend_from_slice", "spare_capacity_mut", "split_at_spare_mut", "drop_impl",
  "from_raw_part", "from_raw_parts", "leak", "retain", "dedup_by",
];

pub fn translate(files: &[(String, File)]) -> (String, String, bool) {
  let fns = discover(files);
  let mut full: HashMap<String, Sig> = HashMap::new();
  let mut emitted: Vec<(String, Out)> = vec![];
  let mut done: BTreeSet<usize> = BTreeSet::new();
  // fixpoint over complete translations (callees first)
  loop {
    let mut progress = false;
    for (k, f) in fns.iter().enumerate() {
      if done.contains(&k) {
        continue;
      }
      if let Ok((out, sig)) = try_fn(f, &full, false) {
        full.insert(f.name.clone(), sig);
        emitted.push((f.name.clone(), out));
        done.insert(k);
        progress = true;
      }
    }
    if !progress {
      break;
    }
  }
  let mut failures: Vec<(String, String)> = vec![];
  for (k, f) in fns.iter().enumerate() {
    if done.contains(&k) {
      continue;
    }
    let why_not_full = try_fn(f, &full, false).err().unwrap_or_default();
    match try_fn(f, &full, true) {
      Ok((mut out, _)) => {
        if out.stop.is_none() {
          out.stop = Some(("<end>".into(), why_not_full.clone()));
        }
        emitted.push((f.name.clone(), out));
      }
      Err(e) => failures.push((f.name.clone(), e)),
    }
    if MUST_FULL.contains(&f.name.as_str()) {
      failures.push((f.name.clone(), format!("not completely translatable: {}", why_not_full)));
    }
  }
  let names: BTreeSet<String> = emitted.iter().map(|e| e.0.clone()).collect();
  for m in MUST_FULL.iter().chain(MUST_PREFIX.iter()) {
    if !names.contains(*m) {
      failures.push((m.to_string(), "function not found or not translatable".into()));
    }
  }
  let mut lean = String::new();
  lean.push_str("/- GENERATED by mvtrans from /repo/src on every run. Do not edit. -/\nimport MiniVecProof.Model.GM\nset_option linter.unusedVariables false\nnamespace MV.Gen\nopen MV\n\n");
  // LayoutErr enum
  for (_, f) in files {
    for it in &f.items {
      if let Item::Enum(e) = it {
        if e.ident == "LayoutErr" {
          lean.push_str("inductive LayoutErr\n");
          for v in &e.variants {
            lean.push_str(&format!("  | {}\n", v.ident));
          }
          lean.push_str("  deriving DecidableEq, Repr\n\n");
        }
      }
    }
  }
  lean.push_str("/-- fuel given to every translated `while` loop (a theorem shows it is never exhausted) -/\ndef loopFuel : Nat := 200\n\n");
  for (_, o) in &emitted {
    lean.push_str(&o.text);
  }
  lean.push_str("end MV.Gen\n");
  // meta
  let mut meta = String::from("[\n");
  let mut first = true;
  for (n, o) in &emitted {
    let f = fns.iter().find(|f| &f.name == n).unwrap();
    if !first {
      meta.push_str(",\n");
    }
    first = false;
    let (st, why) = o.stop.clone().unwrap_or_default();
    meta.push_str(&format!(
      " {{\"name\": {}, \"file\": {}, \"mode\": \"{}\", \"stop\": {}, \"reason\": {}, \"hash\": \"{:016x}\", \"uses\": [{}]}}",
      json_str(n),
      json_str(&f.file),
      o.mode,
      json_str(&st),
      json_str(&why),
      hash(&format!("{}{}", toks(&f.item_sig), toks(&f.body))),
      o.uses.iter().map(|u| json_str(u)).collect::<Vec<_>>().join(", ")
    ));
  }
  for (n, e) in &failures {
    if !first {
      meta.push_str(",\n");
    }
    first = false;
    meta.push_str(&format!(" {{\"name\": {}, \"mode\": \"failed\", \"reason\": {}}}", json_str(n), json_str(e)));
  }
  meta.push_str("\n]");
  (lean, meta, failures.is_empty())
}

//! Expression translation: Rust expression -> (binding lines, atom, kind).
use crate::tr::{Cx, Kind};
use quote::ToTokens;
use syn::*;

pub type R<T> = std::result::Result<T, String>;
pub type Ex = (Vec<String>, String, Kind);

pub fn toks<T: ToTokens>(t: &T) -> String {
  t.to_token_stream().to_string()
}

fn path_last(p: &Path) -> String {
  p.segments.last().map(|s| s.ident.to_string()).unwrap_or_default()
}
fn path_str(p: &Path) -> String {
  p.segments.iter().map(|s| s.ident.to_string()).collect::<Vec<_>>().join("::")
}
fn generic_arg_is(p: &Path, want: &str) -> bool {
  if let Some(seg) = p.segments.last() {
    if let PathArguments::AngleBracketed(a) = &seg.arguments {
      return a.args.iter().any(|g| toks(g).replace(' ', "") == want);
    }
  }
  false
}

pub fn strip(e: &Expr) -> &Expr {
  match e {
    Expr::Paren(p) => strip(&p.expr),
    Expr::Group(g) => strip(&g.expr),
    Expr::Unsafe(u) if u.block.stmts.len() == 1 => {
      if let Stmt::Expr(inner, None) = &u.block.stmts[0] {
        strip(inner)
      } else {
        e
      }
    }
    Expr::Reference(r) => strip(&r.expr),
    _ => e,
  }
}

impl<'a> Cx<'a> {
  pub fn fresh(&mut self) -> String {
    self.tmp += 1;
    format!("t{}", self.tmp)
  }
  /// wrap an `Except Panic _` computation for the current monad
  pub fn lift(&self, s: &str) -> String {
    if self.pure {
      s.to_string()
    } else {
      format!("GM.liftE ({})", s)
    }
  }
  fn bind(&mut self, pre: &mut Vec<String>, rhs: String) -> String {
    let t = self.fresh();
    pre.push(format!("let {} ← {}", t, rhs));
    t
  }
  fn nat(&mut self, e: &Expr, pre: &mut Vec<String>) -> R<String> {
    let (p, a, k) = self.expr(e)?;
    if k != Kind::Nat {
      return Err(format!("expected integer, got {:?} in `{}`", k, toks(e)));
    }
    pre.extend(p);
    Ok(a)
  }
  fn boolean(&mut self, e: &Expr, pre: &mut Vec<String>) -> R<String> {
    let (p, a, k) = self.expr(e)?;
    if k != Kind::Bool {
      return Err(format!("expected bool, got {:?} in `{}`", k, toks(e)));
    }
    pre.extend(p);
    Ok(a)
  }

  pub fn expr(&mut self, e: &Expr) -> R<Ex> {
    let e = strip(e);
    match e {
      Expr::Lit(l) => match &l.lit {
        Lit::Int(i) => Ok((vec![], i.base10_digits().to_string(), Kind::Nat)),
        Lit::Bool(b) => Ok((vec![], b.value.to_string(), Kind::Bool)),
        _ => Err(format!("literal `{}`", toks(e))),
      },
      Expr::Path(p) => {
        let name = path_str(&p.path);
        if let Some((lean, k)) = self.lookup(&name) {
          return Ok((vec![], lean, k));
        }
        if name == "usize::MAX" || name == "core::usize::MAX" {
          return Ok((vec![], "USIZE_MAX".into(), Kind::Nat));
        }
        if name == "isize::MAX" {
          return Ok((vec![], "ISIZE_MAX".into(), Kind::Nat));
        }
        Err(format!("unknown name `{}`", name))
      }
      Expr::Cast(c) => {
        let ty = toks(&c.ty);
        let (p, a, k) = self.expr(&c.expr)?;
        if ty == "usize" && k == Kind::Nat {
          Ok((p, a, k))
        } else {
          Err(format!("cast `{}`", toks(e)))
        }
      }
      Expr::Unary(u) => match u.op {
        UnOp::Not(_) => {
          let mut pre = vec![];
          let a = self.boolean(&u.expr, &mut pre)?;
          Ok((pre, format!("(!{})", a), Kind::Bool))
        }
        UnOp::Deref(_) => self.expr(&u.expr),
        _ => Err(format!("unary `{}`", toks(e))),
      },
      Expr::Binary(b) => self.binary(b),
      Expr::Field(f) => self.field(f),
      Expr::MethodCall(m) => self.method(m),
      Expr::Call(c) => self.call(c),
      Expr::If(i) => self.if_expr(i),
      Expr::Match(m) => self.match_expr(m),
      Expr::Struct(s) => self.struct_lit(s),
      Expr::Block(b) => self.block_expr(&b.block),
      Expr::Unsafe(u) => self.block_expr(&u.block),
      Expr::Macro(m) => {
        let name = path_last(&m.mac.path);
        Err(format!("macro `{}!` in expression position", name))
      }
      _ => Err(format!("expression `{}`", toks(e))),
    }
  }

  fn binary(&mut self, b: &ExprBinary) -> R<Ex> {
    let mut pre = vec![];
    match b.op {
      BinOp::And(_) | BinOp::Or(_) => {
        let l = self.boolean(&b.left, &mut pre)?;
        let mut rp = vec![];
        let r = self.boolean(&b.right, &mut rp)?;
        let is_and = matches!(b.op, BinOp::And(_));
        if !rp.is_empty() {
          // the right operand is only evaluated when the left one does not decide the result
          let rb = self.branch(rp, r);
          let sc = self.branch(vec![], if is_and { "false".into() } else { "true".into() });
          let rhs = if is_and {
            format!("(if {} then {}\n  else {})", l, rb, sc)
          } else {
            format!("(if {} then {}\n  else {})", l, sc, rb)
          };
          let t = self.bind(&mut pre, rhs);
          return Ok((pre, t, Kind::Bool));
        }
        let op = if is_and { "&&" } else { "||" };
        Ok((pre, format!("({} {} {})", l, op, r), Kind::Bool))
      }
      BinOp::Eq(_) | BinOp::Ne(_) => {
        let (lp, l, lk) = self.expr(&b.left)?;
        let (rp, r, rk) = self.expr(&b.right)?;
        if lk != rk || !(lk == Kind::Nat || lk == Kind::Bool) {
          return Err(format!("comparison of {:?} and {:?} `{}`", lk, rk, toks(b)));
        }
        pre.extend(lp);
        pre.extend(rp);
        let op = if matches!(b.op, BinOp::Eq(_)) { "==" } else { "!=" };
        Ok((pre, format!("({} {} {})", l, op, r), Kind::Bool))
      }
      BinOp::Lt(_) | BinOp::Le(_) | BinOp::Gt(_) | BinOp::Ge(_) => {
        let l = self.nat(&b.left, &mut pre)?;
        let r = self.nat(&b.right, &mut pre)?;
        let op = match b.op {
          BinOp::Lt(_) => "<",
          BinOp::Le(_) => "≤",
          BinOp::Gt(_) => ">",
          _ => "≥",
        };
        Ok((pre, format!("(decide ({} {} {}))", l, op, r), Kind::Bool))
      }
      BinOp::Add(_) | BinOp::Sub(_) | BinOp::Mul(_) | BinOp::Div(_) | BinOp::Rem(_) => {
        let l = self.nat(&b.left, &mut pre)?;
        let r = self.nat(&b.right, &mut pre)?;
        let call = match b.op {
          BinOp::Add(_) => format!("uadd E.m {} {}", l, r),
          BinOp::Sub(_) => format!("usub E.m {} {}", l, r),
          BinOp::Mul(_) => format!("umul E.m {} {}", l, r),
          BinOp::Div(_) => format!("udiv {} {}", l, r),
          _ => format!("urem {} {}", l, r),
        };
        let rhs = self.lift(&call);
        let t = self.bind(&mut pre, rhs);
        Ok((pre, t, Kind::Nat))
      }
      _ => Err(format!("operator in `{}`", toks(b))),
    }
  }

  fn field(&mut self, f: &ExprField) -> R<Ex> {
    // self.header().len / .cap / .alignment
    let fname = match &f.member {
      Member::Named(i) => i.to_string(),
      _ => return Err(format!("tuple field `{}`", toks(f))),
    };
    if let Expr::MethodCall(m) = strip(&f.base) {
      if self.is_self(&m.receiver) && m.method == "header" && self.has_self && !self.pure {
        let prim = match fname.as_str() {
          "len" => "GM.hdrLen",
          "cap" => "GM.hdrCap",
          "alignment" => "GM.hdrAlign",
          _ => return Err(format!("header field `{}`", fname)),
        };
        let mut pre = vec![];
        let t = self.bind(&mut pre, prim.to_string());
        return Ok((pre, t, Kind::Nat));
      }
    }
    let (pre, a, k) = self.expr(&f.base)?;
    match (k, fname.as_str()) {
      (Kind::Header, "len") | (Kind::Header, "cap") | (Kind::Header, "alignment") => {
        Ok((pre, format!("{}.{}", a, fname), Kind::Nat))
      }
      _ => Err(format!("field access `{}`", toks(f))),
    }
  }

  pub fn is_self(&self, e: &Expr) -> bool {
    match strip(e) {
      Expr::Path(p) => {
        let n = path_str(&p.path);
        (n == "self" && self.has_self) || Some(&n) == self.ctor_vec.as_ref()
      }
      _ => false,
    }
  }

  fn method(&mut self, m: &ExprMethodCall) -> R<Ex> {
    let name = m.method.to_string();
    let mut pre = vec![];
    if self.is_self(&m.receiver) && !self.pure {
      // primitives of the header machine
      if name == "is_default" && m.args.is_empty() {
        let t = self.bind(&mut pre, "GM.isDefault".into());
        return Ok((pre, t, Kind::Bool));
      }
      // a call to another translated method
      if let Some(sig) = self.full.get(&name).cloned() {
        if sig.pure || sig.params.len() != m.args.len() {
          return Err(format!("call shape `{}`", toks(m)));
        }
        let mut args = vec![];
        for (a, k) in m.args.iter().zip(sig.params.iter()) {
          let (p, at, ak) = self.expr(a)?;
          if ak != *k {
            return Err(format!("argument kind {:?} vs {:?} in `{}`", ak, k, toks(m)));
          }
          pre.extend(p);
          args.push(at);
        }
        self.uses.insert(name.clone());
        let rhs = format!("{} E {}", sig.lean, args.join(" "));
        if sig.ret == Kind::Unit {
          pre.push(rhs.trim_end().to_string());
          return Ok((pre, "()".into(), Kind::Unit));
        }
        let t = self.bind(&mut pre, rhs.trim_end().to_string());
        return Ok((pre, t, sig.ret));
      }
      return Err(format!("call to untranslated method `{}`", name));
    }
    // self.buf.as_ptr().add(count): the data pointer, as a byte offset from the block base
    if name == "add" && m.args.len() == 1 && toks(&m.receiver).replace(' ', "") == "self.buf.as_ptr()" && !self.pure {
      let n = self.nat(&m.args[0], &mut pre)?;
      return Ok((pre, format!("(DPtr.at {})", n), Kind::DPtr));
    }
    // slice parameter length: elems.len()
    if name == "len" && m.args.is_empty() {
      if let Expr::Path(p) = strip(&m.receiver) {
        let n = path_str(&p.path);
        if self.slice_params.contains(&n) {
          return Ok((vec![], format!("v_{}_len", n), Kind::Nat));
        }
      }
    }
    // range.start_bound() / end_bound() are handled in match_expr
    let (rp, recv, rk) = self.expr(&m.receiver)?;
    pre.extend(rp);
    match (rk, name.as_str()) {
      (Kind::Nat, "checked_add") | (Kind::Nat, "checked_sub") | (Kind::Nat, "checked_mul") => {
        if m.args.len() != 1 {
          return Err("checked_* arity".into());
        }
        let a = self.nat(&m.args[0], &mut pre)?;
        let f = match name.as_str() {
          "checked_add" => "checkedAdd",
          "checked_sub" => "checkedSub",
          _ => "checkedMul",
        };
        Ok((pre, format!("({} {} {})", f, recv, a), Kind::OptNat))
      }
      (Kind::Nat, "is_power_of_two") => Ok((pre, format!("(isPow2 {})", recv), Kind::Bool)),
      (Kind::Nat, "max") | (Kind::Nat, "min") => {
        let a = self.nat(&m.args[0], &mut pre)?;
        Ok((pre, format!("({} {} {})", name, recv, a), Kind::Nat))
      }
      (Kind::OptNat, "expect") | (Kind::OptNat, "unwrap") => {
        let rhs = self.lift(&format!("expectSome {}", recv));
        let t = self.bind(&mut pre, rhs);
        Ok((pre, t, Kind::Nat))
      }
      (Kind::OptLayout, "expect") | (Kind::OptLayout, "unwrap") => {
        let rhs = self.lift(&format!("expectSome {}", recv));
        let t = self.bind(&mut pre, rhs);
        Ok((pre, t, Kind::Layout))
      }
      (Kind::OptNat, "is_some") => Ok((pre, format!("({}).isSome", recv), Kind::Bool)),
      (Kind::OptNat, "is_none") => Ok((pre, format!("({}).isNone", recv), Kind::Bool)),
      (Kind::Layout, "size") => Ok((pre, format!("{}.size", recv), Kind::Nat)),
      (Kind::Layout, "align") => Ok((pre, format!("{}.align", recv), Kind::Nat)),
      (Kind::Tok, "is_null") => Ok((pre, format!("{}.isNull", recv), Kind::Bool)),
      (Kind::DPtr, "is_null") => Ok((pre, format!("{}.isNull", recv), Kind::Bool)),
      (Kind::Tok, "cast") | (Kind::DPtr, "cast") | (Kind::Sentinel, "cast") => Ok((pre, recv, rk)),
      _ => Err(format!("method `{}` on {:?} in `{}`", name, rk, toks(m))),
    }
  }

  fn call(&mut self, c: &ExprCall) -> R<Ex> {
    let p = match strip(&c.func) {
      Expr::Path(p) => p.path.clone(),
      _ => return Err(format!("call `{}`", toks(c))),
    };
    let last = path_last(&p);
    let full = path_str(&p);
    let mut pre = vec![];
    let nargs = c.args.len();
    match last.as_str() {
      "size_of" | "align_of" | "needs_drop" if nargs == 0 => {
        let is_t = generic_arg_is(&p, "T");
        let is_h = generic_arg_is(&p, "Header");
        let r = match (last.as_str(), is_t, is_h) {
          ("size_of", true, _) => ("E.c.elemSize", Kind::Nat),
          ("align_of", true, _) => ("E.c.elemAlign", Kind::Nat),
          ("needs_drop", true, _) => ("E.c.needsDrop", Kind::Bool),
          ("size_of", _, true) => ("hdrSize", Kind::Nat),
          ("size_of", _, _) if generic_arg_is(&p, "usize") => ("wordSize", Kind::Nat),
          ("align_of", _, true) => ("hdrAlign", Kind::Nat),
          _ => return Err(format!("`{}`", toks(c))),
        };
        return Ok((vec![], r.0.into(), r.1));
      }
      "max" | "min" if nargs == 2 && (full.ends_with("cmp::max") || full.ends_with("cmp::min")) => {
        let a = self.nat(&c.args[0], &mut pre)?;
        let b = self.nat(&c.args[1], &mut pre)?;
        return Ok((pre, format!("({} {} {})", last, a, b), Kind::Nat));
      }
      "from_size_align" if nargs == 2 => {
        let a = self.nat(&c.args[0], &mut pre)?;
        let b = self.nat(&c.args[1], &mut pre)?;
        return Ok((pre, format!("(layoutFromSizeAlign {} {})", a, b), Kind::OptLayout));
      }
      "alloc" if nargs == 1 && full.ends_with("alloc::alloc") && !self.pure => {
        let (lp, l, k) = self.expr(&c.args[0])?;
        if k != Kind::Layout {
          return Err("alloc argument".into());
        }
        pre.extend(lp);
        let t = self.bind(&mut pre, format!("GM.alloc E {}", l));
        return Ok((pre, t, Kind::Tok));
      }
      "realloc" if nargs == 3 && !self.pure => {
        // realloc(self.buf.as_ptr(), old_layout, new_size)
        if toks(&c.args[0]).replace(' ', "") != "self.buf.as_ptr()" {
          return Err(format!("realloc of `{}`", toks(&c.args[0])));
        }
        let (lp, l, k) = self.expr(&c.args[1])?;
        if k != Kind::Layout {
          return Err("realloc layout".into());
        }
        pre.extend(lp);
        let n = self.nat(&c.args[2], &mut pre)?;
        let t = self.bind(&mut pre, format!("GM.realloc E {} {}", l, n));
        return Ok((pre, t, Kind::Tok));
      }
      "handle_alloc_error" if nargs == 1 && !self.pure => {
        let (lp, l, k) = self.expr(&c.args[0])?;
        if k != Kind::Layout {
          return Err("handle_alloc_error argument".into());
        }
        pre.extend(lp);
        pre.push(format!("GM.handleAllocError (α := Unit) {}", l));
        return Ok((pre, "()".into(), Kind::Unit));
      }
      "read" if nargs == 1 && full.ends_with("ptr::read") && !self.pure => {
        // `ptr::read(<data pointer>.sub(<bytes>).cast::<usize>())`: the word in front of the elements
        if let Expr::MethodCall(castm) = strip(&c.args[0]) {
          if castm.method == "cast" && toks(castm).replace(' ', "").ends_with(".cast::<usize>()") {
            if let Expr::MethodCall(subm) = strip(&castm.receiver) {
              if subm.method == "sub" && subm.args.len() == 1 {
                let (tp, t, tk) = self.expr(&subm.receiver)?;
                if tk == Kind::DPtr {
                  pre.extend(tp);
                  let off = self.nat(&subm.args[0], &mut pre)?;
                  let v = self.bind(&mut pre, format!("GM.readMirror {} {}", t, off));
                  return Ok((pre, v, Kind::Nat));
                }
              }
            }
          }
        }
        return Err(format!("`{}`", toks(c)));
      }
      "write" if nargs == 2 && full.ends_with("ptr::write") && !self.pure => {
        // `ptr::write(<block>.add(<offset>).cast::<usize>(), <value>)`: the word in front of the elements
        if let Expr::MethodCall(castm) = strip(&c.args[0]) {
          if castm.method == "cast" && toks(castm).replace(' ', "").ends_with(".cast::<usize>()") {
            if let Expr::MethodCall(addm) = strip(&castm.receiver) {
              if addm.method == "add" && addm.args.len() == 1 {
                let (tp, t, tk) = self.expr(&addm.receiver)?;
                if tk == Kind::Tok {
                  pre.extend(tp);
                  let off = self.nat(&addm.args[0], &mut pre)?;
                  let val = self.nat(&c.args[1], &mut pre)?;
                  pre.push(format!("GM.writeMirror {} {} {}", t, off, val));
                  return Ok((pre, "()".into(), Kind::Unit));
                }
              }
            }
          }
        }
        let (tp, t, tk) = self.expr(&c.args[0])?;
        let (hp, h, hk) = self.expr(&c.args[1])?;
        if tk == Kind::Tok && hk == Kind::Header {
          pre.extend(tp);
          pre.extend(hp);
          pre.push(format!("GM.writeHeader {} {}", t, h));
          return Ok((pre, "()".into(), Kind::Unit));
        }
        return Err(format!("ptr::write `{}`", toks(c)));
      }
      "null" | "null_mut" if nargs == 0 => return Ok((vec![], "DPtr.null".into(), Kind::DPtr)),
      "new_unchecked" if nargs == 1 => {
        // NonNull::new_unchecked(&DEFAULT_U8 as *const u8 as *mut u8) | NonNull::new_unchecked(new_buf)
        let a = toks(&c.args[0]).replace(' ', "");
        if a.contains("DEFAULT_U8") {
          return Ok((vec![], "()".into(), Kind::Sentinel));
        }
        let (tp, t, tk) = self.expr(&c.args[0])?;
        if tk == Kind::Tok {
          return Ok((tp, t, Kind::Tok));
        }
        return Err(format!("new_unchecked `{}`", toks(c)));
      }
      "new" if nargs == 0 && (full == "MiniVec::new" || full == "Self::new" || full.ends_with("MiniVec::<T>::new")) => {
        return Ok((vec![], "()".into(), Kind::NewVec));
      }
      "Ok" if nargs == 1 => {
        if self.is_self(&c.args[0]) {
          return Ok((vec![], "(Except.ok ())".into(), Kind::LayoutRes));
        }
      }
      "Err" if nargs == 1 => {
        if let Expr::Path(ep) = strip(&c.args[0]) {
          let s = path_str(&ep.path);
          if let Some(v) = s.strip_prefix("LayoutErr::") {
            return Ok((vec![], format!("(Except.error LayoutErr.{})", v), Kind::LayoutRes));
          }
        }
      }
      _ => {}
    }
    // a call to a translated free function
    if let Some(sig) = self.full.get(&last).cloned() {
      if sig.pure && sig.params.len() == nargs {
        let mut args = vec![];
        for (a, k) in c.args.iter().zip(sig.params.iter()) {
          let (p2, at, ak) = self.expr(a)?;
          if ak != *k {
            return Err(format!("argument kind in `{}`", toks(c)));
          }
          pre.extend(p2);
          args.push(at);
        }
        self.uses.insert(last.clone());
        let callee = format!("{} E {}", sig.lean, args.join(" "));
        let rhs = self.lift(callee.trim_end());
        let t = self.bind(&mut pre, rhs);
        return Ok((pre, t, sig.ret));
      }
    }
    Err(format!("call `{}`", toks(c)))
  }

  fn branch(&mut self, pre: Vec<String>, atom: String) -> String {
    // a `do` block as one parenthesised term
    let mut s = String::from("(do\n");
    for l in pre {
      for ll in l.lines() {
        s.push_str("    ");
        s.push_str(ll);
        s.push('\n');
      }
    }
    s.push_str(&format!("    pure {})", atom));
    s
  }

  fn is_panic(e: &Expr) -> bool {
    match strip(e) {
      Expr::Macro(m) => m.mac.path.is_ident("panic") || m.mac.path.is_ident("unreachable"),
      Expr::Block(b) if b.block.stmts.len() == 1 => match &b.block.stmts[0] {
        Stmt::Expr(x, _) => Self::is_panic(x),
        Stmt::Macro(m) => m.mac.path.is_ident("panic") || m.mac.path.is_ident("unreachable"),
        _ => false,
      },
      _ => false,
    }
  }

  /// a match arm / if branch as one term; `None` kind = the arm diverges (panic!)
  fn arm(&mut self, e: &Expr) -> R<(String, Option<Kind>)> {
    if Self::is_panic(e) {
      let t = if self.pure { "(Except.error .explicit)" } else { "(GM.throw .explicit)" };
      return Ok((t.to_string(), None));
    }
    let (p, a, k) = self.expr(e)?;
    Ok((self.branch(p, a), Some(k)))
  }

  fn if_expr(&mut self, i: &ExprIf) -> R<Ex> {
    // `if let PAT = e { a } else { b }` is `match e { PAT => { a }, _ => { b } }`
    if let Expr::Let(l) = &*i.cond {
      let els = match &i.else_branch {
        Some((_, e)) => e,
        None => return Err("if-let without else".into()),
      };
      let text = format!("match {} {{ {} => {}, _ => {} }}", toks(&l.expr), toks(&l.pat), toks(&i.then_branch), toks(els));
      let m: ExprMatch = syn::parse_str(&text).map_err(|e| format!("if-let: {}", e))?;
      return self.match_expr(&m);
    }
    let mut pre = vec![];
    let c = self.boolean(&i.cond, &mut pre)?;
    let (tp, ta, tk) = self.block_expr(&i.then_branch)?;
    let els = match &i.else_branch {
      Some((_, e)) => e,
      None => return Err("if-expression without else".into()),
    };
    let (ep, ea, ek) = self.expr(els)?;
    if tk != ek {
      return Err(format!("if branches of kinds {:?}/{:?}", tk, ek));
    }
    let tb = self.branch(tp, ta);
    let eb = self.branch(ep, ea);
    let t = self.bind(&mut pre, format!("(if {} then {}\n  else {})", c, tb, eb));
    Ok((pre, t, tk))
  }

  pub fn block_expr(&mut self, b: &Block) -> R<Ex> {
    // a block used as an expression: lets followed by a tail expression
    let depth = self.vars.len();
    let mut pre = vec![];
    let n = b.stmts.len();
    for (k, s) in b.stmts.iter().enumerate() {
      match s {
        Stmt::Expr(e, None) if k + 1 == n => {
          let (p, a, kd) = self.expr(e)?;
          pre.extend(p);
          self.vars.truncate(depth);
          return Ok((pre, a, kd));
        }
        Stmt::Local(l) => {
          let lines = self.local(l)?;
          pre.extend(lines);
        }
        Stmt::Item(Item::Const(c)) => {
          // a function-local constant is a `let`
          let lines = self.local_const(c)?;
          pre.extend(lines);
        }
        _ => {
          self.vars.truncate(depth);
          return Err(format!("statement in expression block `{}`", toks(s)));
        }
      }
    }
    self.vars.truncate(depth);
    Err("block without tail expression".into())
  }

  fn match_expr(&mut self, m: &ExprMatch) -> R<Ex> {
    let scrut = strip(&m.expr);
    let mut pre = vec![];
    // match range.start_bound() / range.end_bound()
    if let Expr::MethodCall(mc) = scrut {
      let meth = mc.method.to_string();
      if (meth == "start_bound" || meth == "end_bound") && mc.args.is_empty() {
        if let Expr::Path(p) = strip(&mc.receiver) {
          if Some(path_str(&p.path)) == self.range_param {
            let lean = if meth == "start_bound" { "v_range_start" } else { "v_range_end" };
            let mut arms = vec![];
            let mut kind = None;
            for arm in &m.arms {
              let pat = toks(&arm.pat).replace(' ', "");
              let (ctor, var) = if let Some(r) = pat.strip_suffix(")") {
                if let Some(v) = r.strip_prefix("core::ops::Bound::Included(&").or(r.strip_prefix("Bound::Included(&")).or(r.strip_prefix("Included(&")) {
                  (".included", Some(v.to_string()))
                } else if let Some(v) = r.strip_prefix("core::ops::Bound::Excluded(&").or(r.strip_prefix("Bound::Excluded(&")).or(r.strip_prefix("Excluded(&")) {
                  (".excluded", Some(v.to_string()))
                } else {
                  return Err(format!("bound pattern `{}`", pat));
                }
              } else if pat.ends_with("Unbounded") {
                (".unbounded", None)
              } else {
                return Err(format!("bound pattern `{}`", pat));
              };
              let depth = self.vars.len();
              let head = match &var {
                Some(v) => {
                  self.vars.push((v.clone(), format!("v_{}", v), Kind::Nat));
                  format!("| {} v_{} =>", ctor, v)
                }
                None => format!("| {} =>", ctor),
              };
              let (ap, aa, ak) = self.expr(&arm.body)?;
              self.vars.truncate(depth);
              if let Some(k0) = kind {
                if k0 != ak {
                  return Err("match arm kinds".into());
                }
              }
              kind = Some(ak);
              arms.push(format!("  {} {}", head, self.branch(ap, aa)));
            }
            let t = self.bind(&mut pre, format!("(match {} with\n{})", lean, arms.join("\n")));
            return Ok((pre, t, kind.unwrap_or(Kind::Nat)));
          }
        }
      }
      // match a.cmp(&b) { Equal => .., Greater => .., Less => .. }
      if meth == "cmp" && mc.args.len() == 1 {
        let a = self.nat(&mc.receiver, &mut pre)?;
        let b = self.nat(&mc.args[0], &mut pre)?;
        let mut eq = None;
        let mut gt = None;
        let mut lt = None;
        let mut kind = None;
        for arm in &m.arms {
          let pat = toks(&arm.pat).replace(' ', "");
          let ex = self.expr(&arm.body)?;
          if let Some(k0) = kind {
            if k0 != ex.2 {
              return Err("match arm kinds".into());
            }
          }
          kind = Some(ex.2);
          let br = self.branch(ex.0, ex.1);
          if pat.ends_with("Equal") {
            eq = Some(br)
          } else if pat.ends_with("Greater") {
            gt = Some(br)
          } else if pat.ends_with("Less") {
            lt = Some(br)
          } else {
            return Err(format!("Ordering pattern `{}`", pat));
          }
        }
        match (eq, gt, lt) {
          (Some(e), Some(g), Some(l)) => {
            let t = self.bind(
              &mut pre,
              format!("(if {} == {} then {}\n  else if decide ({} > {}) then {}\n  else {})", a, b, e, a, b, g, l),
            );
            return Ok((pre, t, kind.unwrap()));
          }
          _ => return Err("Ordering match not exhaustive".into()),
        }
      }
    }
    let (sp, sa, sk) = self.expr(scrut)?;
    pre.extend(sp);
    match sk {
      Kind::Nat => {
        // integer literal / range / wildcard arms -> if chain
        let mut chain = String::new();
        let mut kind = None;
        let n = m.arms.len();
        for (k, arm) in m.arms.iter().enumerate() {
          if arm.guard.is_some() {
            return Err("match guard".into());
          }
          let cond = match &arm.pat {
            Pat::Lit(l) => Some(format!("{} == {}", sa, toks(&l.lit))),
            Pat::Range(r) => {
              let lo = r.start.as_ref().map(|x| toks(x));
              let hi = r.end.as_ref().map(|x| toks(x));
              let incl = matches!(r.limits, RangeLimits::Closed(_));
              match (lo, hi) {
                (Some(lo), Some(hi)) => Some(format!(
                  "decide ({} ≤ {}) && decide ({} {} {})",
                  lo,
                  sa,
                  sa,
                  if incl { "≤" } else { "<" },
                  hi
                )),
                _ => return Err("open range pattern".into()),
              }
            }
            Pat::Wild(_) => None,
            _ => return Err(format!("pattern `{}`", toks(&arm.pat))),
          };
          let ex = self.expr(&arm.body)?;
          if let Some(k0) = kind {
            if k0 != ex.2 {
              return Err("match arm kinds".into());
            }
          }
          kind = Some(ex.2);
          let br = self.branch(ex.0, ex.1);
          match cond {
            Some(c) => chain.push_str(&format!("if {} then {}\n  else ", c, br)),
            None => {
              if k + 1 != n {
                return Err("wildcard arm not last".into());
              }
              chain.push_str(&br);
            }
          }
        }
        if !matches!(m.arms.last().map(|a| &a.pat), Some(Pat::Wild(_))) {
          return Err("integer match without wildcard".into());
        }
        let t = self.bind(&mut pre, format!("({})", chain));
        Ok((pre, t, kind.unwrap()))
      }
      Kind::OptNat => {
        let mut some_arm = None;
        let mut none_arm = None;
        let mut kind = None;
        for arm in &m.arms {
          let pat = toks(&arm.pat).replace(' ', "");
          if let Some(v) = pat.strip_prefix("Some(").and_then(|x| x.strip_suffix(")")) {
            let depth = self.vars.len();
            self.vars.push((v.to_string(), format!("v_{}", v), Kind::Nat));
            let (t, k) = self.arm(&arm.body)?;
            self.vars.truncate(depth);
            if k.is_some() {
              kind = k;
            }
            some_arm = Some(format!("  | some v_{} => {}", v, t));
          } else if pat == "None" || (pat == "_" && some_arm.is_some()) {
            let (t, k) = self.arm(&arm.body)?;
            if k.is_some() {
              kind = k;
            }
            none_arm = Some(format!("  | none => {}", t));
          } else {
            return Err(format!("Option pattern `{}`", pat));
          }
        }
        match (some_arm, none_arm) {
          (Some(s), Some(n)) => {
            let t = self.bind(&mut pre, format!("(match {} with\n{}\n{})", sa, s, n));
            Ok((pre, t, kind.ok_or("every arm diverges")?))
          }
          _ => Err("Option match not exhaustive".into()),
        }
      }
      _ => Err(format!("match on {:?}", sk)),
    }
  }

  fn struct_lit(&mut self, s: &ExprStruct) -> R<Ex> {
    let name = path_last(&s.path);
    let mut pre = vec![];
    if name == "Header" {
      let mut fields = vec![];
      for f in &s.fields {
        let fname = match &f.member {
          Member::Named(i) => i.to_string(),
          _ => return Err("header literal".into()),
        };
        let a = self.nat(&f.expr, &mut pre)?;
        fields.push(format!("{} := {}", fname, a));
      }
      return Ok((pre, format!("({{ {} }} : HeaderV)", fields.join(", ")), Kind::Header));
    }
    if name == "MiniVec" {
      // MiniVec { buf, phantom } with buf the sentinel pointer
      for f in &s.fields {
        if let Member::Named(i) = &f.member {
          if i == "buf" {
            let (_, _, k) = self.expr(&f.expr)?;
            if k == Kind::Sentinel {
              return Ok((vec![], "()".into(), Kind::NewVec));
            }
          }
        }
      }
    }
    Err(format!("struct literal `{}`", toks(s)))
  }
}

//! mvtrans: translate the integer / decision part of minivec's Rust source into Lean 4.
//!
//! Usage: mvtrans <repo-src-dir> <out-dir>
//! Writes <out-dir>/Kernel.lean, <out-dir>/Facts.lean and <out-dir>/meta.json.
//! Exit status 0 = every function on the must-translate list was translated in the required mode;
//! 2 = some were not (they are listed in meta.json, and the Lean build of the theorems will fail).
mod ex;
mod facts;
mod tr;

use std::fs;
use std::path::Path;

fn main() {
  let args: Vec<String> = std::env::args().collect();
  if args.len() < 3 {
    eprintln!("usage: mvtrans <repo-src-dir> <out-dir>");
    std::process::exit(64);
  }
  let src = Path::new(&args[1]);
  let out = Path::new(&args[2]);
  fs::create_dir_all(out).unwrap();

  let mut files = vec![];
  collect(src, src, &mut files);
  files.sort();
  let mut parsed = vec![];
  for (rel, path) in &files {
    let text = fs::read_to_string(path).unwrap();
    match syn::parse_file(&text) {
      Ok(f) => parsed.push((rel.clone(), f)),
      Err(e) => {
        eprintln!("mvtrans: cannot parse {}: {}", rel, e);
        std::process::exit(3);
      }
    }
  }

  let (kernel, meta, ok) = tr::translate(&parsed);
  fs::write(out.join("Kernel.lean"), kernel).unwrap();
  let (facts_lean, facts_json) = facts::facts(&parsed);
  fs::write(out.join("Facts.lean"), facts_lean).unwrap();
  fs::write(
    out.join("meta.json"),
    format!("{{\n\"functions\": {},\n\"facts\": {}\n}}\n", meta, facts_json),
  )
  .unwrap();
  std::process::exit(if ok { 0 } else { 2 });
}

fn collect(root: &Path, dir: &Path, out: &mut Vec<(String, std::path::PathBuf)>) {
  for e in fs::read_dir(dir).unwrap() {
    let p = e.unwrap().path();
    if p.is_dir() {
      collect(root, &p, out);
    } else if p.extension().map(|x| x == "rs").unwrap_or(false) {
      let rel = p.strip_prefix(root).unwrap().to_string_lossy().to_string();
      out.push((rel, p));
    }
  }
}

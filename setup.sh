#!/bin/sh
# Build the framework from files on disk only (offline). Run once in /verif after a fresh restore.
set -e
cd /verif
export CARGO_NET_OFFLINE=true
mkdir -p build evidence replays
(cd mvtrans && CARGO_TARGET_DIR=/verif/build/mvtrans-target cargo build --offline --release)
/verif/build/mvtrans-target/release/mvtrans /repo/src /verif/lean/MiniVecProof/Gen || echo "mvtrans: some functions not translatable (checks will report it)"
(cd lean && lake build MiniVecProof driver)
(cd harness && CARGO_TARGET_DIR=/verif/build/harness-target cargo build --offline && CARGO_TARGET_DIR=/verif/build/harness-target cargo build --offline --release)
echo setup done
